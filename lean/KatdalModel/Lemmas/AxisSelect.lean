/-
  LazyIndexer: a strictly increasing in-range index list is read back exactly, by either
  read strategy (one slice per contiguous segment, or one spanning slice + post-selection).
-/
import KatdalModel.Lemmas.Runs
open Np Index LazyIx

namespace LazyIx

theorem mapM_ok_of_forall {α β} (f : α → Except Err β) (g : α → β) :
    ∀ (l : List α), (∀ x ∈ l, f x = .ok (g x)) → l.mapM f = .ok (l.map g) := by
  intro l
  induction l with
  | nil => intro _; rfl
  | cons a t ih =>
    intro h
    rw [List.mapM_cons, h a (List.mem_cons_self ..), ih (fun x hx => h x (List.mem_cons_of_mem _ hx))]
    rfl

theorem mapM_map_ok {α β γ} (g : α → β) (f : β → Except Err γ) (h : α → γ) :
    ∀ (l : List α), (∀ x ∈ l, f (g x) = .ok (h x)) → (l.map g).mapM f = .ok (l.map h) := by
  intro l
  induction l with
  | nil => intro _; rfl
  | cons a t ih =>
    intro hx
    rw [List.map_cons, List.mapM_cons, hx a (List.mem_cons_self ..),
      ih (fun x hx' => hx x (List.mem_cons_of_mem _ hx'))]
    rfl

theorem flatMap_congr' {α β} (f g : α → List β) : ∀ (l : List α), (∀ x ∈ l, f x = g x) →
    l.flatMap f = l.flatMap g := by
  intro l
  induction l with
  | nil => intro _; rfl
  | cons a t ih =>
    intro h
    simp only [List.flatMap_cons]
    rw [h a (List.mem_cons_self ..), ih (fun x hx => h x (List.mem_cons_of_mem _ hx))]

theorem strictInc_le_last : ∀ (l : List Int), strictInc l = true → ∀ last, l.getLast? = some last →
    ∀ x ∈ l, x ≤ last := by
  intro l
  induction l with
  | nil => intro _ last h; simp at h
  | cons a t ih =>
    intro hinc last hlast x hx
    cases t with
    | nil => simp at hlast hx; omega
    | cons b t' =>
      have hinc' := strictInc_tail hinc
      have hl : (b :: t').getLast? = some last := by simpa [List.getLast?_cons_cons] using hlast
      simp only [List.mem_cons] at hx
      rcases hx with rfl | hx
      · have h1 := strictInc_head_lt hinc b (by simp)
        have h2 := ih hinc' last hl b (by simp)
        omega
      · exact ih hinc' last hl x (by simpa using hx)

theorem getLast?_mem {α} : ∀ (l : List α) (x : α), l.getLast? = some x → x ∈ l := by
  intro l x h
  exact List.mem_of_getLast? h

/-- normalising an in-bounds non-negative list changes nothing -/
theorem normNeg_id (n : Nat) (l : List Int) (hb : ∀ x ∈ l, 0 ≤ x) : normNeg n l = l := by
  unfold normNeg
  induction l with
  | nil => rfl
  | cons a t ih =>
    have ha := hb a (List.mem_cons_self ..)
    simp only [List.map_cons]
    rw [if_neg (by omega), ih (fun x hx => hb x (List.mem_cons_of_mem _ hx))]

theorem mem_normNeg (n : Nat) (l : List Int) (y : Int) (hy : y ∈ normNeg n l) :
    ∃ x ∈ l, y = if x < 0 then x + n else x := by
  unfold normNeg at hy
  obtain ⟨x, hx, rfl⟩ := List.mem_map.mp hy
  exact ⟨x, hx, rfl⟩

/-- **Both read strategies return exactly the requested positions.** -/
theorem axisSelectArr_spec (n : Nat) (l : List Int) (hne : l ≠ []) (hinc : strictInc l = true)
    (hb : ∀ x ∈ l, 0 ≤ x ∧ x < n) :
    axisSelectArr n l = .ok (.many (l.map Int.toNat)) := by
  cases l with
  | nil => exact absurd rfl hne
  | cons a t =>
    obtain ⟨hexp, hmem, hhead⟩ := runs_spec (a :: t) hinc
    obtain ⟨e0, rest, hr⟩ := hhead a t rfl
    simp only [axisSelectArr, hinc, not_true_eq_false, if_false]
    split
    · -- span-and-postselect
      rename_i hcond
      have hfirst : ((runs (a :: t)).head?.map (·.1)).getD 0 = a := by simp [hr]
      obtain ⟨lastab, hlastab⟩ : ∃ ab, (runs (a :: t)).getLast? = some ab := by
        rw [hr]; exact ⟨_, List.getLast?_eq_some_getLast (by simp)⟩
      have hlast := runs_last (a :: t) hinc lastab hlastab
      have hlastEnd : ((runs (a :: t)).getLast?.map (·.2)).getD 0 = lastab.2 := by simp [hlastab]
      have hlm : lastab.2 - 1 ∈ a :: t := getLast?_mem _ _ hlast
      have hle := strictInc_le_last (a :: t) hinc _ hlast
      have hge : ∀ x ∈ a :: t, a ≤ x := by
        intro x hx
        simp only [List.mem_cons] at hx
        rcases hx with rfl | hx
        · omega
        · have := strictInc_head_lt hinc x hx; omega
      have hba := hb a (List.mem_cons_self ..)
      have hbl := hb _ hlm
      rw [hfirst, hlastEnd, readSlice_unit n a lastab.2 (by omega) (by omega) (by omega) (by omega)]
      have hm := mapM_map_ok (fun x => x - (a :: t).headD 0)
          (fun p => (do
            let k ← normInt (rangeList a lastab.2 1).length p
            getNat (rangeList a lastab.2 1) k : Except Err Int)) id (a :: t) (by
            intro x hx
            have h1 := hge x hx
            have h2 := hle x hx
            simp only [List.headD_cons, rangeList_unit_length, id]
            have hn : normInt (lastab.2 - a).toNat (x - a) = .ok (x - a).toNat := by
              unfold normInt
              have : 0 ≤ x - a ∧ x - a < ((lastab.2 - a).toNat : Int) := by omega
              rw [if_pos this]
            rw [hn]
            simp only [bind, Except.bind, getNat]
            rw [rangeList_unit_get a lastab.2 (x - a).toNat (by omega)]
            simp only [Except.ok.injEq]
            omega)
      simp only [List.map_id] at hm
      rw [hm]
    · -- one slice per segment
      have hpieces : ∀ ab ∈ runs (a :: t), readSlice n ab.1 ab.2 1 = rangeList ab.1 ab.2 1 := by
        intro ab hab
        obtain ⟨h1, h2, h3⟩ := hmem ab hab
        have := hb _ h2
        have := hb _ h3
        exact readSlice_unit n ab.1 ab.2 (by omega) (by omega) (by omega) (by omega)
      have hall : ((runs (a :: t)).map (fun ab => (readSlice n ab.1 ab.2 1, (ab.2 - ab.1).toNat))).all
          (fun p => decide (p.1.length = p.2)) = true := by
        simp only [List.all_map, List.all_eq_true, Function.comp, decide_eq_true_eq]
        intro ab hab
        rw [hpieces ab hab, rangeList_unit_length]
      have hflat : ((runs (a :: t)).map (fun ab => (readSlice n ab.1 ab.2 1, (ab.2 - ab.1).toNat))).flatMap (·.1)
          = a :: t := by
        rw [List.flatMap_map]
        have h1 := flatMap_congr' (fun ab : Int × Int => readSlice n ab.1 ab.2 1)
          (fun ab => rangeList ab.1 ab.2 1) (runs (a :: t)) hpieces
        have h2 : expandRuns (runs (a :: t)) = a :: t := hexp
        unfold expandRuns at h2
        exact h1.trans h2
      have hall' : ((runs (a :: t)).map (fun x => match x with
          | (a, b) => (readSlice n a b 1, (b - a).toNat))).all
          (fun x => match x with | (rd, sz) => decide (rd.length = sz)) = true := hall
      have hflat' : ((runs (a :: t)).map (fun x => match x with
          | (a, b) => (readSlice n a b 1, (b - a).toNat))).flatMap (·.1) = a :: t := hflat
      simp only [hall', hflat', if_true]

/-- an integer list whose entries (negative ones counted from the end) are in bounds: the axis is
    read through `axisSelectArr` on the normalised list -/
theorem axisSelect_arr_norm (n : Nat) (l : List Int) (hne : l ≠ [])
    (hb : ∀ x ∈ normNeg n l, 0 ≤ x ∧ x < n) :
    axisSelect n (.arr l) = axisSelectArr n (normNeg n l) := by
  cases l with
  | nil => exact absurd rfl hne
  | cons a t =>
    simp only [axisSelect]
    have : (normNeg n (a :: t)).any (fun v => decide (v < 0 ∨ v ≥ (n : Int))) = false := by
      rw [List.any_eq_false]
      intro x hx
      have := hb x hx
      simp only [decide_eq_true_eq]; omega
    rw [this]; rfl

/-- entries that are out of bounds even after counting from the end are refused (IndexError) -/
theorem axisSelect_arr_oob (n : Nat) (l : List Int) (h : ∃ x ∈ normNeg n l, x < 0 ∨ x ≥ (n : Int)) :
    axisSelect n (.arr l) = .error .index := by
  cases l with
  | nil => obtain ⟨x, hx, _⟩ := h; simp [normNeg] at hx
  | cons a t =>
    simp only [axisSelect]
    have : (normNeg n (a :: t)).any (fun v => decide (v < 0 ∨ v ≥ (n : Int))) = true := by
      rw [List.any_eq_true]
      obtain ⟨x, hx, hbad⟩ := h
      exact ⟨x, hx, by simpa using hbad⟩
    rw [this]; rfl

theorem axisSelect_arr (n : Nat) (l : List Int) (hne : l ≠ []) (hinc : strictInc l = true)
    (hb : ∀ x ∈ l, 0 ≤ x ∧ x < n) :
    axisSelect n (.arr l) = .ok (.many (l.map Int.toNat)) := by
  have hid := normNeg_id n l (fun x hx => (hb x hx).1)
  rw [axisSelect_arr_norm n l hne (by rw [hid]; exact hb), hid]
  exact axisSelectArr_spec n l hne hinc hb

end LazyIx
