/-
  Well-formedness of the v4 scan / compscan / target segmentation (visdatav4.py:417-485):
  every step keeps strictly increasing event boundaries and valid indices.
-/
import KatdalModel.Model.ScanStructure
import KatdalModel.Lemmas.CatRemove
open Np Categorical ScanStructure

namespace ScanStructure

theorem strictIncNat_cons_cons {a b : Nat} {t : List Nat} :
    strictIncNat (a :: b :: t) = true ↔ a < b ∧ strictIncNat (b :: t) = true := by
  simp [strictIncNat]

theorem strictIncNat_tail {a : Nat} {t : List Nat} (h : strictIncNat (a :: t) = true) :
    strictIncNat t = true := by
  cases t with
  | nil => rfl
  | cons b t' => exact (strictIncNat_cons_cons.mp h).2

/-- replacing the head by something smaller keeps the list strictly increasing -/
theorem strictIncNat_lower_head {a a' : Nat} {t : List Nat} (h : strictIncNat (a :: t) = true) (hle : a' ≤ a) :
    strictIncNat (a' :: t) = true := by
  cases t with
  | nil => rfl
  | cons b t' =>
    obtain ⟨h1, h2⟩ := strictIncNat_cons_cons.mp h
    exact strictIncNat_cons_cons.mpr ⟨by omega, h2⟩

theorem mergeFirstDump_wf (scan : Cat Nat) (h : scan.WF) :
    (mergeFirstDump scan).WF ∧ (mergeFirstDump scan).numDumps = scan.numDumps := by
  unfold mergeFirstDump
  obtain ⟨h1, h2, h3, h4⟩ := h
  split
  · rename_i e0 e1 erest i0 i1 irest hev hidx
    split
    · rename_i hcond
      obtain ⟨hlen, he1, _⟩ := hcond
      have hinc : strictIncNat (e1 :: erest) = true := by rw [hev] at h1; exact strictIncNat_tail h1
      have hne : erest ≠ [] := by
        intro hnil
        rw [hev, hidx, hnil] at h2
        simp at h2
      refine ⟨⟨?_, ?_, ?_, h4⟩, ?_⟩
      · exact strictIncNat_lower_head hinc (by omega)
      · rw [hev, hidx] at h2; simp at h2 ⊢; omega
      · intro i hi
        apply h3
        rw [hidx]
        exact List.mem_cons_of_mem _ hi
      · simp only [Cat.numDumps, hev]
        cases erest with
        | nil => exact absurd rfl hne
        | cons x xs => simp [List.getLastD]
    · exact ⟨⟨h1, h2, h3, h4⟩, rfl⟩
  · exact ⟨⟨h1, h2, h3, h4⟩, rfl⟩

theorem wf_head_le_last (c : Cat Nat) (h : c.WF) : c.ev.headD 0 ≤ c.numDumps := by
  obtain ⟨h1, _, _, _⟩ := h
  unfold Cat.numDumps
  generalize c.ev = l at h1
  induction l with
  | nil => simp
  | cons a t ih =>
    cases t with
    | nil => simp [List.getLastD]
    | cons b t' =>
      obtain ⟨hab, ht⟩ := strictIncNat_cons_cons.mp h1
      have := ih ht
      simp only [List.headD_cons] at this ⊢
      have e : (a :: b :: t').getLastD 0 = (b :: t').getLastD 0 := by simp [List.getLastD]
      rw [e]; omega

theorem dropInitialTarget_go_wf (scan target : Cat Nat) (ht : target.WF) (t0 : Nat) :
    ∀ (segs : List (Nat × Nat)) (r : Cat Nat), dropInitialTarget.go scan target t0 segs = .ok r → r.WF := by
  intro segs
  induction segs with
  | nil => intro r h; simp [dropInitialTarget.go, pure, Except.pure] at h; subst h; exact ht
  | cons s rest ih =>
    intro r h
    obtain ⟨start, si⟩ := s
    unfold dropInitialTarget.go at h
    cases hl : target.lookup1 (start : Int) with
    | error e => simp [hl, bind, Except.bind] at h
    | ok ts =>
      simp only [hl, bind, Except.bind] at h
      split at h
      · exact ih r h
      · split at h
        · -- drop the initial target event, then re-align onto its own events
          split at h
          · rename_i e0 e1 erest i0 irest hev hidx
            obtain ⟨h1, h2, h3, h4⟩ := ht
            have hwf' : ({ target with ev := 0 :: erest, idx := irest } : Cat Nat).WF := by
              refine ⟨?_, ?_, ?_, h4⟩
              · rw [hev] at h1
                have := strictIncNat_tail h1
                exact strictIncNat_lower_head this (by omega)
              · rw [hev, hidx] at h2; simp at h2 ⊢; omega
              · intro i hi; apply h3; rw [hidx]; exact List.mem_cons_of_mem _ hi
            exact align_wf _ hwf' _ r h
          · simp at h
        · simp [pure, Except.pure] at h; subst h; exact ht

theorem dropInitialTarget_wf (scan target : Cat Nat) (ht : target.WF) (r : Cat Nat)
    (h : dropInitialTarget scan target = .ok r) : r.WF := by
  unfold dropInitialTarget at h
  cases hl : target.lookup1 0 with
  | error e => simp [hl, bind, Except.bind] at h
  | ok t0 =>
    simp only [hl, bind, Except.bind] at h
    exact dropInitialTarget_go_wf scan target ht t0 _ r h

/-- **Every step of the v4 segmentation keeps the three series well-formed**, and the scans
    still span dumps `0 .. N`. -/
theorem mkStructure_wf (scan0 label0 target0 : Cat Nat) (hs : scan0.WF) (hl : label0.WF) (ht : target0.WF)
    (res : Result) (h : mkStructure scan0 label0 target0 = .ok res) :
    res.scan.WF ∧ res.label.WF ∧ res.target.WF ∧ res.scan.numDumps = scan0.numDumps := by
  unfold mkStructure at h
  obtain ⟨hs1, hn1⟩ := mergeFirstDump_wf scan0 hs
  -- label1
  cases hl1 : dropEmptyLabels label0 with
  | error e => simp [hl1, bind, Except.bind] at h
  | ok label1 =>
    have hlw1 : label1.WF := by
      unfold dropEmptyLabels at hl1
      split at hl1
      · exact (remove_wf label0 hl EMPTY label1 hl1).1
      · simp [pure, Except.pure] at hl1; subst hl1; exact hl
    simp only [hl1, bind, Except.bind] at h
    cases hs2 : (mergeFirstDump scan0).addUnmatched label1.ev 1 with
    | error e => simp [hs2] at h
    | ok scan2 =>
      obtain ⟨hsw2, hn2⟩ := addUnmatched_wf _ hs1 _ _ scan2 hs2
      simp only [hs2] at h
      cases hl2 : label1.align scan2.ev with
      | error e => simp [hl2] at h
      | ok label2 =>
        have hlw2 := align_wf label1 hlw1 _ label2 hl2
        simp only [hl2] at h
        cases hl3 : addDefaultLabel label2 with
        | error e => simp [hl3] at h
        | ok label3 =>
          have hlw3 : label3.WF := by
            unfold addDefaultLabel at hl3
            split at hl3
            · rename_i hpos
              have := wf_head_le_last label2 hlw2
              exact (add_wf label2 hlw2 0 (some EMPTY) (by omega) label3 hl3).1
            · simp [pure, Except.pure] at hl3; subst hl3; exact hlw2
          simp only [hl3] at h
          cases ht1 : target0.align scan2.ev with
          | error e => simp [ht1] at h
          | ok target1 =>
            have htw1 := align_wf target0 ht _ target1 ht1
            simp only [ht1] at h
            cases ht2 : target1.removeRepeats with
            | error e => simp [ht2] at h
            | ok target2 =>
              have htw2 : target2.WF := by
                by_cases hne : target1.idx = []
                · simp [Cat.removeRepeats, hne] at ht2
                · obtain ⟨c', hc, hw, _⟩ := removeRepeats_spec target1 htw1 hne
                  rw [hc] at ht2
                  simp only [Except.ok.injEq] at ht2
                  subst ht2; exact hw
              simp only [ht2] at h
              cases ht3 : dropInitialTarget scan2 target2 with
              | error e => simp [ht3] at h
              | ok target3 =>
                have htw3 := dropInitialTarget_wf scan2 target2 htw2 target3 ht3
                simp [ht3, pure, Except.pure] at h
                subst h
                exact ⟨hsw2, hlw3, htw3, by simp only; omega⟩

end ScanStructure
