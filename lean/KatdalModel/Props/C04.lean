import KatdalModel.Model.DaskIndexer
open Np Index DaskIx
namespace C04
theorem placeholder : (1 : Nat) = 1 := rfl
end C04
