/-
  C08 — Damaged/mismatched chunks and unreachable stores never masquerade as data.

  "A stored chunk that is truncated at any byte or otherwise undecodable is never returned as
   data: it is reported as a missing chunk (and therefore flagged data_lost when loaded through a
   data set) or as a chunk-store error, while a decodable chunk whose dtype or shape differs from
   what the metadata promises raises BadChunk and an unreachable or unauthorised store raises
   StoreUnavailable, both of which make a load fail instead of being zero-filled. Writing a chunk
   to the NPY file store is atomic: if the writer fails or dies at any point, a reader sees either
   the previous state (absent or old chunk) or the complete new chunk, and a failed put is
   reported rather than swallowed."

  Model: KatdalModel/Model/ChunkStore.lean sections 7-9 (katdal's NPY stream reader with
  `_DetectTruncation`, `_standard_errors` over the generated error-map tables, the callers that
  swallow ChunkNotFound, and `NpyFileChunkStore.put_chunk` as file-system operations).
  Assumed, not modelled: `rename(2)` is atomic (POSIX); durability across power loss.
-/
import KatdalModel.Lemmas.ChunkNames
import KatdalModel.Lemmas.ChunkNpy
import KatdalModel.Lemmas.ChunkFs
import KatdalModel.Generated.TablesC08
open Np ChunkStore

namespace C08

/-! ### 1. The stream reader: truncated input is never data -/

/-- **a truncated chunk is never returned as data**: for every valid NPY encoding (format 1.0 or
    2.0, any header the numpy parser accepts, body of the promised size), every cut-off point
    `k < |b|` and every short-read schedule of the transport, `read_array` raises -/
theorem c08_truncated_never_data (parse : Bytes → Option Hdr) (v2 : Bool) (header body : Bytes)
    (h : Hdr) (hp : parse header = some h) (hbody : body.length = h.nbytes)
    (hlen : header.length < 256 ^ (if v2 then 4 else 2)) (k : Nat)
    (hk : k < (encodeNpy v2 header body).length) (sched : List Nat) :
    ∃ e, readArray parse ⟨(encodeNpy v2 header body).take k, sched⟩ = .error e :=
  readArray_truncated parse v2 header body h hp hbody hlen k hk sched

/-- a tiny blob: 3 header bytes, two one-byte elements -/
def demoHdr : Hdr := ⟨"|u1".toList, [2], false, false, 1⟩
def demoParse : Bytes → Option Hdr := fun hb => if hb = [7, 7, 7] then some demoHdr else none
def demoBlob : Bytes := encodeNpy false [7, 7, 7] [41, 42]

example : demoBlob.length = 15 := by decide
example : readArray demoParse ⟨demoBlob, [1, 1, 1, 3, 9, 2, 2]⟩ = .ok (demoHdr, [41, 42]) := by decide
example : readArray demoParse ⟨demoBlob.take 14, [3, 100]⟩ = .error .incompleteRead := by decide
example : readArray demoParse ⟨demoBlob.take 9, []⟩ = .error .incompleteRead := by decide
example : readArray demoParse ⟨[], []⟩ = .error .incompleteRead := by decide
-- garbage and unsupported versions are ValueErrors, object dtypes too
example : readArray demoParse ⟨List.replicate 20 65, []⟩ = .error .valueError := by decide
example : readArray demoParse ⟨magicPrefix ++ [3, 0] ++ List.replicate 20 0, []⟩ = .error .valueError := by
  decide
example : readArray (fun _ => some { demoHdr with hasObject := true }) ⟨demoBlob, []⟩
    = .error .valueError := by decide

/-- a complete blob reads back (unbounded reads), also when more bytes follow -/
theorem c08_complete_reads_back (parse : Bytes → Option Hdr) (v2 : Bool)
    (header body extra : Bytes) (h : Hdr) (hp : parse header = some h) (hobj : h.hasObject = false)
    (hbody : body.length = h.nbytes) (hlen : header.length < 256 ^ (if v2 then 4 else 2)) :
    readArray parse ⟨encodeNpy v2 header body ++ extra, []⟩ = .ok (h, body) :=
  readArray_complete parse v2 header body extra h hp hobj hbody hlen

/-- **short reads never produce wrong data**: for every short-read schedule, a successful
    `read_array` of a valid blob returns exactly its header facts and body (a short final
    `readinto` raises instead) -/
theorem c08_short_reads_sound (parse : Bytes → Option Hdr) (v2 : Bool) (header body extra : Bytes)
    (h : Hdr) (hp : parse header = some h) (hbody : body.length = h.nbytes)
    (hlen : header.length < 256 ^ (if v2 then 4 else 2)) (sched : List Nat) (r : Hdr × Bytes)
    (hr : readArray parse ⟨encodeNpy v2 header body ++ extra, sched⟩ = .ok r) : r = (h, body) :=
  readArray_sound parse v2 header body extra h hp hbody hlen sched r hr

example : readArray demoParse ⟨demoBlob, [8, 2, 3, 1]⟩ = .error .incompleteRead := by decide

/-! ### 2. Decodable but mismatching: BadChunk on all three back-ends -/

/-- **dtype or shape differing from the metadata is BadChunk** for every keyed store (NPY files,
    S3 objects: any location map) -/
theorem c08_mismatch_is_badchunk {L} (loc : Name → L) (σ : KV L) (array : Name)
    (starts shape : List Nat) (dt : List Char) (h : starts.length = shape.length) (c : Chunk)
    (hc : σ (loc (chunkName array starts)) = some (.chunk c))
    (hbad : c.shape ≠ shape ∨ c.dtype ≠ dt) :
    kvGet loc σ array (natSlices starts shape) dt false = .error .badChunk := by
  have hm := chunkMetadata_natSlices array starts shape h
  unfold kvGet; rw [hm.2]
  simp only [hc]
  rcases hbad with hs | hd
  · have : c.shape.map Int.ofNat ≠ shape.map Int.ofNat := fun heq => hs (map_ofNat_inj _ _ heq)
    simp [this]
  · simp [hd]

/-- the same for the dict store (views of whole arrays): wrong dtype, or slices reaching outside
    the array so that numpy clips the view -/
theorem c08_mismatch_is_badchunk_dict {α} (arrays : Name → Option (DArr α)) (array : Name)
    (starts shape : List Nat) (dt : List Char) (h : starts.length = shape.length) (a : DArr α)
    (ha : arrays array = some a) (hnd : starts.length ≤ a.shape.length)
    (hbad : clippedShape a.shape (natSlices starts shape) ≠ shape.map Int.ofNat ∨ a.dtype ≠ dt) :
    dictGet arrays array starts shape dt false = .error .badChunk := by
  have hm := chunkMetadata_natSlices array starts shape h
  unfold dictGet
  simp only [hm.2, ha]
  have hl : (natSlices starts shape).length = starts.length := by
    simp [natSlices, List.length_zip, h]
  have : ¬ (natSlices starts shape).length > a.shape.length := by omega
  simp only [this, if_false]
  rcases hbad with hs | hd
  · simp [hs]
  · simp [hd]

/-- a requested dtype that contains objects is refused before the store is touched -/
theorem c08_object_dtype_refused {L} (loc : Name → L) (σ : KV L) (array : Name)
    (starts shape : List Nat) (dt : List Char) (h : starts.length = shape.length) :
    kvGet loc σ array (natSlices starts shape) dt true = .error .badChunk := by
  have hsteps := steps_natSlices starts shape
  unfold kvGet
  simp only [chunkMetadata, sliceShape_natSlices starts shape h, hsteps]
  simp

example : kvGet id (fun _ => some (.chunk ⟨"<f4".toList, [2], []⟩)) [] (natSlices [0] [2]) "<f8".toList false
    = .error .badChunk := by decide

/-! ### 3. `_standard_errors` over the generated error maps -/

/-- MRO of a class of the generated table -/
def mroOf (c : String) : List String := (TablesC08.excMro.lookup c).getD [c]

def cse : String := "katdal.chunkstore.ChunkStoreError"
def notFound : String := "katdal.chunkstore.ChunkNotFound"
def badChunk : String := "katdal.chunkstore.BadChunk"
def unavailable : String := "katdal.chunkstore.StoreUnavailable"

/-- `_standard_errors`: not caught unless an instance of some key; exact type first; else the
    first key, in dict order, that the exception is an instance of -/
theorem c08_classify_rule (map : List (String × String)) (mro : List String) :
    (map.any (fun kv => mro.contains kv.1) = false → classify map mro = none) ∧
    (∀ kv, map.any (fun kv => mro.contains kv.1) = true →
      map.find? (fun kv => some kv.1 == mro.head?) = some kv → classify map mro = some kv.2) ∧
    (map.any (fun kv => mro.contains kv.1) = true →
      map.find? (fun kv => some kv.1 == mro.head?) = none →
      classify map mro = (map.find? (fun kv => mro.contains kv.1)).map (·.2)) := by
  refine ⟨?_, ?_, ?_⟩
  · intro h
    simp only [classify, h, Bool.false_eq_true, if_false]
  · intro kv h1 h2
    simp only [classify, h1, if_true, h2]
  · intro h1 h2
    simp only [classify, h1, if_true, h2]

/-- **NPY store, reading**: every OSError- or ValueError-derived class of the table (missing
    file, is-a-directory, undecodable or truncated NPY data, bad unicode in the header, ...)
    raised by `np.load` leaves `get_chunk` as a ChunkStoreError; a missing file and undecodable
    data in particular as ChunkNotFound (hence data_lost, not data) -/
theorem c08_classification_npy :
    (TablesC08.excMro.all fun row =>
      !(isInstance row.2 "OSError" || isInstance row.2 "ValueError") ||
        isInstance (mroOf (standardised TablesC08.npyErrorMap row.2)) cse) = true ∧
    isInstance (mroOf (standardised TablesC08.npyErrorMap (mroOf "FileNotFoundError"))) notFound = true ∧
    isInstance (mroOf (standardised TablesC08.npyErrorMap (mroOf "ValueError"))) notFound = true ∧
    isInstance (mroOf (standardised TablesC08.npyErrorMap (mroOf "UnicodeDecodeError"))) notFound = true := by
  decide

/-- **dict store**: a missing array (KeyError) or too many slices (IndexError) is ChunkNotFound -/
theorem c08_classification_dict :
    isInstance (mroOf (standardised TablesC08.dictErrorMap (mroOf "KeyError"))) notFound = true ∧
    isInstance (mroOf (standardised TablesC08.dictErrorMap (mroOf "IndexError"))) notFound = true := by
  decide

/-- **S3 store**: exhausted read/status retries and header read timeouts are ChunkNotFound
    (S3ServerGlitch); every other `requests` failure (connection refused, connect timeout, TLS,
    invalid URL, ...) is StoreUnavailable; and the ChunkStoreErrors the store raises itself inside
    the block (AuthorisationFailed for 401/403, S3ObjectNotFound for 404, StoreUnavailable for
    other statuses and for a missing bucket) pass through unchanged -/
theorem c08_classification_s3 :
    isInstance (mroOf (standardised TablesC08.s3ErrorMap (mroOf "urllib3.exceptions.MaxRetryError"))) notFound = true ∧
    isInstance (mroOf (standardised TablesC08.s3ErrorMap (mroOf "requests.exceptions.ReadTimeout"))) notFound = true ∧
    isInstance (mroOf (standardised TablesC08.s3ErrorMap (mroOf "requests.exceptions.RetryError"))) notFound = true ∧
    (TablesC08.excMro.all fun row =>
      !(isInstance row.2 "requests.exceptions.RequestException") ||
        row.1 == "requests.exceptions.ReadTimeout" || row.1 == "requests.exceptions.RetryError" ||
        isInstance (mroOf (standardised TablesC08.s3ErrorMap row.2)) unavailable) = true ∧
    (TablesC08.excMro.all fun row =>
      !(isInstance row.2 cse) || standardised TablesC08.s3ErrorMap row.2 == row.1) = true := by
  decide

/-- **HTTP statuses**: 401 and 403 raise a StoreUnavailable (AuthorisationFailed), 404 a
    ChunkNotFound, every other 4xx/5xx a StoreUnavailable; 2xx/3xx raise nothing -/
theorem c08_http_status (status : Nat) :
    (status = 401 ∨ status = 403 →
      httpStatusError status [] = some "katdal.chunkstore_s3.AuthorisationFailed") ∧
    (httpStatusError 404 [] = some "katdal.chunkstore_s3.S3ObjectNotFound") ∧
    (400 ≤ status → status < 600 → status ≠ 404 → ∃ c, httpStatusError status [] = some c ∧
      (c = "katdal.chunkstore_s3.AuthorisationFailed" ∨ c = unavailable)) ∧
    (status < 400 → httpStatusError status [] = none) ∧
    isInstance (mroOf "katdal.chunkstore_s3.AuthorisationFailed") unavailable = true ∧
    isInstance (mroOf "katdal.chunkstore_s3.AuthorisationFailed") notFound = false ∧
    isInstance (mroOf "katdal.chunkstore_s3.S3ObjectNotFound") notFound = true := by
  refine ⟨?_, by decide, ?_, ?_, by decide, by decide, by decide⟩
  · intro h
    rcases h with h | h <;> subst h <;> decide
  · intro h1 h2 h3
    by_cases h4 : status = 401 ∨ status = 403
    · refine ⟨_, ?_, Or.inl rfl⟩
      simp [httpStatusError, h1, h2, h4]
    · refine ⟨_, ?_, Or.inr rfl⟩
      simp [httpStatusError, h1, h2, h3, h4, unavailable]
  · intro h
    have : ¬ (400 ≤ status) := by omega
    simp [httpStatusError, this]

example : httpStatusError 403 [] = some "katdal.chunkstore_s3.AuthorisationFailed" ∧
    httpStatusError 409 [409] = none ∧ httpStatusError 503 [] = some unavailable ∧
    httpStatusError 204 [] = none := by decide
example : classify TablesC08.npyErrorMap (mroOf "FileNotFoundError") = some notFound ∧
    classify TablesC08.npyErrorMap (mroOf "KeyError") = none ∧
    classify TablesC08.baseErrorMap (mroOf notFound) = some notFound := by decide

/-! ### 4. Only ChunkNotFound becomes a default value / placeholder -/

/-- an error is swallowed exactly when it is an instance of a caught class -/
theorem c08_swallow_rule {α} (catches : List String) (mroOf : String → List String) (sub : α)
    (e : String) :
    (catches.any (isInstance (mroOf e)) = false →
      swallow catches mroOf sub (.error e) = .error e) ∧
    (catches.any (isInstance (mroOf e)) = true →
      swallow catches mroOf sub (.error e) = .ok sub) ∧
    (∀ v, swallow catches mroOf sub (.ok v) = .ok v) := by
  refine ⟨fun h => by simp [swallow, h], fun h => by simp [swallow, h], fun v => rfl⟩

/-- **only the ChunkNotFound family is turned into a default value or placeholder**, by
    `get_chunk_or_default` and by `get_chunk_or_placeholder`: over the whole table an error is
    swallowed iff it is a ChunkNotFound; BadChunk, StoreUnavailable and their subclasses
    (AuthorisationFailed, InvalidToken) are never ChunkNotFound, so they propagate and the load
    fails instead of being zero-filled -/
theorem c08_only_notfound_defaulted :
    (TablesC08.excMro.all fun row =>
      TablesC08.defaultCatches.any (isInstance row.2) == isInstance row.2 notFound) = true ∧
    (TablesC08.excMro.all fun row =>
      TablesC08.placeholderCatches.any (isInstance row.2) == isInstance row.2 notFound) = true ∧
    (TablesC08.excMro.all fun row =>
      !(isInstance row.2 badChunk || isInstance row.2 unavailable) || !isInstance row.2 notFound) = true ∧
    swallow TablesC08.defaultCatches mroOf (0 : Nat) (.error badChunk) = .error badChunk ∧
    swallow TablesC08.defaultCatches mroOf (0 : Nat) (.error unavailable) = .error unavailable ∧
    swallow TablesC08.defaultCatches mroOf (0 : Nat) (.error "katdal.chunkstore_s3.AuthorisationFailed")
      = .error "katdal.chunkstore_s3.AuthorisationFailed" ∧
    swallow TablesC08.placeholderCatches mroOf (0 : Nat) (.error badChunk) = .error badChunk ∧
    swallow TablesC08.placeholderCatches mroOf (0 : Nat) (.error unavailable) = .error unavailable ∧
    swallow TablesC08.defaultCatches mroOf (0 : Nat) (.error "katdal.chunkstore_s3.S3ServerGlitch") = .ok 0 ∧
    swallow TablesC08.defaultCatches mroOf (0 : Nat) (.error notFound) = .ok 0 := by
  decide

/-! ### 5. Atomic put on the NPY file store -/

variable {P : Type} [DecidableEq P]

/-- **atomicity, `direct_write=False`** (`np.save` to the temp name, `os.rename`): for every
    previous state, every way the C library splits the data into writes and every crash point
    (any prefix of the operations), the final name holds what it held before, or - only once
    the rename has happened - the complete new chunk; no other name but the temp name changes -/
theorem c08_atomic_put_buffered (tmp fin : P) (hne : tmp ≠ fin) (pieces : List Bytes) (fs : FS P)
    (k : Nat) :
    let ops := putOpsBuffered tmp fin pieces
    let fs' := runOps (ops.take k) fs
    (k < ops.length → fs' fin = fs fin) ∧
    (ops.length ≤ k → fs' fin = some pieces.flatten) ∧
    (∀ p, p ≠ tmp → p ≠ fin → fs' p = fs p) := by
  intro ops fs'
  have hw := atomic_word hne _ (buffered_pre_all tmp pieces) fs k
  have hlen : ops.length = (FsOp.openTrunc tmp :: (pieces.map (FsOp.write tmp) ++ [FsOp.close])).length + 1 := by
    show (putOpsBuffered tmp fin pieces).length = _
    rw [putOpsBuffered_eq]; simp
  refine ⟨?_, ?_, ?_⟩
  · intro hk
    show runOps ((putOpsBuffered tmp fin pieces).take k) fs fin = fs fin
    rw [putOpsBuffered_eq]
    exact hw.1 (by omega)
  · intro hk
    show runOps ((putOpsBuffered tmp fin pieces).take k) fs fin = _
    rw [putOpsBuffered_eq, hw.2.1 (by omega), buffered_tmp_content]
  · intro p h1 h2
    show runOps ((putOpsBuffered tmp fin pieces).take k) fs p = fs p
    rw [putOpsBuffered_eq]
    exact hw.2.2 p h1 h2

/-- **atomicity, `direct_write=True`** (one page-aligned O_DIRECT write, `ftruncate` back to
    the exact size, `os.rename`): same statement; the padding never becomes visible -/
theorem c08_atomic_put_direct (tmp fin : P) (hne : tmp ≠ fin) (content : Bytes) (pad : Nat)
    (fs : FS P) (k : Nat) :
    let ops := putOpsDirect tmp fin content pad
    let fs' := runOps (ops.take k) fs
    (k < ops.length → fs' fin = fs fin) ∧
    (ops.length ≤ k → fs' fin = some content) ∧
    (∀ p, p ≠ tmp → p ≠ fin → fs' p = fs p) := by
  intro ops fs'
  have hw := atomic_word hne _ (direct_pre_all tmp content pad) fs k
  refine ⟨?_, ?_, ?_⟩
  · intro hk
    show runOps ((putOpsDirect tmp fin content pad).take k) fs fin = fs fin
    rw [putOpsDirect_eq]
    have : ops.length = 5 := rfl
    exact hw.1 (by simp only [List.length_cons, List.length_nil]; omega)
  · intro hk
    show runOps ((putOpsDirect tmp fin content pad).take k) fs fin = _
    have : ops.length = 5 := rfl
    rw [putOpsDirect_eq, hw.2.1 (by simp only [List.length_cons, List.length_nil]; omega),
      direct_tmp_content]
  · intro p h1 h2
    show runOps ((putOpsDirect tmp fin content pad).take k) fs p = fs p
    rw [putOpsDirect_eq]
    exact hw.2.2 p h1 h2

/-- **atomicity for every trace of the op language** (what the strace correspondence checks real
    traces against): open-truncate the temp name, then only writes / truncates / closes on it,
    then one rename.  Cut anywhere, the final name holds the old content or whatever the temp
    name held just before the rename, and nothing else changes -/
theorem c08_atomic_any_word (tmp fin : P) (hne : tmp ≠ fin) (ops : List (FsOp P))
    (hw : isPutWord tmp fin ops = true) (fs : FS P) (k : Nat) :
    (k < ops.length → runOps (ops.take k) fs fin = fs fin) ∧
    (ops.length ≤ k → runOps (ops.take k) fs fin
        = match runOps ops.dropLast fs tmp with
          | some c => some c
          | none => fs fin) ∧
    (∀ p, p ≠ tmp → p ≠ fin → runOps (ops.take k) fs p = fs p) := by
  obtain ⟨body, hops, hall⟩ := isPutWord_split ops hw
  have hat := atomic_word hne _ hall fs k
  have hdl : ops.dropLast = FsOp.openTrunc tmp :: body := by rw [hops, List.dropLast_concat]
  have hlen : ops.length = (FsOp.openTrunc tmp :: body).length + 1 := by rw [hops]; simp
  rw [hdl]
  refine ⟨?_, ?_, ?_⟩
  · intro hk; rw [hops]; exact hat.1 (by omega)
  · intro hk; rw [hops]; exact hat.2.1 (by omega)
  · intro p h1 h2; rw [hops]; exact hat.2.2 p h1 h2

/-- **temp names never collide with chunk names**: no chunk of any array is stored under a name
    that is some chunk's temporary name (chunk ids contain no `.`) -/
theorem c08_tmp_never_collides (root a a' : Name) (s s' : List Nat) :
    npyTmpLoc root (chunkName a s) ≠ npyLoc root (chunkName a' s') :=
  npyTmp_ne_final root a a' s s'

example : npyTmpLoc "/d".toList (chunkName "x".toList [0]) = "/d/x/00000.writing.npy".toList := by decide

/-- **a failed put is reported and leaves the final name alone**: if operation `j` of a put
    fails (whatever damage it leaves on the temp name), `put_chunk` raises and the final name
    still holds the previous content; without a failure the put succeeds and the final name
    holds the new chunk -/
theorem c08_put_failure_reported (tmp fin : P) (hne : tmp ≠ fin) (pieces : List Bytes)
    (damage : Option Bytes) (fs : FS P) :
    (∀ j, j < (putOpsBuffered tmp fin pieces).length →
      (runPut tmp (putOpsBuffered tmp fin pieces) (some j) damage fs).1 = .error .osError ∧
      (runPut tmp (putOpsBuffered tmp fin pieces) (some j) damage fs).2 fin = fs fin) ∧
    (runPut tmp (putOpsBuffered tmp fin pieces) none damage fs).1 = .ok () ∧
    (runPut tmp (putOpsBuffered tmp fin pieces) none damage fs).2 fin = some pieces.flatten := by
  refine ⟨?_, rfl, ?_⟩
  · intro j hj
    have hat := c08_atomic_put_buffered tmp fin hne pieces fs j
    simp only [runPut, hj, if_true, true_and]
    simp only [FsOp.apply, Ne.symm hne, if_false]
    exact hat.1 hj
  · have hat := c08_atomic_put_buffered tmp fin hne pieces fs (putOpsBuffered tmp fin pieces).length
    simp only [runPut]
    have := hat.2.1 (Nat.le_refl _)
    rwa [List.take_length] at this

/-- the OSError of a failed file operation leaves `put_chunk` as a ChunkStoreError (so
    `put_chunk_noraise` hands it back per chunk instead of raising), and `put_chunk_noraise`
    returns exactly the ChunkStoreError family -/
theorem c08_noraise_returns_error :
    isInstance (mroOf (standardised TablesC08.npyErrorMap (mroOf "OSError"))) cse = true ∧
    noraise TablesC08.noraiseCatches mroOf (.error (standardised TablesC08.npyErrorMap (mroOf "OSError")))
      = .ok (some (standardised TablesC08.npyErrorMap (mroOf "OSError"))) ∧
    (TablesC08.excMro.all fun row =>
      TablesC08.noraiseCatches.any (isInstance row.2) == isInstance row.2 cse) = true ∧
    noraise TablesC08.noraiseCatches mroOf (.ok ()) = .ok none := by
  decide

-- one chunk written in two pieces over an old chunk, cut after every operation
example : (List.range 6).map (fun k => runOps ((putOpsBuffered 1 2 [[1, 2], [3]]).take k)
      (fun p => if p = 2 then some [9] else none) 2)
    = [some [9], some [9], some [9], some [9], some [9], some [1, 2, 3]] := by decide
example : (List.range 6).map (fun k => runOps ((putOpsDirect 1 2 [1, 2, 3] 5).take k)
      (fun _ => none) 2)
    = [none, none, none, none, none, some [1, 2, 3]] := by decide
example : isPutWord 1 2 (putOpsBuffered 1 2 [[1, 2], [3]]) = true ∧
    isPutWord 1 2 (putOpsDirect 1 2 [1, 2, 3] 5) = true ∧
    isPutWord 1 2 [FsOp.openTrunc 2, .write 2 [1], .close] = false := by decide

end C08
