/-
  C11 lemmas, part 2: the mutating operations (remove_repeats, concatenate, partition, add, remove,
  add_unmatched, align) against the explicit per-dump list, and preservation of well-formedness.
-/
import KatdalModel.Lemmas.CatLookup
import KatdalModel.Lemmas.CatGlue
open Np

namespace Categorical

set_option linter.unusedSimpArgs false
set_option linter.unusedSectionVars false

variable {V : Type} [DecidableEq V]

theorem zip_append_right_of_le {α β : Type} : ∀ (l : List α) (m x : List β), l.length ≤ m.length →
    List.zip l (m ++ x) = List.zip l m := by
  intro l
  induction l with
  | nil => intro m x _; simp
  | cons a t ih =>
    intro m x h
    cases m with
    | nil => simp at h
    | cons b u => simp only [List.cons_append, List.zip_cons_cons]; rw [ih u x (by simpa using h)]

theorem zip_map_fst_snd {α β : Type} (l : List (α × β)) : List.zip (l.map (·.1)) (l.map (·.2)) = l := by
  induction l with
  | nil => rfl
  | cons a t ih => simp [ih]

/-- a well-formed series with at least one event, seen as (index, start) pairs plus the end -/
theorem wf_view (c : Cat V) (h : c.WF) (hne : c.idx ≠ []) :
    ∃ (i0 e0 : Nat) (rest : List (Nat × Nat)),
      c.idx = i0 :: rest.map (·.1) ∧ c.ev = e0 :: (rest.map (·.2) ++ [c.numDumps]) := by
  obtain ⟨_, hlen, _, _⟩ := h
  cases hidx : c.idx with
  | nil => exact absurd hidx hne
  | cons i0 is =>
    cases hev : c.ev with
    | nil => rw [hev, hidx] at hlen; simp at hlen
    | cons e0 et =>
      have hetl : et.length = is.length + 1 := by rw [hev, hidx] at hlen; simpa using hlen
      have hetne : et ≠ [] := by intro h0; rw [h0] at hetl; simp at hetl
      refine ⟨i0, e0, List.zip is et.dropLast, ?_, ?_⟩
      · congr 1
        rw [List.map_fst_zip (by simp; omega)]
      · congr 1
        rw [List.map_snd_zip (by simp; omega)]
        have hN : c.numDumps = et.getLast hetne := by
          simp only [Cat.numDumps, hev]
          cases et with
          | nil => exact absurd rfl hetne
          | cons b u =>
            rw [getLastD_cons_cons, List.getLastD_eq_getLast?, List.getLast?_eq_getLast (l := b :: u) (by simp)]
            rfl
        rw [hN]
        exact (List.dropLast_append_getLast hetne).symm

theorem perDump_view (c : Cat V) (i0 e0 : Nat) (rest : List (Nat × Nat)) (N : Nat)
    (hi : c.idx = i0 :: rest.map (·.1)) (he : c.ev = e0 :: (rest.map (·.2) ++ [N])) :
    c.perDump = List.replicate e0 none ++
      (expandFrom N e0 i0 rest).map (fun i => c.uniq[i]?) := by
  simp only [Cat.perDump, Cat.values, hi, he, List.headD_cons, List.map_cons]
  congr 1
  have := expand_eq_expandFrom N (rest.map (fun p => (c.uniq[p.1]?, p.2))) e0 (c.uniq[i0]?)
  simp only [List.map_map, Function.comp] at this
  rw [expandFrom_map]
  rw [← this]
  simp only [List.map_map, Function.comp]

/-- **remove_repeats never changes any dump's value** (and keeps the series well-formed, with the
    same number of dumps and unique values, and without equal neighbouring indices) -/
theorem removeRepeats_spec (c : Cat V) (h : c.WF) (hne : c.idx ≠ []) :
    ∃ c', c.removeRepeats = .ok c' ∧ c'.WF ∧ c'.perDump = c.perDump ∧ c'.numDumps = c.numDumps ∧
      c'.uniq = c.uniq ∧ (∀ k x y, c'.idx[k]? = some x → c'.idx[k + 1]? = some y → x ≠ y) := by
  obtain ⟨i0, e0, rest, hi, he⟩ := wf_view c h hne
  have hsorted := strictInc_pairwise _ h.1
  rw [he] at hsorted
  have hzip : List.zip c.idx c.ev = (i0, e0) :: rest := by
    rw [hi, he, List.zip_cons_cons, zip_append_right_of_le _ _ _ (by simp), zip_map_fst_snd]
  have hkc : keepChanges none ((i0, e0) :: rest) = (i0, e0) :: keepChanges (some i0) rest := by
    simp [keepChanges]
  have hlenok : ¬ (c.idx = [] ∨ c.ev.length < c.idx.length) := by
    rw [hi, he]; simp
  have hlast : c.ev.getLastD 0 = c.numDumps := rfl
  refine ⟨{ uniq := c.uniq, idx := i0 :: (keepChanges (some i0) rest).map (·.1),
            ev := e0 :: ((keepChanges (some i0) rest).map (·.2) ++ [c.numDumps]) }, ?_, ?_, ?_, ?_, rfl, ?_⟩
  · simp only [Cat.removeRepeats, hlenok, if_false, hzip, hkc, hlast, List.map_cons, List.cons_append]
    rfl
  · -- well-formed
    have hsub : (keepChanges (some i0) rest).Sublist rest := keepChanges_sublist _ _
    refine ⟨?_, by simp, ?_, h.2.2.2⟩
    · apply C10aux_pairwise_strict
      have : (e0 :: ((keepChanges (some i0) rest).map (·.2) ++ [c.numDumps])).Sublist
          (e0 :: (rest.map (·.2) ++ [c.numDumps])) :=
        List.Sublist.cons_cons _ (List.Sublist.append (List.Sublist.map _ hsub) (List.Sublist.refl _))
      exact List.Pairwise.sublist this hsorted
    · intro i hi'
      apply h.2.2.1
      rw [hi]
      simp only [List.mem_cons, List.mem_map] at hi' ⊢
      rcases hi' with rfl | ⟨p, hp, rfl⟩
      · exact Or.inl rfl
      · exact Or.inr ⟨p, hsub.subset hp, rfl⟩
  · -- same per-dump list
    rw [perDump_view c i0 e0 rest c.numDumps hi he]
    rw [perDump_view _ i0 e0 (keepChanges (some i0) rest) c.numDumps rfl rfl]
    simp only
    congr 2
    have hle : (e0 :: rest.map (·.2)).Pairwise (· ≤ ·) := by
      have : (e0 :: rest.map (·.2)).Sublist (e0 :: (rest.map (·.2) ++ [c.numDumps])) :=
        List.Sublist.cons_cons _ (List.sublist_append_left _ _)
      exact (List.Pairwise.sublist this hsorted).imp (fun h => Nat.le_of_lt h)
    have hN : ∀ p ∈ rest, p.2 ≤ c.numDumps := by
      intro p hp
      have h1 := (List.pairwise_cons.mp hsorted).2
      have h2 := (List.pairwise_append.mp h1).2.2 p.2 (List.mem_map_of_mem hp) c.numDumps (by simp)
      omega
    have he0 : e0 ≤ c.numDumps := by
      have := (List.pairwise_cons.mp hsorted).1 c.numDumps (by simp)
      omega
    exact keepChanges_expand c.numDumps rest e0 i0 hle hN he0
  · simp [Cat.numDumps, List.getLastD_eq_getLast?, List.getLast?_cons_cons, List.getLast?_append]
    sorry
  · sorry

end Categorical
