"""Dtype zoo and array/chunking generators shared by the chunk-store properties (C07, C08).

Arrays are compared byte for byte (`tobytes()`), so NaN payloads, signed zeros and padding
inside structured dtypes all count; dtypes are compared with `==` plus byte order.
"""
import itertools

import numpy as np

# (label, dtype spec) - object-free
ZOO = [
    ('bool', '?'), ('i1', 'i1'), ('u1', 'u1'), ('i2', '<i2'), ('i2be', '>i2'), ('u2', '<u2'),
    ('i4', '<i4'), ('u4be', '>u4'), ('i8', '<i8'), ('i8be', '>i8'), ('u8', '<u8'),
    ('f2', '<f2'), ('f4', '<f4'), ('f4be', '>f4'), ('f8', '<f8'), ('f8be', '>f8'),
    ('c8', '<c8'), ('c8be', '>c8'), ('c16', '<c16'),
    ('S3', 'S3'), ('U2', '<U2'), ('M8', '<M8[s]'),
    ('rec', [('a', '<i4'), ('b', '>f8')]),
    ('recsub', [('x', 'u1', (2,)), ('y', '<c8')]),
    ('recpad', {'names': ['p', 'q'], 'formats': ['u1', '<u2'], 'offsets': [0, 2], 'itemsize': 4}),
]
ZOO_DICT = dict(ZOO)


def zoo_dtype(label):
    return np.dtype(ZOO_DICT[label])


def make_array(rng, dtype, shape):
    """Random array of the given dtype/shape from seeded `random.Random` (any bit pattern)."""
    dtype = np.dtype(dtype)
    n = int(np.prod(shape)) if len(shape) else 1
    if dtype.kind == 'b':
        flat = np.array([rng.random() < 0.5 for _ in range(n)], dtype=dtype)
    elif dtype.kind == 'U':
        k = dtype.itemsize // 4
        flat = np.array([''.join(rng.choice('abcxyz01 ') for _ in range(rng.randint(0, k))) for _ in range(n)],
                        dtype=dtype)
    else:
        raw = bytes(rng.getrandbits(8) for _ in range(n * dtype.itemsize))
        # no .copy(): copying a structured array leaves its padding bytes undefined
        flat = np.frombuffer(bytearray(raw), dtype=dtype) if dtype.itemsize else np.zeros(n, dtype)
    return flat.reshape(shape)


def same_array(a, b):
    """Element-for-element identical including dtype (byte order) and shape.  Padding bytes of
    structured dtypes are not elements: fields are compared one by one."""
    a = np.asarray(a)
    b = np.asarray(b)
    if not (a.shape == b.shape and a.dtype == b.dtype and a.dtype.byteorder == b.dtype.byteorder):
        return False
    if a.dtype.names:
        return all(same_array(a[n], b[n]) for n in a.dtype.names)
    return np.ascontiguousarray(a).tobytes() == np.ascontiguousarray(b).tobytes()


def random_partition(rng, n, allow_zero_chunks=False):
    """Random chunk sizes along an axis of length n (dask style: `(0,)` for an empty axis)."""
    if n == 0:
        return [0]
    out = []
    left = n
    while left:
        c = rng.randint(1, left)
        if rng.random() < 0.5:
            c = min(c, rng.randint(1, 3))
        out.append(c)
        left -= c
    return out


def chunk_slices(chunks, offset=None):
    """All chunk slice tuples (as lists of (start, stop)) of a chunking, with optional offset."""
    per_axis = []
    for ax, cs in enumerate(chunks):
        off = offset[ax] if offset else 0
        starts = np.cumsum([0] + list(cs))
        per_axis.append([(int(starts[i]) + off, int(starts[i + 1]) + off) for i in range(len(cs))])
    return [tuple(t) for t in itertools.product(*per_axis)]


def gen_unit_slice(rng, n):
    """A unit-step slice (start, stop, step) with all the ways Python lets one write it."""
    r = rng.random()
    if r < 0.15:
        return (None, None, rng.choice([None, 1]))

    def bound():
        q = rng.random()
        if q < 0.12:
            return None
        if q < 0.75:
            return rng.randint(0, n)
        if q < 0.9:
            return rng.randint(-n - 1, -1) if n else -1
        return rng.randint(n, n + 3)
    a, b = bound(), bound()
    if rng.random() < 0.6 and a is not None and b is not None and a >= 0 and b >= 0 and a > b:
        a, b = b, a
    return (a, b, rng.choice([None, 1]))


def enc_slices(sl):
    return '-' if not sl else ';'.join(':'.join('_' if v is None else str(v) for v in s) for s in sl)


def enc_chunks(chunks):
    return '-' if not chunks else ';'.join(','.join(str(c) for c in cs) for cs in chunks)


def enc_shape(shape):
    return '-' if not len(shape) else 'x'.join(str(s) for s in shape)
