/-
  Law-free structural lemmas about the C13 mirror (core Lean only):
  `calc_correction_per_corrprod`, `_correction_block` and the assembled dask array equal the
  pointwise function `mirrorRow`, for any scalar algebra whatsoever (no commutativity needed:
  the order of multiplication is the code's order).  The algebraic step from
  `(∏ c_p(in₁)) · conj (∏ c_p(in₂))` to `∏ c_p(in₁)·conj c_p(in₂)` lives in ApplyCalAlg.lean.
-/
import KatdalModel.Model.ApplyCal
open Np

namespace ApplyCal

variable {S F : Type}

/-! ### generic list / Except facts -/

theorem mapM_ok_map {α β : Type} {f : α → Except Err β} {g : α → β} (l : List α)
    (h : ∀ x ∈ l, f x = .ok (g x)) : l.mapM f = .ok (l.map g) := by
  induction l with
  | nil => rfl
  | cons a t ih =>
    rw [List.mapM_cons, h a (List.mem_cons_self ..), ih (fun x hx => h x (List.mem_cons_of_mem _ hx))]
    rfl

theorem getNat_ok {α : Type} (l : List α) (i : Nat) (h : i < l.length) : getNat l i = .ok l[i] := by
  simp [getNat, h]

theorem getNat_of_getElem? {α : Type} {l : List α} {i : Nat} {v : α} (h : l[i]? = some v) :
    getNat l i = .ok v := by
  simp [getNat, h]

/-- `l[f0 : f0+n]` as a tabulation -/
theorem drop_take_eq_map (l : List S) (d : S) : ∀ (n f0 : Nat), f0 + n ≤ l.length →
    (l.drop f0).take n = (List.range' f0 n).map (fun f => l[f]?.getD d)
  | 0, _, _ => by simp
  | n + 1, f0, h => by
    have hlt : f0 < l.length := by omega
    rw [List.drop_eq_getElem_cons hlt, List.take_succ_cons, List.range'_succ, List.map_cons,
      drop_take_eq_map l d n (f0 + 1) (by omega)]
    simp [hlt]

theorem replicate_eq_map_range' (x : S) (f0 n : Nat) :
    List.replicate n x = (List.range' f0 n).map (fun _ => x) := by
  simp [List.map_const']

/-! ### well-formedness (decidable) -/

/-- a correction vector fits the channel map: 1 channel for `broadcast`, all `nF` data channels for
    `direct`, every entry of the nearest-channel table in range for `expand` -/
def chanOK (cm : ChanMap) (g : List S) (nF : Nat) : Bool :=
  match cm with
  | .broadcast => g.length == 1
  | .direct => decide (nF ≤ g.length)
  | .expand e => e.length == nF && e.all (· < g.length)

def wfProduct (p : Product S) (nI nT nF : Nat) : Bool :=
  p.corr.length == nI && p.corr.all fun s => decide (nT ≤ s.length) && s.all fun g => chanOK p.cmap g nF

def wfParams (P : Params S) (nT nF : Nat) : Bool :=
  P.prods.all (wfProduct · P.inputs.length nT nF) &&
  P.idx1.all (· < P.inputs.length) && P.idx2.all (· < P.inputs.length)

/-! ### the per-input gain as a pointwise function -/

/-- `g_per_input[i][f]` at dump `t`: the product of the corrections in the code's order -/
def gIn (A : CAlg S F) (prods : List (Product S)) (i t f : Nat) : S :=
  prods.foldl (fun acc p => A.mul acc (corrAt A p i t f)) A.one

/-- `g₁ · conj g₂` for every correlation product -/
def mirrorRow (A : CAlg S F) (P : Params S) (t f : Nat) : List S :=
  (P.idx1.zip P.idx2).map fun ab => A.mul (gIn A P.prods ab.1 t f) (A.conj (gIn A P.prods ab.2 t f))

def mirrorArray (A : CAlg S F) (P : Params S) (t0 t1 f0 f1 : Nat) : List (List (List S)) :=
  (List.range' t0 (t1 - t0)).map fun t => (List.range' f0 (f1 - f0)).map fun f => mirrorRow A P t f

/-- table of a two-argument function -/
def tab (nI f0 n : Nat) (a : Nat → Nat → S) : List (List S) :=
  (List.range nI).map fun i => (List.range' f0 n).map (a i)

/-! ### one `g_per_input[i] *= channel_map(g, channels)` -/

theorem zipWith_map_range' (A : CAlg S F) (a b : Nat → S) (f0 n : Nat) :
    List.zipWith A.mul ((List.range' f0 n).map a) ((List.range' f0 n).map b)
      = (List.range' f0 n).map (fun f => A.mul (a f) (b f)) := by
  rw [List.zipWith_map, List.zipWith_self]

theorem mapStep (A : CAlg S F) (cm : ChanMap) (g : List S) (nF f0 f1 : Nat) (a : Nat → S)
    (hok : chanOK cm g nF = true) (hf : f0 ≤ f1) (hF : f1 ≤ nF) :
    (do let v ← applyMap cm g f0 f1; mulBroadcast A ((List.range' f0 (f1 - f0)).map a) v)
      = .ok ((List.range' f0 (f1 - f0)).map fun f => A.mul (a f) ((mapAt cm g f).getD A.nan)) := by
  cases cm with
  | broadcast =>
    simp only [chanOK, beq_iff_eq] at hok
    match g, hok with
    | [c], _ =>
      simp only [applyMap, bind, Except.bind, mulBroadcast, List.length_cons, List.length_nil,
        List.length_map, List.length_range', mapAt, List.getElem?_cons_zero, Option.getD_some]
      split
      · rename_i h1
        have : f1 - f0 = 1 := by omega
        simp [this]
      · simp [List.map_map, Function.comp_def]
  | direct =>
    simp only [chanOK, decide_eq_true_eq] at hok
    have hv := drop_take_eq_map g A.nan (f1 - f0) f0 (by omega)
    simp only [applyMap, bind, Except.bind, mulBroadcast, hv, List.length_map, List.length_range',
      if_true, zipWith_map_range', mapAt]
  | expand e =>
    simp only [chanOK, Bool.and_eq_true, beq_iff_eq, List.all_eq_true, decide_eq_true_eq] at hok
    obtain ⟨hlen, hall⟩ := hok
    have hv := drop_take_eq_map e 0 (f1 - f0) f0 (by omega)
    have hm : ((e.drop f0).take (f1 - f0)).mapM (getNat g)
        = .ok ((List.range' f0 (f1 - f0)).map (fun f => (mapAt (.expand e) g f).getD A.nan)) := by
      rw [hv, mapM_ok_map (g := fun k => g[k]?.getD A.nan)]
      · rw [List.map_map]
        congr 1
        apply List.map_congr_left
        intro f hfm
        have hfr : f < e.length := by
          have := List.mem_range'_1.mp hfm
          omega
        simp [mapAt, hfr]
      · intro k hk
        simp only [List.mem_map] at hk
        obtain ⟨f, hfm, rfl⟩ := hk
        have hfr : f < e.length := by
          have := List.mem_range'_1.mp hfm
          omega
        have hk := hall e[f] (List.getElem_mem hfr)
        simp [hfr, getNat, hk]
    simp only [applyMap, hm, bind, Except.bind, mulBroadcast, List.length_map, List.length_range',
      if_true, zipWith_map_range']

/-! ### one product over all inputs -/

theorem corrAt_of (A : CAlg S F) (p : Product S) (i t f : Nat) (s : List (List S)) (g : List S)
    (hs : p.corr[i]? = some s) (hg : s[t]? = some g) : corrAt A p i t f = (mapAt p.cmap g f).getD A.nan := by
  simp [corrAt, hs, hg]

theorem productStep_tab (A : CAlg S F) (p : Product S) (nI nT nF t f0 f1 : Nat) (a : Nat → Nat → S)
    (hwf : wfProduct p nI nT nF = true) (ht : t < nT) (hf : f0 ≤ f1) (hF : f1 ≤ nF) :
    productStep A t f0 f1 (tab nI f0 (f1 - f0) a) p
      = .ok (tab nI f0 (f1 - f0) fun i f => A.mul (a i f) (corrAt A p i t f)) := by
  simp only [wfProduct, Bool.and_eq_true, beq_iff_eq, List.all_eq_true, decide_eq_true_eq] at hwf
  obtain ⟨hlen, hall⟩ := hwf
  unfold productStep
  have hl : (tab nI f0 (f1 - f0) a).length = nI := by simp [tab]
  rw [hl]
  unfold tab
  apply mapM_ok_map
  intro i hi
  have hi' : i < nI := List.mem_range.mp hi
  have hrow : getNat ((List.range nI).map fun i => (List.range' f0 (f1 - f0)).map (a i)) i
      = .ok ((List.range' f0 (f1 - f0)).map (a i)) := by
    apply getNat_of_getElem?
    simp [hi']
  have hic : i < p.corr.length := by omega
  have hsm : p.corr[i] ∈ p.corr := List.getElem_mem hic
  obtain ⟨hT, hg⟩ := hall _ hsm
  have htl : t < p.corr[i].length := by omega
  have hgm : p.corr[i][t] ∈ p.corr[i] := List.getElem_mem htl
  have hok := hg _ hgm
  have hstep := mapStep A p.cmap (p.corr[i][t]) nF f0 f1 (a i) hok hf hF
  have hc : ∀ f, corrAt A p i t f = (mapAt p.cmap (p.corr[i][t]) f).getD A.nan := fun f =>
    corrAt_of A p i t f _ _ (List.getElem?_eq_getElem hic) (List.getElem?_eq_getElem htl)
  simp only [hrow, getNat_ok _ _ hic, getNat_ok _ _ htl, bind, Except.bind] at hstep ⊢
  rw [hstep]
  simp only [hc]

theorem foldlM_tab (A : CAlg S F) (nI nT nF t f0 f1 : Nat) (ht : t < nT) (hf : f0 ≤ f1) (hF : f1 ≤ nF) :
    ∀ (prods : List (Product S)) (a : Nat → Nat → S),
      (prods.all (wfProduct · nI nT nF) = true) →
      prods.foldlM (productStep A t f0 f1) (tab nI f0 (f1 - f0) a)
        = .ok (tab nI f0 (f1 - f0) fun i f =>
            prods.foldl (fun acc p => A.mul acc (corrAt A p i t f)) (a i f))
  | [], a, _ => by simp [List.foldlM, pure, Except.pure]
  | p :: rest, a, h => by
    simp only [List.all_cons, Bool.and_eq_true] at h
    rw [List.foldlM_cons, productStep_tab A p nI nT nF t f0 f1 a h.1 ht hf hF]
    simp only [bind, Except.bind]
    rw [foldlM_tab A nI nT nF t f0 f1 ht hf hF rest _ h.2]
    rfl

theorem gPerInput_eq (A : CAlg S F) (P : Params S) (nT nF t f0 f1 : Nat)
    (hwf : wfParams P nT nF = true) (ht : t < nT) (hf : f0 ≤ f1) (hF : f1 ≤ nF) :
    gPerInput A P t f0 f1 = .ok (tab P.inputs.length f0 (f1 - f0) fun i f => gIn A P.prods i t f) := by
  simp only [wfParams, Bool.and_eq_true] at hwf
  have hinit : List.replicate P.inputs.length (List.replicate (f1 - f0) A.one)
      = tab P.inputs.length f0 (f1 - f0) (fun _ _ => A.one) := by
    simp [tab, List.map_const']
  unfold gPerInput
  rw [hinit, foldlM_tab A _ nT nF t f0 f1 ht hf hF P.prods _ hwf.1.1]
  rfl

/-! ### inputs → correlation products -/

theorem inputsToCorrprods_tab (A : CAlg S F) (P : Params S) (f0 n : Nat) (G : Nat → Nat → S)
    (h1 : P.idx1.all (· < P.inputs.length) = true) (h2 : P.idx2.all (· < P.inputs.length) = true) :
    inputsToCorrprods A P (tab P.inputs.length f0 n G) n
      = .ok ((List.range' f0 n).map fun f =>
          (P.idx1.zip P.idx2).map fun ab => A.mul (G ab.1 f) (A.conj (G ab.2 f))) := by
  simp only [List.all_eq_true, decide_eq_true_eq] at h1 h2
  unfold inputsToCorrprods
  rw [List.range'_eq_map_range, List.map_map]
  apply mapM_ok_map
  intro j hj
  have hj' : j < n := List.mem_range.mp hj
  simp only [Function.comp]
  apply mapM_ok_map
  intro ab hab
  have ha : ab.1 < P.inputs.length := h1 _ (List.of_mem_zip hab).1
  have hb : ab.2 < P.inputs.length := h2 _ (List.of_mem_zip hab).2
  have hrow : ∀ i, i < P.inputs.length →
      getNat (tab P.inputs.length f0 n G) i = .ok ((List.range' f0 n).map (G i)) := by
    intro i hi
    apply getNat_of_getElem?
    simp [tab, hi]
  have hcol : ∀ i, getNat ((List.range' f0 n).map (G i)) j = .ok (G i (f0 + j)) := by
    intro i
    apply getNat_of_getElem?
    simp [hj']
  simp [hrow _ ha, hrow _ hb, hcol, bind, Except.bind, pure, Except.pure]

/-- **`calc_correction_per_corrprod` is the pointwise function** (including that it does not raise). -/
theorem perCorrprod_eq (A : CAlg S F) (P : Params S) (nT nF t f0 f1 : Nat)
    (hwf : wfParams P nT nF = true) (ht : t < nT) (hf : f0 ≤ f1) (hF : f1 ≤ nF) :
    perCorrprod A P t f0 f1 = .ok ((List.range' f0 (f1 - f0)).map (mirrorRow A P t)) := by
  have hw := hwf
  simp only [wfParams, Bool.and_eq_true] at hw
  unfold perCorrprod
  rw [gPerInput_eq A P nT nF t f0 f1 hwf ht hf hF]
  simp only [bind, Except.bind]
  rw [inputsToCorrprods_tab A P f0 (f1 - f0) _ hw.1.2 hw.2]
  rfl

/-- **`_correction_block`** at any absolute location -/
theorem block_eq (A : CAlg S F) (P : Params S) (nT nF t0 t1 f0 f1 : Nat)
    (hwf : wfParams P nT nF = true) (ht : t1 ≤ nT) (hf : f0 ≤ f1) (hF : f1 ≤ nF) :
    block A P t0 t1 f0 f1 = .ok (mirrorArray A P t0 t1 f0 f1) := by
  unfold block mirrorArray
  apply mapM_ok_map
  intro t htm
  have := List.mem_range'_1.mp htm
  exact perCorrprod_eq A P nT nF t f0 f1 hwf (by omega) hf hF

/-! ### assembling blocks over a chunking -/

theorem zipWith_append_map {α β : Type} (l : List α) (a b : α → List β) :
    List.zipWith (· ++ ·) (l.map a) (l.map b) = l.map (fun x => a x ++ b x) := by
  rw [List.zipWith_map, List.zipWith_self]

theorem assembleRow_eq (A : CAlg S F) (P : Params S) (nT nF t0 t1 : Nat)
    (hwf : wfParams P nT nF = true) (ht : t1 ≤ nT) :
    ∀ (cs : List Nat) (f0 : Nat), f0 + cs.sum ≤ nF →
      assembleRow A P t0 t1 f0 cs = .ok (mirrorArray A P t0 t1 f0 (f0 + cs.sum))
  | [], f0, _ => by
    simp [assembleRow, mirrorArray, List.map_const']
  | c :: cs, f0, h => by
    simp only [List.sum_cons] at h
    unfold assembleRow
    rw [block_eq A P nT nF t0 t1 f0 (f0 + c) hwf ht (by omega) (by omega),
      assembleRow_eq A P nT nF t0 t1 hwf ht cs (f0 + c) (by omega)]
    simp only [bind, Except.bind, pure, Except.pure, mirrorArray, zipWith_append_map]
    congr 1
    apply List.map_congr_left
    intro t _
    rw [← List.map_append]
    congr 1
    have h1 : f0 + c - f0 = c := by omega
    have h2 : f0 + c + cs.sum - (f0 + c) = cs.sum := by omega
    have h3 : f0 + (c :: cs).sum - f0 = c + cs.sum := by simp only [List.sum_cons]; omega
    rw [h1, h2, h3]
    have := @List.range'_append f0 c cs.sum 1
    simp

theorem assemble_eq (A : CAlg S F) (P : Params S) (nT nF : Nat) (cf : List Nat)
    (hwf : wfParams P nT nF = true) (hF : cf.sum ≤ nF) :
    ∀ (ct : List Nat) (t0 : Nat), t0 + ct.sum ≤ nT →
      assemble A P cf t0 ct = .ok (mirrorArray A P t0 (t0 + ct.sum) 0 cf.sum)
  | [], t0, _ => by simp [assemble, mirrorArray]
  | c :: ct, t0, h => by
    simp only [List.sum_cons] at h
    unfold assemble
    rw [assembleRow_eq A P nT nF t0 (t0 + c) hwf (by omega) cf 0 (by omega),
      assemble_eq A P nT nF cf hwf hF ct (t0 + c) (by omega)]
    simp only [bind, Except.bind, pure, Except.pure, mirrorArray, Nat.zero_add]
    congr 1
    rw [← List.map_append]
    congr 1
    have h1 : t0 + c - t0 = c := by omega
    have h2 : t0 + c + ct.sum - (t0 + c) = ct.sum := by omega
    have h3 : t0 + (c :: ct).sum - t0 = c + ct.sum := by simp only [List.sum_cons]; omega
    rw [h1, h2, h3]
    have := @List.range'_append t0 c ct.sum 1
    simp

end ApplyCal
