/-
  Lemmas about composing two stages of outer indexing.
-/
import KatdalModel.Model.Index
open Np Index

namespace Index

theorem getNat_ok {α} {L : List α} {k : Nat} {v : α} (h : getNat L k = .ok v) :
    k < L.length ∧ L[k]? = some v := by
  unfold getNat at h
  split at h
  · rename_i w hw
    simp only [Except.ok.injEq] at h
    subst h
    have := List.getElem?_eq_some_iff.mp hw
    exact ⟨this.1, hw⟩
  · simp at h

/-- `ks.mapM (getNat L)` succeeds only with in-range positions and returns `L[ks[j]]` at `j`. -/
theorem mapM_getNat {α} (L : List α) : ∀ (ks : List Nat) (vs : List α),
    ks.mapM (getNat L) = .ok vs →
    vs.length = ks.length ∧ ∀ j, j < ks.length → ∃ k, ks[j]? = some k ∧ k < L.length ∧ vs[j]? = L[k]? := by
  intro ks
  induction ks with
  | nil =>
    intro vs h
    simp [List.mapM_nil, pure, Except.pure] at h
    subst h
    simp
  | cons k ks ih =>
    intro vs h
    rw [List.mapM_cons] at h
    cases hk : getNat L k with
    | error e => simp [hk, bind, Except.bind] at h
    | ok v =>
      cases hr : ks.mapM (getNat L) with
      | error e => simp [hk, hr, bind, Except.bind] at h
      | ok rest =>
        simp [hk, hr, bind, Except.bind, pure, Except.pure] at h
        subst h
        obtain ⟨hlen, hall⟩ := ih rest hr
        obtain ⟨hkl, hkv⟩ := getNat_ok hk
        refine ⟨by simp [hlen], ?_⟩
        intro j hj
        cases j with
        | zero => exact ⟨k, by simp, hkl, by simp [hkv]⟩
        | succ j =>
          obtain ⟨k', h1, h2, h3⟩ := hall j (by simpa using hj)
          exact ⟨k', by simpa using h1, h2, by simpa using h3⟩

/-- per-axis composition: position `j` of the composed selection is `first[second[j]]` -/
theorem composeList_many (first ks vs : List Nat)
    (h : composeList first (.many ks) = .ok (.many vs)) :
    vs.length = ks.length ∧ ∀ j, j < ks.length → vs.getD j 0 = first.getD (ks.getD j 0) 0 := by
  unfold composeList at h
  simp only at h
  cases hm : ks.mapM (getNat first) with
  | error e => simp [hm, bind, Except.bind] at h
  | ok r =>
    simp [hm, bind, Except.bind, pure, Except.pure] at h
    subst h
    obtain ⟨hlen, hall⟩ := mapM_getNat first ks r hm
    refine ⟨hlen, ?_⟩
    intro j hj
    obtain ⟨k, h1, h2, h3⟩ := hall j hj
    simp [List.getD, h1, h3]

theorem composeList_one (first : List Nat) (k v : Nat)
    (h : composeList first (.one k) = .ok (.one v)) : k < first.length ∧ first.getD k 0 = v := by
  unfold composeList at h
  simp only at h
  cases hm : getNat first k with
  | error e => simp [hm, bind, Except.bind] at h
  | ok r =>
    simp [hm, bind, Except.bind, pure, Except.pure] at h
    subst h
    obtain ⟨h1, h2⟩ := getNat_ok hm
    exact ⟨h1, by simp [List.getD, h2]⟩

/-- shape of a composed selection is the shape of the second stage, per axis -/
theorem composeList_len (first : List Nat) (s c : Sel) (h : composeList first s = .ok c) :
    c.len = s.len := by
  unfold composeList at h
  cases s with
  | one k =>
    simp only at h
    cases hm : getNat first k with
    | error e => simp [hm, bind, Except.bind] at h
    | ok r =>
      simp [hm, bind, Except.bind, pure, Except.pure] at h
      subst h; rfl
  | many ks =>
    simp only at h
    cases hm : ks.mapM (getNat first) with
    | error e => simp [hm, bind, Except.bind] at h
    | ok r =>
      simp [hm, bind, Except.bind, pure, Except.pure] at h
      subst h
      simp [Sel.len, (mapM_getNat first ks r hm).1]

end Index

namespace Index

/-- `js` is a valid coordinate tuple for an array of shape `shape` -/
def inBounds : List Nat → List Nat → Prop
  | [], [] => True
  | n :: ns, j :: js => j < n ∧ inBounds ns js
  | _, _ => False

/-- **Two-stage outer indexing composes**: reading coordinate `js` of the composed selection
    reads the same source coordinate as indexing twice; and the result shape is the second
    stage's shape. -/
theorem composeAll_spec : ∀ (s1 s2 c : List Sel), composeAll s1 s2 = .ok c →
    selShape c = selShape s2 ∧
    ∀ js, inBounds (selShape s2) js → pickCoords c js = pickCoords s1 (pickCoords s2 js) := by
  intro s1
  induction s1 with
  | nil =>
    intro s2 c h
    cases s2 with
    | nil =>
      simp [composeAll, pure, Except.pure] at h
      subst h
      exact ⟨rfl, fun js _ => by simp [pickCoords]⟩
    | cons s t => simp [composeAll] at h
  | cons a t ih =>
    intro s2 c h
    cases a with
    | one k =>
      unfold composeAll at h
      cases hr : composeAll t s2 with
      | error e => simp [hr, bind, Except.bind] at h
      | ok r =>
        simp [hr, bind, Except.bind, pure, Except.pure] at h
        subst h
        obtain ⟨hs, hp⟩ := ih s2 r hr
        refine ⟨by simpa [selShape] using hs, ?_⟩
        intro js hjs
        simp [pickCoords, hp js hjs]
    | many ks =>
      cases s2 with
      | nil => simp [composeAll] at h
      | cons s second =>
        unfold composeAll at h
        cases hc : composeList ks s with
        | error e => simp [hc, bind, Except.bind] at h
        | ok cl =>
          cases hr : composeAll t second with
          | error e => simp [hc, hr, bind, Except.bind] at h
          | ok r =>
            simp [hc, hr, bind, Except.bind, pure, Except.pure] at h
            subst h
            obtain ⟨hs, hp⟩ := ih second r hr
            cases s with
            | one k2 =>
              have hlen := composeList_len ks (.one k2) cl hc
              cases cl with
              | many vs => simp [Sel.len] at hlen
              | one v =>
                obtain ⟨_, hv⟩ := composeList_one ks k2 v hc
                refine ⟨by simpa [selShape] using hs, ?_⟩
                intro js hjs
                simp only [selShape] at hjs
                simp only [List.getD_eq_getElem?_getD] at hv
                simp [pickCoords, hp js hjs, hv]
            | many ks2 =>
              have hlen := composeList_len ks (.many ks2) cl hc
              cases cl with
              | one v => simp [Sel.len] at hlen
              | many vs =>
                obtain ⟨hl, hv⟩ := composeList_many ks ks2 vs hc
                refine ⟨by simp [selShape, hs, hl], ?_⟩
                intro js hjs
                cases js with
                | nil => simp [selShape, inBounds] at hjs
                | cons j js' =>
                  simp only [selShape, inBounds] at hjs
                  have := hv j hjs.1
                  simp only [List.getD_eq_getElem?_getD] at this
                  simp [pickCoords, hp js' hjs.2, this]

/-- Outer indexing of an outer-indexed functional array is outer indexing by the composition. -/
theorem oindexSel_comp {α} (a : NDArr α) (s1 s2 c : List Sel) (h : composeAll s1 s2 = .ok c) :
    (oindexSel (oindexSel a s1) s2).shape = (oindexSel a c).shape ∧
    ∀ js, inBounds (oindexSel a c).shape js →
      (oindexSel (oindexSel a s1) s2).get js = (oindexSel a c).get js := by
  obtain ⟨hs, hp⟩ := composeAll_spec s1 s2 c h
  refine ⟨by simp [oindexSel, hs], ?_⟩
  intro js hjs
  simp only [oindexSel] at hjs ⊢
  rw [hs] at hjs
  rw [hp js hjs]

/-- elementwise transforms commute with outer indexing -/
def NDArr.map {α β} (f : α → β) (a : NDArr α) : NDArr β := { shape := a.shape, get := fun js => f (a.get js) }

theorem oindexSel_map {α β} (f : α → β) (a : NDArr α) (s : List Sel) :
    oindexSel (a.map f) s = (oindexSel a s).map f := rfl

end Index
