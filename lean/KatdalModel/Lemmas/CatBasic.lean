/-
  Basic facts about the `Cat` container shared by C10 and C11: `unique_in_order`, the constructor,
  `expand`.
-/
import KatdalModel.Model.Categorical
open Np

namespace Categorical

set_option linter.unusedSimpArgs false

variable {V : Type} [DecidableEq V]

theorem uniqAcc_mem (x : V) : ∀ (l acc : List V), x ∈ uniqAcc acc l ↔ x ∈ acc ∨ x ∈ l := by
  intro l
  induction l with
  | nil => intro acc; simp [uniqAcc]
  | cons a t ih =>
    intro acc
    simp only [uniqAcc]
    split
    · rename_i h
      rw [ih]
      constructor
      · rintro (h1 | h1)
        · exact Or.inl h1
        · exact Or.inr (List.mem_cons_of_mem _ h1)
      · rintro (h1 | h1)
        · exact Or.inl h1
        · simp only [List.mem_cons] at h1
          rcases h1 with rfl | h1
          · exact Or.inl h
          · exact Or.inr h1
    · rw [ih]
      simp only [List.mem_append, List.mem_singleton, List.mem_cons, List.not_mem_nil, or_false]
      constructor
      · rintro ((h1 | h1) | h1)
        · exact Or.inl h1
        · exact Or.inr (Or.inl h1)
        · exact Or.inr (Or.inr h1)
      · rintro (h1 | h1 | h1)
        · exact Or.inl (Or.inl h1)
        · exact Or.inl (Or.inr h1)
        · exact Or.inr h1

theorem uniqAcc_nodup : ∀ (l acc : List V), acc.Nodup → (uniqAcc acc l).Nodup := by
  intro l
  induction l with
  | nil => intro acc h; simpa [uniqAcc] using h
  | cons a t ih =>
    intro acc h
    simp only [uniqAcc]
    split
    · exact ih acc h
    · rename_i hna
      apply ih
      rw [List.nodup_append]
      refine ⟨h, by simp, ?_⟩
      intro x hx y hy
      simp only [List.mem_singleton] at hy
      subst hy
      intro hxy
      subst hxy
      exact hna hx

theorem uniqueList_nodup (l : List V) : (uniqueList l).Nodup := uniqAcc_nodup l [] (by simp)

theorem mem_uniqueList (x : V) (l : List V) : x ∈ uniqueList l ↔ x ∈ l := by
  simp [uniqueList, uniqAcc_mem]

theorem getElem?_idxOf_of_mem (l : List V) (x : V) (h : x ∈ l) : l[l.idxOf x]? = some x := by
  have hlt : l.idxOf x < l.length := List.idxOf_lt_length_iff.mpr h
  rw [List.getElem?_eq_getElem hlt, List.getElem_idxOf hlt]

/-- the constructor stores each event's value retrievably -/
theorem new_values (vs : List V) (es : List Nat) : (Cat.new vs es).values = vs.map some := by
  simp only [Cat.new, Cat.values, uniqueInOrder, List.map_map]
  apply List.map_congr_left
  intro v hv
  simp only [Function.comp]
  exact getElem?_idxOf_of_mem _ _ ((mem_uniqueList v vs).mpr hv)

theorem new_ev (vs : List V) (es : List Nat) : (Cat.new vs es).ev = es := rfl

theorem new_perDump (vs : List V) (es : List Nat) :
    (Cat.new vs es).perDump = List.replicate (es.headD 0) none ++ expand es (vs.map some) := by
  simp only [Cat.perDump, new_values, new_ev]

theorem new_wf_parts (vs : List V) (es : List Nat) :
    (∀ i ∈ (Cat.new vs es).idx, i < (Cat.new vs es).uniq.length) ∧ (Cat.new vs es).uniq.Nodup ∧
      (Cat.new vs es).idx.length = vs.length := by
  refine ⟨?_, uniqueList_nodup vs, by simp [Cat.new, uniqueInOrder]⟩
  intro i hi
  simp only [Cat.new, uniqueInOrder, List.mem_map] at hi
  obtain ⟨v, hv, rfl⟩ := hi
  exact List.idxOf_lt_length_iff.mpr ((mem_uniqueList v vs).mpr hv)

end Categorical
