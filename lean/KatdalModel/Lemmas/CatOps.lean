/-
  C11 lemmas, part 2: the mutating operations (remove_repeats, concatenate, partition, add, remove,
  add_unmatched, align) against the explicit per-dump list, and preservation of well-formedness.
-/
import KatdalModel.Lemmas.CatLookup
import KatdalModel.Lemmas.CatGlue
open Np

namespace Categorical

set_option linter.unusedSimpArgs false
set_option linter.unusedSectionVars false

variable {V : Type} [DecidableEq V]

theorem pairwise_lt_strictInc : ∀ (l : List Nat), l.Pairwise (· < ·) → strictIncNat l = true := by
  intro l
  induction l with
  | nil => intro _; rfl
  | cons a t ih =>
    intro h
    cases t with
    | nil => rfl
    | cons b u =>
      have h' := List.pairwise_cons.mp h
      simp only [strictIncNat, Bool.and_eq_true, decide_eq_true_eq]
      exact ⟨h'.1 b (List.mem_cons_self ..), ih h'.2⟩

theorem getLastD_cons_snoc (a n d : Nat) (l : List Nat) : (a :: (l ++ [n])).getLastD d = n := by
  have : a :: (l ++ [n]) = (a :: l) ++ [n] := rfl
  rw [this, List.getLastD_eq_getLast?, List.getLast?_append]
  simp

theorem zip_append_right_of_le {α β : Type} : ∀ (l : List α) (m x : List β), l.length ≤ m.length →
    List.zip l (m ++ x) = List.zip l m := by
  intro l
  induction l with
  | nil => intro m x _; simp
  | cons a t ih =>
    intro m x h
    cases m with
    | nil => simp at h
    | cons b u => simp only [List.cons_append, List.zip_cons_cons]; rw [ih u x (by simpa using h)]

theorem zip_map_fst_snd {α β : Type} (l : List (α × β)) : List.zip (l.map (·.1)) (l.map (·.2)) = l := by
  induction l with
  | nil => rfl
  | cons a t ih => simp [ih]

/-- a well-formed series with at least one event, seen as (index, start) pairs plus the end -/
theorem wf_view (c : Cat V) (h : c.WF) (hne : c.idx ≠ []) :
    ∃ (i0 e0 : Nat) (rest : List (Nat × Nat)),
      c.idx = i0 :: rest.map (·.1) ∧ c.ev = e0 :: (rest.map (·.2) ++ [c.numDumps]) := by
  obtain ⟨_, hlen, _, _⟩ := h
  cases hidx : c.idx with
  | nil => exact absurd hidx hne
  | cons i0 is =>
    cases hev : c.ev with
    | nil => rw [hev, hidx] at hlen; simp at hlen
    | cons e0 et =>
      have hetl : et.length = is.length + 1 := by rw [hev, hidx] at hlen; simpa using hlen
      have hetne : et ≠ [] := by intro h0; rw [h0] at hetl; simp at hetl
      refine ⟨i0, e0, List.zip is et.dropLast, ?_, ?_⟩
      · congr 1
        rw [List.map_fst_zip (by simp; omega)]
      · congr 1
        rw [List.map_snd_zip (by simp; omega)]
        have hN : c.numDumps = et.getLast hetne := by
          simp only [Cat.numDumps, hev]
          cases et with
          | nil => exact absurd rfl hetne
          | cons b u =>
            rw [getLastD_cons_cons, List.getLastD_eq_getLast?, List.getLast?_eq_getLast (l := b :: u) (by simp)]
            rfl
        rw [hN]
        exact (List.dropLast_concat_getLast hetne).symm

theorem perDump_view (c : Cat V) (i0 e0 : Nat) (rest : List (Nat × Nat)) (N : Nat)
    (hi : c.idx = i0 :: rest.map (·.1)) (he : c.ev = e0 :: (rest.map (·.2) ++ [N])) :
    c.perDump = List.replicate e0 none ++
      (expandFrom N e0 i0 rest).map (fun i => c.uniq[i]?) := by
  simp only [Cat.perDump, Cat.values, hi, he, List.headD_cons, List.map_cons]
  congr 1
  have := expand_eq_expandFrom N (rest.map (fun p => (c.uniq[p.1]?, p.2))) e0 (c.uniq[i0]?)
  simp only [List.map_map, Function.comp] at this
  rw [expandFrom_map]
  rw [← this]
  simp only [List.map_map]
  rfl

/-- **remove_repeats never changes any dump's value** (and keeps the series well-formed, with the
    same number of dumps and unique values, and without equal neighbouring indices) -/
theorem removeRepeats_spec (c : Cat V) (h : c.WF) (hne : c.idx ≠ []) :
    ∃ c', c.removeRepeats = .ok c' ∧ c'.WF ∧ c'.perDump = c.perDump ∧ c'.numDumps = c.numDumps ∧
      c'.uniq = c.uniq ∧ (∀ k x y, c'.idx[k]? = some x → c'.idx[k + 1]? = some y → x ≠ y) := by
  obtain ⟨i0, e0, rest, hi, he⟩ := wf_view c h hne
  have hsorted := strictInc_pairwise _ h.1
  rw [he] at hsorted
  have hzip : List.zip c.idx c.ev = (i0, e0) :: rest := by
    rw [hi, he, List.zip_cons_cons, zip_append_right_of_le _ _ _ (by simp), zip_map_fst_snd]
  have hkc : keepChanges none ((i0, e0) :: rest) = (i0, e0) :: keepChanges (some i0) rest := by
    simp [keepChanges]
  have hlenok : ¬ (c.idx = [] ∨ c.ev.length < c.idx.length) := by
    rw [hi, he]; simp
  have hlast : c.ev.getLastD 0 = c.numDumps := rfl
  refine ⟨{ uniq := c.uniq, idx := i0 :: (keepChanges (some i0) rest).map (·.1),
            ev := e0 :: ((keepChanges (some i0) rest).map (·.2) ++ [c.numDumps]) }, ?_, ?_, ?_, ?_, rfl, ?_⟩
  · simp only [Cat.removeRepeats, hlenok, if_false, hzip, hkc, hlast, List.map_cons, List.cons_append]
    rfl
  · -- well-formed
    have hsub : (keepChanges (some i0) rest).Sublist rest := keepChanges_sublist _ _
    refine ⟨?_, by simp, ?_, h.2.2.2⟩
    · apply pairwise_lt_strictInc
      have : (e0 :: ((keepChanges (some i0) rest).map (·.2) ++ [c.numDumps])).Sublist
          (e0 :: (rest.map (·.2) ++ [c.numDumps])) :=
        List.Sublist.cons_cons _ (List.Sublist.append (List.Sublist.map _ hsub) (List.Sublist.refl _))
      exact List.Pairwise.sublist this hsorted
    · intro i hi'
      apply h.2.2.1
      rw [hi]
      simp only [List.mem_cons, List.mem_map] at hi' ⊢
      rcases hi' with rfl | ⟨p, hp, rfl⟩
      · exact Or.inl rfl
      · exact Or.inr ⟨p, hsub.subset hp, rfl⟩
  · -- same per-dump list
    rw [perDump_view c i0 e0 rest c.numDumps hi he]
    rw [perDump_view _ i0 e0 (keepChanges (some i0) rest) c.numDumps rfl rfl]
    simp only
    congr 2
    have hle : (e0 :: rest.map (·.2)).Pairwise (· ≤ ·) := by
      have : (e0 :: rest.map (·.2)).Sublist (e0 :: (rest.map (·.2) ++ [c.numDumps])) :=
        List.Sublist.cons_cons _ (List.sublist_append_left _ _)
      exact (List.Pairwise.sublist this hsorted).imp (fun h => Nat.le_of_lt h)
    have hN : ∀ p ∈ rest, p.2 ≤ c.numDumps := by
      intro p hp
      have h1 := (List.pairwise_cons.mp hsorted).2
      have h2 := (List.pairwise_append.mp h1).2.2 p.2 (List.mem_map_of_mem hp) c.numDumps (by simp)
      omega
    have he0 : e0 ≤ c.numDumps := by
      have := (List.pairwise_cons.mp hsorted).1 c.numDumps (by simp)
      omega
    exact keepChanges_expand c.numDumps rest e0 i0 hle hN he0
  · simp only [Cat.numDumps]
    exact getLastD_cons_snoc _ _ _ _
  · obtain ⟨h1, h3⟩ := keepChanges_no_repeat rest (some i0)
    intro k x y hx hy
    cases k with
    | zero =>
      simp only [List.getElem?_cons_zero, Option.some.injEq] at hx
      simp only [Nat.zero_add, List.getElem?_cons_succ] at hy
      subst hx
      rw [List.head?_eq_getElem?] at h1
      have := h1 y hy
      simpa using this
    | succ k =>
      simp only [List.getElem?_cons_succ] at hx hy
      exact h3 k x y hx hy

/-! ### concatenation -/

theorem expand_append {α : Type} : ∀ (A : List Nat) (VA : List α) (b : Nat) (B : List Nat) (VB : List α),
    A.length = VA.length →
    expand (A ++ b :: B) (VA ++ VB) = expand (A ++ [b]) VA ++ expand (b :: B) VB := by
  intro A
  induction A with
  | nil =>
    intro VA b B VB h
    cases VA with
    | nil => simp [expand]
    | cons v t => simp at h
  | cons a A' ih =>
    intro VA b B VB h
    cases VA with
    | nil => simp at h
    | cons v VA' =>
      have h' : A'.length = VA'.length := by simpa using h
      cases A' with
      | nil =>
        cases VA' with
        | nil => simp [expand]
        | cons w t => simp at h'
      | cons a' A'' =>
        have := ih VA' b B VB h'
        simp only [List.cons_append, expand] at this ⊢
        rw [this, List.append_assoc]

theorem expand_shift {α : Type} (s : Nat) : ∀ (ev : List Nat) (vals : List α),
    expand (ev.map (· + s)) vals = expand ev vals := by
  intro ev
  induction ev with
  | nil => intro vals; rfl
  | cons a t ih =>
    intro vals
    cases t with
    | nil => simp [expand]
    | cons b u =>
      cases vals with
      | nil => simp [expand]
      | cons v vs =>
        have := ih vs
        simp only [List.map_cons, expand] at this ⊢
        rw [this]
        congr 2
        omega

/-- running sums used by `cumsum0` -/
def runSums : Nat → List Nat → List Nat
  | _, [] => []
  | tot, x :: t => (tot + x) :: runSums (tot + x) t

theorem cumsum0_eq (l : List Nat) : cumsum0 l = 0 :: runSums 0 l := by
  have h : ∀ (l : List Nat) (pre : List Nat) (tot : Nat),
      (l.foldl (fun (acc : List Nat × Nat) x => (acc.1 ++ [acc.2 + x], acc.2 + x)) (pre, tot)).1 =
        pre ++ runSums tot l := by
    intro l
    induction l with
    | nil => intro pre tot; simp [runSums]
    | cons x t ih => intro pre tot; simp only [List.foldl_cons, ih, runSums]; simp
  simp only [cumsum0, h]
  rfl

theorem idxOf_slice (u : List V) (pre mid : List V) (post : List V) :
    (((pre ++ mid ++ post).map (fun x => u.idxOf x)).drop pre.length).take mid.length =
      mid.map (fun x => u.idxOf x) := by
  simp only [List.map_append, List.append_assoc]
  rw [List.drop_left' (by simp)]
  rw [List.take_left' (by simp)]

/-- a series as produced by `partition` / `sensor_to_categorical`: well-formed, at least one
    event, first event at dump 0 -/
def Cat.Part (c : Cat V) : Prop := c.WF ∧ c.idx ≠ [] ∧ c.ev.head? = some 0

theorem runSums_getLastD (l : List Nat) : ∀ (s : Nat), (s :: runSums s l).getLastD 0 = s + l.sum := by
  induction l with
  | nil => intro s; simp [runSums, List.getLastD]
  | cons x t ih =>
    intro s
    simp only [runSums, getLastD_cons_cons, ih, List.sum_cons]
    omega

theorem part_view (c : Cat V) (h : c.Part) :
    ∃ (i0 : Nat) (rest : List (Nat × Nat)),
      c.idx = i0 :: rest.map (·.1) ∧ c.ev = 0 :: (rest.map (·.2) ++ [c.numDumps]) := by
  obtain ⟨i0, e0, rest, hi, he⟩ := wf_view c h.1 h.2.1
  have := h.2.2
  rw [he] at this
  simp only [List.head?_cons, Option.some.injEq] at this
  subst this
  exact ⟨i0, rest, hi, he⟩

theorem dropLast_cons_snoc {α : Type} (a n : α) (l : List α) : (a :: (l ++ [n])).dropLast = a :: l := by
  have : a :: (l ++ [n]) = (a :: l) ++ [n] := rfl
  rw [this, List.dropLast_concat]

theorem go_spec (u : List V) (all : List V) (hu : ∀ x ∈ all, x ∈ u) :
    ∀ (ps : List (Cat V)) (pre : List V) (s : Nat),
    all = pre ++ (ps.map (·.uniq)).flatten → (∀ p ∈ ps, p.Part) →
    ∃ I E, concatenate.go (u, all.map (fun x => u.idxOf x)) ps pre.length
        (s :: runSums s (ps.map Cat.numDumps)) = .ok (I, E) ∧
      I.length = E.length ∧ (ps ≠ [] → E.head? = some s) ∧ (ps = [] → E = []) ∧
      (∀ i ∈ I, i < u.length) ∧
      (E ++ [s + (ps.map Cat.numDumps).sum]).Pairwise (· < ·) ∧
      (∀ e ∈ E, s ≤ e) ∧
      expand (E ++ [s + (ps.map Cat.numDumps).sum]) (I.map (fun i => u[i]?)) =
        (ps.map (fun p => expand p.ev p.values)).flatten := by
  intro ps
  induction ps with
  | nil =>
    intro pre s _ _
    exact ⟨[], [], by simp [concatenate.go, pure, Except.pure], rfl, by simp, by simp, by simp, by simp, by simp,
      by simp [expand]⟩
  | cons p ps' ih =>
    intro pre s hall hparts
    have hp : p.Part := hparts p (List.mem_cons_self ..)
    obtain ⟨i0, rest, hi, he⟩ := part_view p hp
    have hall' : all = (pre ++ p.uniq) ++ (ps'.map (·.uniq)).flatten := by
      rw [hall]; simp
    obtain ⟨I', E', hgo', hlen', hhead', hnil', hI', hsorted', hge', hexp'⟩ :=
      ih (pre ++ p.uniq) (s + p.numDumps) hall' (fun q hq => hparts q (List.mem_cons_of_mem _ hq))
    -- this part
    have hlookup : ((all.map (fun x => u.idxOf x)).drop pre.length).take p.uniq.length =
        p.uniq.map (fun x => u.idxOf x) := by
      rw [hall]
      simp only [List.map_cons, List.flatten_cons, ← List.append_assoc]
      exact idxOf_slice u pre p.uniq _
    have hidxlt : ∀ i ∈ p.idx, i < (p.uniq.map (fun x => u.idxOf x)).length := by
      intro i hi'; simpa using hp.1.2.2.1 i hi'
    have htake := takeIdx_getD (p.uniq.map (fun x => u.idxOf x)) 0 p.idx hidxlt
    have hplen : (pre ++ p.uniq).length = pre.length + p.uniq.length := by simp
    have hstrict := strictInc_pairwise _ hp.1.1
    rw [he] at hstrict
    have hdl : p.ev.dropLast = 0 :: rest.map (·.2) := by rw [he]; exact dropLast_cons_snoc _ _ _
    refine ⟨p.idx.map (fun i => (p.uniq.map (fun x => u.idxOf x)).getD i 0) ++ I',
      p.ev.dropLast.map (· + s) ++ E', ?_, ?_, ?_, by simp, ?_, ?_, ?_, ?_⟩
    · simp only [concatenate.go, List.map_cons, runSums, hlookup, htake, bind, Except.bind]
      rw [hplen] at hgo'
      rw [hgo']
      rfl
    · simp only [List.length_append, List.length_map, hlen', hdl, hi, List.length_cons]
    · intro _
      simp [hdl]
    · intro i hi'
      simp only [List.mem_append, List.mem_map] at hi'
      rcases hi' with ⟨j, hj, rfl⟩ | hi'
      · have hjlt : j < p.uniq.length := hp.1.2.2.1 j hj
        simp only [List.getD, List.getElem?_map, List.getElem?_eq_getElem hjlt, Option.map_some, Option.getD_some]
        apply List.idxOf_lt_length_iff.mpr
        apply hu
        rw [hall]
        simp only [List.map_cons, List.flatten_cons, List.mem_append]
        exact Or.inr (Or.inl (List.getElem_mem hjlt))
      · exact hI' i hi'
    · -- strictly increasing boundaries
      simp only [List.map_cons, List.sum_cons, List.append_assoc]
      have hsum : s + (p.numDumps + (ps'.map Cat.numDumps).sum) = s + p.numDumps + (ps'.map Cat.numDumps).sum := by omega
      rw [hsum]
      rw [List.pairwise_append]
      refine ⟨?_, hsorted', ?_⟩
      · rw [hdl, List.pairwise_map]
        have : (0 :: rest.map (·.2)).Sublist (0 :: (rest.map (·.2) ++ [p.numDumps])) :=
          List.Sublist.cons_cons _ (List.sublist_append_left _ _)
        exact (List.Pairwise.sublist this hstrict).imp (fun h => by omega)
      · intro a ha b hb
        rw [hdl] at ha
        simp only [List.mem_map] at ha
        obtain ⟨x, hx, rfl⟩ := ha
        have hxN : x < p.numDumps := by
          have h1 : (0 :: rest.map (·.2) ++ [p.numDumps]).Pairwise (· < ·) := hstrict
          exact (List.pairwise_append.mp h1).2.2 x hx p.numDumps (by simp)
        have hb' : s + p.numDumps ≤ b := by
          simp only [List.mem_append, List.mem_singleton] at hb
          rcases hb with hb | rfl
          · exact hge' b hb
          · omega
        omega
    · intro e he'
      simp only [List.mem_append, List.mem_map] at he'
      rcases he' with ⟨x, _, rfl⟩ | he'
      · omega
      · have := hge' e he'; omega
    · -- the written-out segments
      simp only [List.map_cons, List.sum_cons, List.flatten_cons, List.map_append, List.append_assoc]
      have hsum : s + (p.numDumps + (ps'.map Cat.numDumps).sum) = s + p.numDumps + (ps'.map Cat.numDumps).sum := by omega
      rw [hsum]
      -- head of what follows this part is `s + p.numDumps`
      have hb : ∃ B, E' ++ [s + p.numDumps + (ps'.map Cat.numDumps).sum] = (s + p.numDumps) :: B := by
        cases hps : ps' with
        | nil =>
          have := hnil' hps
          subst this
          exact ⟨[], by simp [hps]⟩
        | cons q qs =>
          have := hhead' (by rw [hps]; simp)
          cases hE : E' with
          | nil => rw [hE] at this; simp at this
          | cons b B =>
            rw [hE] at this
            simp only [List.head?_cons, Option.some.injEq] at this
            subst this
            exact ⟨_, rfl⟩
      obtain ⟨B, hB⟩ := hb
      rw [hB] at hexp' ⊢
      rw [expand_append _ _ _ _ _ (by simp [hdl, hi])]
      rw [hexp']
      congr 1
      -- this part: shift invariance and values
      have hev : p.ev.dropLast.map (· + s) ++ [s + p.numDumps] = p.ev.map (· + s) := by
        rw [hdl, he]; simp [Nat.add_comm]
      rw [hev, expand_shift]
      congr 1
      simp only [Cat.values, List.map_map]
      apply List.map_congr_left
      intro j hj
      have hjlt : j < p.uniq.length := hp.1.2.2.1 j hj
      simp only [Function.comp, List.getD, List.getElem?_map, List.getElem?_eq_getElem hjlt, Option.map_some,
        Option.getD_some]
      apply getElem?_idxOf_of_mem
      apply hu
      rw [hall]
      simp only [List.map_cons, List.flatten_cons, List.mem_append]
      exact Or.inr (Or.inl (List.getElem_mem hjlt))

theorem part_perDump (c : Cat V) (h : c.Part) : c.perDump = expand c.ev c.values := by
  obtain ⟨i0, rest, _, he⟩ := part_view c h
  simp [Cat.perDump, he]

/-- **concatenate_categorical**: for series that start at dump 0 the per-dump list of the result
    is the concatenation of the per-dump lists (with or without repeat removal), the result is
    well-formed, starts at dump 0 and covers the sum of the dumps -/
theorem concat_spec (parts : List (Cat V)) (hparts : ∀ p ∈ parts, p.Part) (hne : parts ≠ []) (rep : Bool) :
    ∃ c, concatenate parts rep = .ok c ∧ c.Part ∧
      c.perDump = (parts.map Cat.perDump).flatten ∧ c.numDumps = (parts.map Cat.numDumps).sum := by
  match parts, hne, hparts with
  | [c], _, hparts =>
    exact ⟨c, rfl, hparts c (List.mem_cons_self ..), by simp, by simp⟩
  | p :: q :: ps, _, hparts =>
    let all := ((p :: q :: ps).map (·.uniq)).flatten
    let u := uniqueList all
    have hu : ∀ x ∈ all, x ∈ u := fun x hx => (mem_uniqueList x all).mpr hx
    obtain ⟨I, E, hgo, hlen, hhead, _, hI, hsorted, _, hexp⟩ :=
      go_spec u all hu (p :: q :: ps) [] 0 (by simp [all]) hparts
    have hE : E.head? = some 0 := hhead (by simp)
    have hany : (p :: q :: ps).any (fun c => decide (c.ev = [])) = false := by
      simp only [List.any_eq_false, decide_eq_true_eq]
      intro c hc hev
      have := (hparts c hc).2.2
      rw [hev] at this
      simp at this
    have hstarts : (cumsum0 ((p :: q :: ps).map Cat.numDumps)).getLastD 0 =
        0 + ((p :: q :: ps).map Cat.numDumps).sum := by
      rw [cumsum0_eq, runSums_getLastD]
    let data : Cat V := { uniq := u, idx := I, ev := E ++ [0 + ((p :: q :: ps).map Cat.numDumps).sum] }
    have hEne : E ≠ [] := by intro h0; rw [h0] at hE; simp at hE
    have hIne : I ≠ [] := by
      intro h0; rw [h0] at hlen
      exact hEne (List.length_eq_zero_iff.mp hlen.symm)
    have hdataPart : data.Part := by
      refine ⟨⟨pairwise_lt_strictInc _ hsorted, by simp [data, hlen], hI, uniqueList_nodup all⟩, hIne, ?_⟩
      simp only [data]
      cases E with
      | nil => exact absurd rfl hEne
      | cons e t => simpa using hE
    have hdataPD : data.perDump = ((p :: q :: ps).map Cat.perDump).flatten := by
      rw [part_perDump data hdataPart]
      simp only [data, Cat.values]
      rw [hexp]
      congr 1
      apply List.map_congr_left
      intro c hc
      exact (part_perDump c (hparts c hc)).symm
    have hdataN : data.numDumps = ((p :: q :: ps).map Cat.numDumps).sum := by
      simp only [data, Cat.numDumps, List.getLastD_eq_getLast?, List.getLast?_append]
      simp
    have hrun : concatenate (p :: q :: ps) rep = (if rep = true then pure data else data.removeRepeats) := by
      have hgo' : concatenate.go (uniqueInOrder ((p :: q :: ps).map (·.uniq)).flatten) (p :: q :: ps) 0
          (cumsum0 ((p :: q :: ps).map Cat.numDumps)) = .ok (I, E) := by
        rw [cumsum0_eq]
        exact hgo
      simp only [concatenate, hany, Bool.false_eq_true, if_false, bind, Except.bind, hgo', hstarts]
      rfl
    cases rep with
    | true => exact ⟨data, by rw [hrun]; rfl, hdataPart, hdataPD, hdataN⟩
    | false =>
      obtain ⟨c', hrr, hwf', hpd', hN', _, _⟩ := removeRepeats_spec data hdataPart.1 hIne
      refine ⟨c', by rw [hrun]; exact hrr, ⟨hwf', ?_, ?_⟩, by rw [hpd', hdataPD], by rw [hN', hdataN]⟩
      · -- still at least one event, still starting at 0: read off from the definition
        simp only [Cat.removeRepeats] at hrr
        split at hrr
        · simp at hrr
        · simp only [pure, Except.pure, Except.ok.injEq] at hrr
          subst hrr
          cases hI0 : data.idx with
          | nil => exact absurd hI0 hIne
          | cons i0 it =>
            cases hE0 : data.ev with
            | nil => have := hdataPart.1.2.1; rw [hE0] at this; simp at this
            | cons e0 et => simp [keepChanges]
      · simp only [Cat.removeRepeats] at hrr
        split at hrr
        · simp at hrr
        · simp only [pure, Except.pure, Except.ok.injEq] at hrr
          subst hrr
          cases hI0 : data.idx with
          | nil => exact absurd hI0 hIne
          | cons i0 it =>
            cases hE0 : data.ev with
            | nil => have := hdataPart.1.2.1; rw [hE0] at this; simp at this
            | cons e0 et =>
              have := hdataPart.2.2
              rw [hE0] at this
              simp only [List.head?_cons, Option.some.injEq] at this
              subst this
              simp [keepChanges]

end Categorical
