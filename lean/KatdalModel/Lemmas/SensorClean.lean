/-
  C12 lemmas about `remove_duplicates_and_invalid_values` (Sensor.ins / sortByTime / keepLast /
  dedup / clean): stability of the sort, "keep the last of each run", strict monotonicity.
-/
import KatdalModel.Model.Sensor
open Sensor

namespace Sensor

/-- samples with time stamp `t` -/
abbrev atTime (t : Rat) (l : List Sample) : List Sample := l.filter (fun s => decide (s.t = t))

def SortedT (l : List Sample) : Prop := l.Pairwise (fun a b => a.t ≤ b.t)
def StrictT (l : List Sample) : Prop := l.Pairwise (fun a b => a.t < b.t)

theorem mem_ins (x y : Sample) : ∀ l : List Sample, y ∈ ins x l ↔ y = x ∨ y ∈ l := by
  intro l
  induction l with
  | nil => simp [ins]
  | cons z zs ih =>
    unfold ins
    split
    · simp
    · simp [ih]; grind

/-- the sort is stable: among equal time stamps the original order survives -/
theorem ins_atTime (x : Sample) (t : Rat) : ∀ l : List Sample,
    atTime t (ins x l) = (if x.t = t then [x] else []) ++ atTime t l := by
  intro l
  induction l with
  | nil => by_cases h : x.t = t <;> simp [ins, atTime, h]
  | cons y ys ih =>
    unfold ins
    split
    · by_cases h : x.t = t <;> simp [atTime, h]
    · rename_i hle
      have hxy : ¬ (x.t = t ∧ y.t = t) := by
        intro ⟨h1, h2⟩
        apply hle
        rw [h1, h2]
        exact Rat.le_refl
      simp only [atTime, List.filter_cons] at ih ⊢
      rw [ih]
      by_cases h1 : x.t = t <;> by_cases h2 : y.t = t <;> simp [h1, h2] at hxy ⊢

theorem sortByTime_atTime (t : Rat) : ∀ l : List Sample, atTime t (sortByTime l) = atTime t l := by
  intro l
  induction l with
  | nil => rfl
  | cons a l ih =>
    simp only [sortByTime, ins_atTime, ih]
    by_cases h : a.t = t <;> simp [atTime, h]

theorem ins_sorted (x : Sample) : ∀ l : List Sample, SortedT l → SortedT (ins x l) := by
  intro l
  induction l with
  | nil => intro _; simp [ins, SortedT]
  | cons y ys ih =>
    intro h
    unfold ins
    split
    · rename_i hle
      unfold SortedT at h ⊢
      rw [List.pairwise_cons]
      refine ⟨?_, h⟩
      intro z hz
      rw [List.pairwise_cons] at h
      rcases List.mem_cons.1 hz with rfl | hz
      · exact hle
      · exact Rat.le_trans hle (h.1 z hz)
    · rename_i hle
      unfold SortedT at h ⊢
      rw [List.pairwise_cons] at h ⊢
      refine ⟨?_, ih h.2⟩
      intro z hz
      rcases (mem_ins x z ys).1 hz with rfl | hz
      · have := @Rat.le_total z.t y.t
        grind
      · exact h.1 z hz

theorem sortByTime_sorted : ∀ l : List Sample, SortedT (sortByTime l) := by
  intro l
  induction l with
  | nil => simp [sortByTime, SortedT]
  | cons a l ih => exact ins_sorted a _ ih

theorem mem_sortByTime (y : Sample) : ∀ l : List Sample, y ∈ sortByTime l ↔ y ∈ l := by
  intro l
  induction l with
  | nil => simp [sortByTime]
  | cons a l ih => simp [sortByTime, mem_ins, ih]

theorem keepLast_subset : ∀ (l : List Sample) (z : Sample), z ∈ keepLast l → z ∈ l := by
  intro l
  fun_induction keepLast l with
  | case1 => simp
  | case2 x => simp
  | case3 x y l h ih => intro z hz; exact List.mem_cons_of_mem _ (ih z hz)
  | case4 x y l h ih =>
    intro z hz
    rcases List.mem_cons.1 hz with rfl | hz
    · simp
    · exact List.mem_cons_of_mem _ (ih z hz)

/-- on sorted input, `keepLast` keeps exactly the last sample of every time stamp -/
theorem keepLast_atTime (t : Rat) : ∀ l : List Sample, SortedT l →
    atTime t (keepLast l) = (atTime t l).getLast?.toList := by
  intro l
  fun_induction keepLast l with
  | case1 => intro _; rfl
  | case2 x => intro _; by_cases h : x.t = t <;> simp [atTime, h]
  | case3 x y l h ih =>
    intro hs
    have hs' : SortedT (y :: l) := (List.pairwise_cons.1 hs).2
    rw [ih hs']
    by_cases hx : x.t = t
    · have hy : y.t = t := by rw [← h]; exact hx
      simp [atTime, hx, hy, List.getLast?_cons_cons]
    · simp [atTime, List.filter_cons, hx]
  | case4 x y l h ih =>
    intro hs
    have hs' : SortedT (y :: l) := (List.pairwise_cons.1 hs).2
    by_cases hx : x.t = t
    · -- nothing later has time t
      have hnone : atTime t (y :: l) = [] := by
        apply List.filter_eq_nil_iff.2
        intro z hz
        have h1 : x.t ≤ z.t := (List.pairwise_cons.1 hs).1 z hz
        have h2 : x.t ≤ y.t := (List.pairwise_cons.1 hs).1 y (by simp)
        have h3 : y.t ≤ z.t := by
          rcases List.mem_cons.1 hz with rfl | hz
          · exact Rat.le_refl
          · exact (List.pairwise_cons.1 hs').1 z hz
        simp only [decide_eq_true_eq]
        intro hzt
        apply h
        have : y.t ≤ x.t := by rw [hx, ← hzt]; exact h3
        exact Rat.le_antisymm h2 this
      have ih' := ih hs'
      rw [hnone] at ih'
      simp only [atTime] at ih' hnone ⊢
      simp [hx, ih', hnone]
    · have ih' := ih hs'
      simp only [atTime] at ih' ⊢
      simp [List.filter_cons, hx, ih']

theorem keepLast_strict : ∀ l : List Sample, SortedT l → StrictT (keepLast l) := by
  intro l
  fun_induction keepLast l with
  | case1 => intro _; simp [StrictT]
  | case2 x => intro _; simp [StrictT]
  | case3 x y l h ih => intro hs; exact ih (List.pairwise_cons.1 hs).2
  | case4 x y l h ih =>
    intro hs
    have hs' : SortedT (y :: l) := (List.pairwise_cons.1 hs).2
    unfold StrictT
    rw [List.pairwise_cons]
    refine ⟨?_, ih hs'⟩
    intro z hz
    have hz' := keepLast_subset _ z hz
    have h2 : x.t ≤ y.t := (List.pairwise_cons.1 hs).1 y (by simp)
    have h3 : y.t ≤ z.t := by
      rcases List.mem_cons.1 hz' with rfl | hz'
      · exact Rat.le_refl
      · exact (List.pairwise_cons.1 hs').1 z hz'
    have hne : x.t ≠ y.t := h
    grind

/-- two strictly increasing lists with the same members are the same list -/
theorem strict_ext : ∀ (l1 l2 : List Sample), StrictT l1 → StrictT l2 →
    (∀ z, z ∈ l1 ↔ z ∈ l2) → l1 = l2 := by
  intro l1
  induction l1 with
  | nil =>
    intro l2 _ _ h
    cases l2 with
    | nil => rfl
    | cons b t => exact absurd ((h b).2 (by simp)) (by simp)
  | cons a t1 ih =>
    intro l2 h1 h2 h
    cases l2 with
    | nil => exact absurd ((h a).1 (by simp)) (by simp)
    | cons b t2 =>
      have h1' := List.pairwise_cons.1 h1
      have h2' := List.pairwise_cons.1 h2
      have hab : a = b := by
        have ha : a ∈ b :: t2 := (h a).1 (by simp)
        have hb : b ∈ a :: t1 := (h b).2 (by simp)
        rcases List.mem_cons.1 ha with rfl | ha
        · rfl
        · rcases List.mem_cons.1 hb with rfl | hb
          · rfl
          · have := h2'.1 a ha
            have := h1'.1 b hb
            grind
      subst hab
      congr 1
      apply ih t2 h1'.2 h2'.2
      intro z
      constructor
      · intro hz
        have : z ∈ a :: t2 := (h z).1 (List.mem_cons_of_mem _ hz)
        rcases List.mem_cons.1 this with rfl | h'
        · have := h1'.1 z hz
          exact absurd this Rat.lt_irrefl
        · exact h'
      · intro hz
        have : z ∈ a :: t1 := (h z).2 (List.mem_cons_of_mem _ hz)
        rcases List.mem_cons.1 this with rfl | h'
        · have := h2'.1 z hz
          exact absurd this Rat.lt_irrefl
        · exact h'

end Sensor
