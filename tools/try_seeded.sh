#!/bin/bash
# tools/try_seeded.sh <dir with patch.diff + demo.py> <property id> [other property ids to also run]
# 1. confirms in a scratch worktree that the demo passes on the clean tree and fails with the patch,
#    and (optionally, FULLSUITE=1) that the repo's test-suite still passes;
# 2. applies the patch to /repo, runs ./check <id> quick (and any extra ids), reverts /repo.
# Prints a summary; never leaves /repo modified.
set -u
src=$1; shift
pid=$1; shift
extra="$*"
wt=/tmp/scratch_seed_$$
cd /verif || exit 2
git -C /repo diff --quiet || { echo "refusing: /repo has uncommitted changes"; exit 2; }
git -C /repo worktree add --detach "$wt" HEAD >/dev/null 2>&1 || exit 2
cleanup() { git -C /repo worktree remove --force "$wt" >/dev/null 2>&1; git -C /repo checkout -- . ; }
trap cleanup EXIT
echo "== demo on clean tree"
( cd "$src" && PYTHONPATH=/repo timeout 600 /venv/bin/python demo.py >/tmp/seed_clean_$$.log 2>&1 ); clean=$?
echo "   exit $clean"
git -C "$wt" apply "$src/patch.diff" || { echo "patch does not apply"; exit 2; }
echo "== demo on patched tree"
( cd "$src" && PYTHONPATH="$wt" timeout 600 /venv/bin/python demo.py >/tmp/seed_patched_$$.log 2>&1 ); patched=$?
echo "   exit $patched"
tail -3 /tmp/seed_patched_$$.log | cut -c1-300
suite="not-run"
if [ "${FULLSUITE:-0}" = 1 ]; then
  echo "== test-suite on patched tree"
  ( cd "$wt" && timeout 1800 /venv/bin/python -m pytest -q -p no:cacheprovider --timeout=900 --continue-on-collection-errors 2>&1 | tail -1 ) > /tmp/seed_suite_$$.log
  suite=$(cat /tmp/seed_suite_$$.log)
  echo "   $suite"
fi
if [ "${MODE:-path}" = repo ]; then
  echo "== checks against the patched /repo"
  git -C /repo apply "$src/patch.diff" || exit 2
  pp=""
else
  echo "== checks against the patched scratch worktree (PYTHONPATH)"
  pp="$wt"
fi
results=""
for id in $pid $extra; do
  out=$(PYTHONPATH="$pp" timeout 1500 ./check "$id" quick 2>&1 | grep -v condarc); rc=$?
  rc=$(echo "$out" | grep -q "^VIOLATION" && echo 1 || (echo "$out" | grep -q "CHECK-BROKEN" && echo 2 || echo 0))
  line=$(echo "$out" | grep -E "^VIOLATION|CHECK-BROKEN" | head -1)
  what=$(echo "$out" | grep "^  what:" | head -1 | cut -c1-260)
  echo "   $id: exit=$rc $line"
  [ -n "$what" ] && echo "      $what"
  results="$results $id:$rc"
done
[ "${MODE:-path}" = repo ] && git -C /repo checkout -- .
echo "SUMMARY src=$src clean=$clean patched=$patched suite='$suite' checks=$results"
rm -f /tmp/seed_*_$$.log
