"""C10 - categorical sensors are mapped onto dumps by the documented rule.

Three streams, all compared with the Lean spec `Categorical.rule` (S) and the Lean mirror
`Categorical.sensorToCategorical` (M) evaluated by the compiled driver kd_c10:
  * s2c    direct calls of katdal.categorical.sensor_to_categorical
  * cache  the same conversion reached through katdal.sensordata.SensorCache.get (props / kwargs)
  * small  exhaustive small scope (every placement of <= 3 events on the tick grid of <= 2 dumps)
plus an advisory tap on the private generator `_single_event_per_dump`.
Times are integer ticks on the Lean side and exactly representable floats `t0 + tick * unit`
(unit a power of two) on the Python side, so every comparison of a time with a dump edge is exact.
"""
import itertools
import json
import os

import numpy as np

from harness import common

PROP = 'C10'
RULE = ('cases = (1-8 dumps, uniform or gapped dump spacing, 0-10 sensor events placed before / on the opening '
        'edge of / inside / exactly on the closing edge of / just after / far after the dumps, several per dump, '
        'ties allowed; value alphabets of 2-4 codes realised as plain str / int / bool or ComparableArrayWrapper-ed '
        'tuple / ndarray / unhashable list / str objects; transform = none or a value-collapsing / permuting table; '
        'initial value none / old / new / greedy; greedy set = any subset; allow_repeats on/off; lists, arrays or '
        'scalars as arguments; float times t0 + tick*2^k). streams: direct sensor_to_categorical, '
        'SensorCache.get with props/kwargs, exhaustive small scope. non-trivial = the spec defines a value for '
        'every dump, at least one event lies inside the dumps and the implementation returned a result; '
        'distinct = hash of the encoded request line plus alphabet and stream.')
TRUSTED = ['Lean 4.33 kernel', 'axioms: propext, Classical.choice, Quot.sound only',
           'hand-written mirror KatdalModel/Model/Categorical.lean tied to /repo by this differential run',
           'value equality: Python == (ComparableArrayWrapper.__eq__) and the hash/tokenize lookup of '
           'unique_in_order are modelled as one decidable equality on value codes',
           'float times are exact dyadic numbers, so numpy searchsorted compares like the integer model']
CHECKER = 'lake build KatdalModel.Props.C10 kd_c10 && lake env lean <#print axioms audit>'

# ------------------------------------------------------------------ value alphabets (8 codes each)

WRAPPED = ('tuple', 'arr', 'arrs', 'arrd', 'list', 'wstr', 'wmix')
_STR = ['slew', 'track', 'stop', 'scan', 'A', 'B', 'nd_on', '']
ALPHA = {
    'str': list(_STR),
    'int': [10, 20, -3, 0, 7, 1, 99, 5],
    'bool': [False, True],
    'tuple': [(i, i + 1) for i in range(8)],
    'arr': [np.array([i, 2 * i + 1]) for i in range(8)],
    # arrays of DIFFERENT shapes, several of which are equal after broadcasting (but are different values)
    'arrs': [np.ones(1), np.ones(4), np.ones((2, 2)), np.ones(2), np.zeros(1), np.zeros(3), np.array([1, 2]),
             np.array([[1, 2], [1, 2]])],
    # the 'arr' values again, but successive samples alternate between an integer and a float array holding the
    # same numbers (equal values that are not bit-identical, see py_inputs)
    'arrd': [np.array([i, 2 * i + 1]) for i in range(8)],
    'list': [[i, 'x%d' % i] for i in range(8)],
    'wstr': ['w' + s for s in _STR],
    # wrapped Python sequences that numpy cannot turn into a regular array, or turns into equal arrays although they
    # are different values: ragged nestings, mixed element types
    'wmix': [(('m000', 'm001'), ('m002',)), (('m000',), ('m001', 'm002')), (1, 'x'), ('1', 'x'), (1, 'y'),
             ((1, 2), (3,)), ((1,), (2, 3)), (1.0, 'x', None)],
}


def values_equal(a, b):
    if isinstance(a, np.ndarray) or isinstance(b, np.ndarray):
        return isinstance(a, np.ndarray) and isinstance(b, np.ndarray) and np.array_equal(a, b)
    if type(a) in (tuple, list) or type(b) in (tuple, list):
        return type(a) is type(b) and a == b
    try:
        return bool(a == b)
    except Exception:   # noqa: BLE001
        return False


def code_of(alpha, obj):
    from katdal.categorical import ComparableArrayWrapper
    obj = ComparableArrayWrapper.unwrap(obj)
    for c, o in enumerate(ALPHA[alpha]):
        if values_equal(o, obj):
            return c
    return None


# ------------------------------------------------------------------ generator

def gen_times(rng, N, h, style):
    """dump end ticks (strictly increasing)"""
    period = 2 * h
    ends = [rng.randint(-6, 12)]
    for _ in range(1, N):
        r = rng.random()
        if style == 'uniform' or r < 0.8:
            step = period
        elif r < 0.93:
            step = period + rng.randint(1, 5)      # gap between dumps
        else:
            step = rng.randint(1, period)           # overlapping dumps (mid-times closer than the period)
        ends.append(ends[-1] + step)
    return ends


def gen_event_time(rng, ends, lo):
    N = len(ends)
    r = rng.random()
    if r < 0.10:
        return lo - rng.randint(1, 6)
    if r < 0.17:
        return lo                                   # on the opening edge: still "before the first dump"
    if r < 0.24:
        return lo + 1
    if r < 0.38:
        return ends[rng.randrange(N)]               # exactly on a closing edge: inside that dump
    if r < 0.48:
        return ends[rng.randrange(N)] + 1           # just after a closing edge
    if r < 0.86:
        d = rng.randrange(N)
        a = ends[d - 1] if d else lo
        return rng.randint(min(a + 1, ends[d]), ends[d])
    if r < 0.93:
        return ends[-1] + rng.randint(1, 6)
    return rng.randint(lo - 3, ends[-1] + 3)


def gen_case(rng, stream='s2c'):
    N = rng.choice([1, 1, 2, 2, 3, 3, 4, 5, 6, 8])
    h = rng.choice([1, 2, 2, 3, 4])
    ends = gen_times(rng, N, h, rng.choice(['uniform', 'uniform', 'mixed']))
    period = 2 * h
    lo = ends[0] - period
    n = rng.choice([0, 1, 1, 2, 2, 3, 3, 4, 4, 5, 6, 8, 10])
    ts = [gen_event_time(rng, ends, lo) for _ in range(n)]
    mode = rng.random()
    if mode < 0.08:                                  # a burst inside one dump
        d = rng.randrange(N)
        a = ends[d - 1] if d else lo
        ts += [rng.randint(min(a + 1, ends[d]), ends[d]) for _ in range(rng.randint(2, 4))]
    elif mode < 0.20:                                # nothing before the first dump
        ts = [t for t in ts if t > lo]
    elif mode < 0.24:                                # nothing before the end of the last dump
        ts = [t for t in ts if t > ends[-1]]
    elif mode < 0.28:                                # nothing inside
        ts = [t for t in ts if t <= lo or t > ends[-1]]
    ts.sort()
    alpha = rng.choice(['str', 'str', 'str', 'int', 'bool', 'tuple', 'arr', 'arrs', 'arrd', 'list', 'wstr', 'wmix'])
    ncodes = len(ALPHA[alpha])
    k = min(ncodes, rng.randint(2, 4))
    codes = rng.sample(range(ncodes), k)
    vals = [rng.choice(codes) for _ in ts]
    tr = None
    if rng.random() < 0.4:
        kind = rng.random()
        if kind < 0.5:                               # collapse pairs of codes
            tr = [(c // 2) * 2 % ncodes for c in range(ncodes)]
        elif kind < 0.8:                             # permutation
            p = list(range(ncodes))
            rng.shuffle(p)
            tr = p
        else:                                        # constant
            tr = [rng.randrange(ncodes)] * ncodes
    tcodes = sorted({(tr[c] if tr else c) for c in codes}) or [0]
    init = None
    if rng.random() < 0.55:
        init = rng.choice(tcodes) if rng.random() < 0.6 else rng.randrange(ncodes)
    greedy = []
    if rng.random() < 0.75:
        pool = sorted(set(tcodes) | ({init} if init is not None else set()) | {rng.randrange(ncodes)})
        greedy = rng.sample(pool, rng.randint(1, min(3, len(pool))))
    case = dict(kind=stream, ends=ends, h=h, ts=ts, vals=vals, alpha=alpha, tr=tr, init=init, greedy=greedy,
                rep=rng.random() < 0.3, t0=rng.choice([0.0, 0.0, 1.5e9, -1000.0, 123456.75]),
                unit=rng.choice([1.0, 0.5, 0.25, 2.0, 8.0]),
                pyargs=rng.choice(['array', 'array', 'list', 'scalar']),
                gcont=rng.choice(['tuple', 'list', 'set']), gform=rng.choice(['same', 'same', 'tuple', 'list']))
    if stream == 'cache':
        # SensorCache sorts and de-duplicates timestamps itself: stay strictly increasing and non-empty
        seen, ts2, v2 = set(), [], []
        for t, v in zip(case['ts'], case['vals']):
            if t not in seen:
                seen.add(t)
                ts2.append(t)
                v2.append(v)
        if not ts2:
            ts2, v2 = [lo + 1], [codes[0]]
        case['ts'], case['vals'] = ts2, v2
        case['via'] = rng.choice(['props', 'kwargs', 'wildcard'])
        if alpha in ('bool',):
            case['alpha'] = 'str'
            case['vals'] = [v % 8 for v in v2]
    if case['tr'] is not None and rng.random() < 0.5:
        # a strict transform: it raises on a value that only occurs at events the rule ignores (before the last event
        # preceding the first dump, after the end of the last dump)
        di = dump_indices(case)
        prior = [i for i, d in enumerate(di) if d == -1]
        out = [i for i, d in enumerate(di) if d >= N] + prior[:-1]
        if prior and any(case['ts'][i] == case['ts'][prior[-1]] for i in prior[:-1]):
            out = [i for i in out if case['ts'][i] != case['ts'][prior[-1]]]
        unused = [c for c in range(min(len(case['tr']), len(ALPHA[case['alpha']]))) if c not in case['vals'] and c not in case['greedy']
                  and c != case['init']]
        if out and unused:
            case['poison'] = unused[0]
            for i in out:
                case['vals'][i] = unused[0]
    return case


def enc_list(l):
    return ','.join(str(int(v)) for v in l) if len(l) else '-'


def request_lines(case):
    tr = '_' if case['tr'] is None else enc_list(case['tr'])
    init = '_' if case['init'] is None else str(case['init'])
    args = [enc_list(case['ends']), str(2 * case['h']), enc_list(case['ts']), enc_list(case['vals']), tr, init,
            enc_list(case['greedy'])]
    return (' '.join(['s2c'] + args + ['1' if case['rep'] else '0']), ' '.join(['rule'] + args))


# ------------------------------------------------------------------ implementation side

def dump_indices(case):
    """dump index of every event from the integer ticks: -1 before, N after (independent of numpy)"""
    lo = case['ends'][0] - 2 * case['h']
    edges = [lo] + list(case['ends'])
    return [sum(1 for e in edges if e < t) - 1 for t in case['ts']]


def py_inputs(case):
    from katdal.categorical import ComparableArrayWrapper
    alpha = case['alpha']
    objs = ALPHA[alpha]
    wrapped = alpha in WRAPPED
    t0, u, h = case['t0'], case['unit'], case['h']
    ts = [t0 + t * u for t in case['ts']]
    mids = np.array([t0 + (e - h) * u for e in case['ends']])
    period = 2 * h * u
    vals = [objs[c] for c in case['vals']]
    if alpha == 'arrd':
        vals = [v.astype(float) if i % 2 else v for i, v in enumerate(vals)]
    if wrapped:
        vals = [ComparableArrayWrapper(v) for v in vals]
    tr = None
    if case['tr'] is not None:
        table = case['tr']

        def tr(x, table=table, alpha=alpha, objs=objs, poison=case.get('poison')):
            if poison is not None and code_of(alpha, x.unwrapped if hasattr(x, 'unwrapped') else x) == poison:
                raise KeyError('strict transform called on a value that only occurs outside the dumps')
            c = code_of(alpha, x)
            return objs[table[c]]
    init = None if case['init'] is None else objs[case['init']]
    greedy = None
    if case['greedy'] or case['gcont'] != 'tuple':
        g = [objs[c] for c in case['greedy']]
        if alpha in ('arr', 'arrd') and case.get('gform') in ('tuple', 'list'):
            # greedy values of an array-valued sensor written as plain sequences (the same values)
            g = [(tuple(o.tolist()) if case['gform'] == 'tuple' else o.tolist()) for o in g]
        if case['gcont'] == 'set' and alpha in ('str', 'int', 'bool', 'tuple', 'wstr'):
            greedy = set(g)
        elif case['gcont'] == 'list':
            greedy = g
        else:
            greedy = tuple(g)
    return ts, vals, mids, period, tr, init, greedy, wrapped


def run_impl(case):
    """-> dict(err=name|None, uniq=[codes], idx=[...], ev=[...])"""
    from katdal.categorical import sensor_to_categorical
    ts, vals, mids, period, tr, init, greedy, wrapped = py_inputs(case)
    res = dict(err=None)
    try:
        if case['kind'] == 'cache':
            from katdal.sensordata import SensorCache, SimpleSensorGetter
            if wrapped:
                varr = np.empty(len(vals), dtype=object)
                varr[:] = vals
            else:
                varr = np.array(vals)
            name = 'Antennas/m000/activity'
            getter = SimpleSensorGetter(name, np.array(ts, dtype=float), varr)
            props = dict(greedy_values=greedy, initial_value=init, transform=tr, allow_repeats=case['rep'])
            if init is None:
                props.pop('initial_value')
            if case['via'] == 'props':
                cache = SensorCache({name: getter}, mids, period, props={name: props})
                c = cache.get(name)
            elif case['via'] == 'wildcard':
                cache = SensorCache({name: getter}, mids, period, props={'*activity': props, 'Other/*': {'transform': 1}})
                c = cache.get(name)
            else:
                cache = SensorCache({name: getter}, mids, period)
                c = cache.get(name, **props)
            again = cache.get(name)
            if again is not c:
                res['cache_not_reused'] = True
        else:
            if case['pyargs'] == 'scalar' and len(ts) == 1:
                a_ts, a_vals = ts[0], vals[0]
            elif case['pyargs'] == 'list':
                a_ts, a_vals = ts, vals
            else:
                a_ts = np.array(ts, dtype=float)
                if wrapped:
                    a_vals = np.empty(len(vals), dtype=object)
                    a_vals[:] = vals
                else:
                    a_vals = np.array(vals)
            kw = dict(transform=tr, initial_value=init, greedy_values=greedy, allow_repeats=case['rep'])
            c = sensor_to_categorical(a_ts, a_vals, mids, period, **kw)
            # the same raw events converted once more (a getter shared by a name and its alias, a second direct call):
            # the conversion leaves the caller's values alone, so it answers the same again
            try:
                c2 = sensor_to_categorical(a_ts, a_vals, mids, period, **kw)
                first = ([code_of(case['alpha'], v) for v in c.unique_values], np.asarray(c.indices).tolist(),
                         np.asarray(c.events).tolist())
                second = ([code_of(case['alpha'], v) for v in c2.unique_values], np.asarray(c2.indices).tolist(),
                          np.asarray(c2.events).tolist())
                if first != second:
                    res['second'] = f'values {second[0]} at boundaries {second[2]}'
            except Exception as e2:   # noqa: BLE001
                res['second'] = f'{type(e2).__name__}'
        res['uniq'] = [code_of(case['alpha'], v) for v in c.unique_values]
        res['idx'] = [int(i) for i in np.asarray(c.indices).tolist()]
        res['ev'] = [int(e) for e in np.asarray(c.events).tolist()]
    except Exception as e:   # noqa: BLE001 - classification is the point
        res['err'] = type(e).__name__
    return res


def per_dump(uniq, idx, ev):
    out = []
    for a, b, i in zip(ev[:-1], ev[1:], idx):
        out += [uniq[i] if 0 <= i < len(uniq) else None] * max(0, b - a)
    return out


def parse_cat(reply):
    if reply.startswith('E:'):
        return ('E', reply[2:])
    u, i, e = reply.split('|')

    def f(s):
        return [] if s == '-' else [int(x) for x in s.split(',')]
    return ('ok', f(u), f(i), f(e))


def judge(ctx, case, mreply, sreply, impl):
    """violation text or None"""
    N = len(case['ends'])
    dumps = dump_indices(case)
    if sreply == 'U':
        ctx.tag('spec-undefined(no event, no initial value)')
        return None
    if sreply == 'bad-op' or mreply == 'bad-op':
        raise common.Broken(f'driver rejected request {request_lines(case)}')
    want = [] if sreply == '-' else [int(x) for x in sreply.split(',')]
    if case['init'] is None and not any(d < N for d in dumps):
        # every event lies after the last dump and no initial value: "events after the last dump are
        # ignored" vs "or else the first event" - the text does not settle this input
        ctx.tag('text-silent(only events after last dump, no initial value)')
        return None
    if impl['err'] is not None:
        return f"implementation raised {impl['err']} where the rule gives per-dump values {want}"
    uniq, idx, ev = impl['uniq'], impl['idx'], impl['ev']
    if impl.get('second') is not None:
        return (f"the same raw events converted a second time give {impl['second']} instead of values {uniq} at "
                f"boundaries {ev}: the first conversion modified the caller's values")
    if any(u is None for u in uniq):
        return f'result contains a value that is neither a transformed sensor value nor the initial value: {uniq}'
    if not ev or ev[0] != 0 or ev[-1] != N:
        return f'event boundaries {ev} do not cover dumps 0..{N - 1}'
    if any(b <= a for a, b in zip(ev[:-1], ev[1:])):
        return f'event boundaries {ev} are not strictly increasing'
    if len(idx) != len(ev) - 1 or any(not (0 <= i < len(uniq)) for i in idx):
        return f'indices {idx} do not match events {ev} / unique values {uniq}'
    if len(set(uniq)) != len(uniq) and case['alpha'] != 'arrd':
        # (not a clause of C10: for equal-but-not-bit-identical arrays katdal keeps both objects as unique values;
        # what C10 states - one value per dump, no repeated consecutive values - is checked below for them too)
        return f'unique values are not distinct: {uniq}'
    got = per_dump(uniq, idx, ev)
    if got != want:
        return f'per-dump values differ from the documented rule: got {got} expected {want}'
    if not case['rep'] and any(uniq[a] == uniq[b] for a, b in zip(idx[:-1], idx[1:])):
        return f'repeated consecutive values although allow_repeats=False: {[uniq[i] for i in idx]}'
    m = parse_cat(mreply)
    if m[0] != 'ok' or (m[1], m[2], m[3]) != (uniq, idx, ev):
        ctx.tag('mirror-differs(advisory)')
        ctx.advise(f'mirror model {mreply} differs from implementation {uniq}|{idx}|{ev} on {request_lines(case)[0]} '
                   '(implementation agrees with the spec)')
    return None


def tags_for(case, impl):
    N = len(case['ends'])
    dumps = dump_indices(case)
    t = [f"alpha-{case['alpha']}", 'stream-' + case['kind']]
    t.append('prior-event' if any(d < 0 for d in dumps) else 'no-prior-event')
    if any(d >= N for d in dumps):
        t.append('event-after-last-dump')
    if any(d == 0 for d in dumps):
        t.append('event-in-dump0')
    inside = [d for d in dumps if 0 <= d < N]
    if len(inside) != len(set(inside)):
        t.append('several-events-per-dump')
    lo = case['ends'][0] - 2 * case['h']
    if any(x in case['ends'] for x in case['ts']):
        t.append('event-on-closing-edge')
    if lo in case['ts']:
        t.append('event-on-opening-edge')
    if len(set(case['ts'])) != len(case['ts']):
        t.append('tied-timestamps')
    if case['tr'] is not None:
        t.append('transform')
    if case['init'] is not None:
        t.append('initial-greedy' if case['init'] in case['greedy'] else 'initial-plain')
    if case['greedy']:
        t.append('greedy-set')
    tvals = [(case['tr'][v] if case['tr'] else v) for v in case['vals']]
    # a greedy event followed by a non-greedy one inside the same dump: the "push to next dump" branch
    for a in range(len(tvals) - 1):
        if dumps[a] == dumps[a + 1] and 0 <= dumps[a] < N and tvals[a] in case['greedy'] \
                and tvals[a + 1] not in case['greedy']:
            t.append('greedy-then-plain-in-dump(push)')
            break
    if case['rep']:
        t.append('allow-repeats')
    t.append('err' if impl['err'] else 'ok')
    return t


def evaluate(ctx, cases, count=True):
    lines = []
    for c in cases:
        lines.extend(request_lines(c))
    replies = common.run_model(PROP, lines)
    bad = []
    for i, c in enumerate(cases):
        mrep, srep = replies[2 * i], replies[2 * i + 1]
        impl = run_impl(c)
        v = judge(ctx, c, mrep, srep, impl)
        if count:
            dumps = dump_indices(c)
            nontriv = (srep not in ('U',) and impl['err'] is None and any(0 <= d < len(c['ends']) for d in dumps))
            ctx.tag(*tags_for(c, impl))
            ctx.count((lines[2 * i], c['alpha'], c['kind']), nontriv,
                      sample={'request': lines[2 * i], 'alphabet': c['alpha'], 'spec': srep[:80], 'model': mrep[:80]})
        if v:
            bad.append((c, v))
    return bad


# ------------------------------------------------------------------ exhaustive small scope

def small_scope_cases(max_dumps, max_events):
    for N in range(1, max_dumps + 1):
        ends = [2 * (d + 1) for d in range(N)]          # h = 1: dump d = ticks {2d+1, 2d+2}, lo = 0
        ticks = list(range(-1, ends[-1] + 2))
        for n in range(0, max_events + 1):
            for ts in itertools.combinations_with_replacement(ticks, n):
                for vals in itertools.product([0, 1], repeat=n):
                    for greedy in ([], [0], [1], [2], [0, 2]):
                        for init in (None, 0, 2):
                            yield dict(kind='s2c', ends=ends, h=1, ts=list(ts), vals=list(vals), alpha='str', tr=None,
                                       init=init, greedy=greedy, rep=False, t0=0.0, unit=1.0, pyargs='array',
                                       gcont='tuple')


# ------------------------------------------------------------------ tap on the private generator

def tap_sepd(ctx, n_cases):
    from katdal.categorical import _single_event_per_dump
    reqs, keep = [], []
    for _ in range(n_cases):
        N = ctx.rng.randint(1, 7)
        n = ctx.rng.randint(1, 9)
        ev = sorted([0] + [ctx.rng.randrange(N) for _ in range(n - 1)]) + [N]
        g = [ctx.rng.random() < 0.4 for _ in range(n)]
        reqs.append(f"sepd {enc_list(ev)} {''.join('1' if b else '0' for b in g)}")
        keep.append((ev, g))
    replies = common.run_model(PROP, reqs)
    for (ev, g), req, rep in zip(keep, reqs, replies):
        arr = np.array(ev)
        try:
            got = [int(i) for i in _single_event_per_dump(arr, g)]
            impl = f'{enc_list(got)}|{enc_list(arr.tolist())}'
        except Exception as e:   # noqa: BLE001
            impl = 'E:' + type(e).__name__
        ctx.traces_validated += 1
        if impl != rep:
            ctx.tag('tap-sepd-differs(advisory)')
            ctx.advise(f'tap: _single_event_per_dump gives {impl}, mirror gives {rep} on {req}')
            return False
    return True


# ------------------------------------------------------------------ shrinking, findings, entry points

def what_kind(what):
    """coarse class of a violation text (shrinking must stay inside it)"""
    return what.split(':')[0].split(' where ')[0][:60]


def still_fails(ctx_proto, case, kind=None):
    """the candidate still violates the property, in the same way, outside every known-finding family"""
    ctx = common.Ctx(ctx_proto.prop, ctx_proto.tier, ctx_proto.seed)
    try:
        bad = evaluate(ctx, [case], count=False)
    except Exception:   # noqa: BLE001
        return False
    for c, v in bad:
        if any(m(c, v) for m in MATCHERS.values()):
            continue
        if kind is None or what_kind(v) == kind:
            return True
    return False


def shrink(ctx, case, what):
    cur = json.loads(json.dumps(case))
    kind = what_kind(what)
    changed = True
    while changed:
        changed = False
        cands = []
        for i in range(len(cur['ts'])):
            cands.append(dict(cur, ts=cur['ts'][:i] + cur['ts'][i + 1:], vals=cur['vals'][:i] + cur['vals'][i + 1:]))
        if len(cur['ends']) > 1:
            cands.append(dict(cur, ends=cur['ends'][:-1]))
        if cur['tr'] is not None:
            cands.append(dict(cur, tr=None))
        if cur['rep']:
            cands.append(dict(cur, rep=False))
        for i in range(len(cur['greedy'])):
            cands.append(dict(cur, greedy=cur['greedy'][:i] + cur['greedy'][i + 1:]))
        if cur['init'] is not None:
            cands.append(dict(cur, init=None))
        if cur['kind'] == 'cache':
            cands.append(dict(cur, kind='s2c'))
        if cur['alpha'] != 'str' and max(cur['vals'] + cur['greedy'] + [cur['init'] or 0] + (cur['tr'] or [0])) < 8:
            cands.append(dict(cur, alpha='str'))
        if cur['t0'] != 0.0 or cur['unit'] != 1.0 or cur['pyargs'] != 'array':
            cands.append(dict(cur, t0=0.0, unit=1.0, pyargs='array', gcont='tuple'))
        for cand in cands:
            if cand.get('kind') == 'cache' and not cand['ts']:
                continue
            if still_fails(ctx, cand, kind):
                cur, changed = cand, True
                break
    c2 = common.Ctx(ctx.prop, ctx.tier, ctx.seed)
    bad = evaluate(c2, [cur], count=False)
    return cur, (bad[0][1] if bad else what)


def m_greedy_initial(case, what):
    """known finding (a): greedy initial value ignored: no event before the first dump, an event in dump 0,
    none of the events in dump 0 greedy, initial value given and greedy"""
    if case.get('init') is None or case['init'] not in case['greedy'] or 'differ from the documented rule' not in what:
        return False
    dumps = dump_indices(case)
    if any(d < 0 for d in dumps) or not any(d == 0 for d in dumps):
        return False
    tvals = [(case['tr'][v] if case['tr'] else v) for v in case['vals']]
    return not any(d == 0 and v in case['greedy'] for d, v in zip(dumps, tvals))


def m_empty_sensor_arraylike_initial(case, what):
    """known finding (b'): a sensor with NO samples at all, array-like values (tuples / lists / arrays, i.e. the
    alphabets katdal wraps in ComparableArrayWrapper) and an initial value: sensor_to_categorical cannot tell from
    the empty value array that values are wrapped, hands the bare initial value to np.r_ and raises ValueError"""
    return (case.get('init') is not None and not case.get('ts') and case.get('alpha') in WRAPPED
            and 'raised ValueError' in what)


def m_ndarray_greedy(case, what):
    """known finding (c): greedy_values holding ndarrays -> ValueError (ambiguous truth value) as soon as one
    sensor value is tested for membership"""
    return case.get('alpha') in ('arr', 'arrs', 'arrd') and bool(case['greedy']) and 'raised ValueError' in what


MATCHERS = {'c10_empty_sensor_arraylike_initial_value': m_empty_sensor_arraylike_initial,
            'c10_ndarray_greedy_values': m_ndarray_greedy}


def corpus_cases():
    d = os.path.join(common.VERIF, 'corpus', PROP)
    out = []
    if os.path.isdir(d):
        for nm in sorted(os.listdir(d)):
            out.append(json.load(open(os.path.join(d, nm)))['case'])
    return out


def run(ctx):
    ctx.matchers.update(MATCHERS)
    build = common.build_and_audit(PROP, ctx.tier)
    n_direct = ctx.q(2600, 200000)
    n_cache = ctx.q(400, 20000)
    cases = corpus_cases()
    cases += [gen_case(ctx.rng, 's2c') for _ in range(n_direct)]
    cases += [gen_case(ctx.rng, 'cache') for _ in range(n_cache)]
    bad = evaluate(ctx, cases)
    small = list(small_scope_cases(*ctx.q((2, 3), (3, 4))))
    ctx.extra['small_scope_cases'] = len(small)
    for k in range(0, len(small), 20000):
        bad += evaluate(ctx, small[k:k + 20000])
    tap_ok = tap_sepd(ctx, ctx.q(400, 20000))
    if (not bad) and (not build['build_ok'] or not tap_ok):
        # a proof obligation or the tap broke: extended search before reporting
        bad += evaluate(ctx, [gen_case(ctx.rng, 's2c') for _ in range(10 * n_direct)])
    for c, v in bad:
        ctx.violation(c, v)
    ctx.assumptions = ['sensor timestamps are non-decreasing (SensorCache sorts and de-duplicates them first)',
                       'at least one dump; dump mid-times increasing',
                       'distinct value codes are realised by Python objects that compare unequal',
                       'inputs with only events after the last dump and no initial value are outside the text']
    return common.finish(ctx, build, RULE, CHECKER, TRUSTED, shrink=lambda c, w: shrink(ctx, c, w))


def replay(ctx, rep):
    ctx.matchers.update(MATCHERS)
    build = common.build_and_audit(PROP, 'quick')
    for c, v in evaluate(ctx, [rep['case']]):
        ctx.violation(c, v)
    return common.finish(ctx, build, RULE, CHECKER, TRUSTED)
