/-
  C10 lemmas, part 3: from the yields of the generator to the per-dump list of the returned
  `CategoricalData`, and the window cut of `sensor_to_categorical`.
-/
import KatdalModel.Lemmas.CatRule
import KatdalModel.Lemmas.CatBasic
open Np

namespace Categorical

set_option linter.unusedSimpArgs false

variable {α β : Type}

/-! ### segments written out -/

theorem expand_eq_expandFrom (N : Nat) : ∀ (rest : List (α × Nat)) (d0 : Nat) (y0 : α),
    expand (d0 :: (rest.map (·.2) ++ [N])) (y0 :: rest.map (·.1)) = expandFrom N d0 y0 rest := by
  intro rest
  induction rest with
  | nil => intro d0 y0; simp [expand, expandFrom]
  | cons y t ih =>
    intro d0 y0
    obtain ⟨v, d⟩ := y
    simp only [List.map_cons, List.cons_append, expand, expandFrom]
    rw [ih]

theorem expandFrom_map (f : α → β) (N : Nat) : ∀ (ys : List (α × Nat)) (a : Nat) (cur : α),
    (expandFrom N a cur ys).map f = expandFrom N a (f cur) (ys.map (fun y => (f y.1, y.2))) := by
  intro ys
  induction ys with
  | nil => intro a cur; simp [expandFrom]
  | cons y t ih =>
    intro a cur
    obtain ⟨v, d⟩ := y
    simp only [expandFrom, List.map_append, List.map_replicate, List.map_cons, ih]

/-- the open segment may be cut anywhere before the next boundary -/
theorem expandFrom_shift (N : Nat) (cur : α) (ys : List (α × Nat)) (a e : Nat) (hae : a ≤ e) (heN : e ≤ N)
    (h : ∀ y ∈ ys, e ≤ y.2) :
    expandFrom N a cur ys = List.replicate (e - a) cur ++ expandFrom N e cur ys := by
  cases ys with
  | nil => simp only [expandFrom]; rw [replicate_glue' cur a e N hae heN]
  | cons y t =>
    obtain ⟨v, d⟩ := y
    have hd : e ≤ d := h (v, d) (List.mem_cons_self ..)
    simp only [expandFrom]
    rw [replicate_glue cur a e d _ hae hd]

/-! ### repeat removal -/

variable {V : Type} [DecidableEq V]

theorem keepChanges_sublist : ∀ (ps : List (V × Nat)) (prev : Option V), (keepChanges prev ps).Sublist ps := by
  intro ps
  induction ps with
  | nil => intro prev; simp [keepChanges]
  | cons p t ih =>
    intro prev
    obtain ⟨v, e⟩ := p
    simp only [keepChanges]
    split
    · exact List.Sublist.cons _ (ih _)
    · exact List.Sublist.cons_cons _ (ih _)

/-- removing events that repeat the previous value does not change any dump's value -/
theorem keepChanges_expand (N : Nat) : ∀ (ps : List (V × Nat)) (a : Nat) (cur : V),
    (a :: ps.map (·.2)).Pairwise (· ≤ ·) → (∀ p ∈ ps, p.2 ≤ N) → a ≤ N →
    expandFrom N a cur (keepChanges (some cur) ps) = expandFrom N a cur ps := by
  intro ps
  induction ps with
  | nil => intro a cur _ _ _; rfl
  | cons p t ih =>
    intro a cur hs hN haN
    obtain ⟨v, e⟩ := p
    have hs' := List.pairwise_cons.mp hs
    have hae : a ≤ e := hs'.1 e (by simp)
    have heN : e ≤ N := hN (v, e) (List.mem_cons_self ..)
    have hst : (e :: t.map (·.2)).Pairwise (· ≤ ·) := by simpa using hs'.2
    have hNt : ∀ p ∈ t, p.2 ≤ N := fun p hp => hN p (List.mem_cons_of_mem _ hp)
    simp only [keepChanges]
    by_cases hv : cur = v
    · subst hv
      simp only [if_true, expandFrom]
      have hat : (a :: t.map (·.2)).Pairwise (· ≤ ·) := by
        refine List.pairwise_cons.mpr ⟨?_, (List.pairwise_cons.mp hst).2⟩
        intro x hx
        have := (List.pairwise_cons.mp hst).1 x hx
        omega
      rw [ih a cur hat hNt haN]
      exact expandFrom_shift N cur t a e hae heN (fun y hy => (List.pairwise_cons.mp hst).1 y.2 (by
        simp only [List.mem_map]; exact ⟨y, hy, rfl⟩))
    · have : ¬ (some cur = some v) := by simpa using hv
      simp only [this, if_false, expandFrom]
      rw [ih e v hst hNt heN]

/-- after repeat removal neighbouring values differ -/
theorem keepChanges_no_repeat : ∀ (ps : List (V × Nat)) (prev : Option V),
    (∀ x ∈ ((keepChanges prev ps).map (·.1)).head?, prev ≠ some x) ∧
    (∀ i, ∀ x y, ((keepChanges prev ps).map (·.1))[i]? = some x →
      ((keepChanges prev ps).map (·.1))[i + 1]? = some y → x ≠ y) := by
  intro ps
  induction ps with
  | nil => intro prev; simp [keepChanges]
  | cons p t ih =>
    intro prev
    obtain ⟨v, e⟩ := p
    simp only [keepChanges]
    by_cases hp : prev = some v
    · subst hp
      simp only [if_true]
      exact ih (some v)
    · simp only [hp, if_false, List.map_cons, List.head?_cons]
      obtain ⟨h1, h3⟩ := ih (some v)
      refine ⟨by simpa using hp, ?_⟩
      intro i x y hx hy
      cases i with
      | zero =>
        simp only [List.getElem?_cons_zero, Option.some.injEq] at hx
        simp only [Nat.zero_add, List.getElem?_cons_succ] at hy
        subst hx
        have h1' : ∀ z ∈ ((keepChanges (some v) t).map (·.1)).head?, some v ≠ some z := h1
        rw [List.head?_eq_getElem?] at h1'
        have := h1' y hy
        simpa using this
      | succ k =>
        simp only [List.getElem?_cons_succ] at hx hy
        exact h3 k x y hx hy

/-! ### shape of the generator's yields -/

theorem boundary_yields (g : Nat → Bool) (st : FSt) (j cur cd : Nat) (hinv : Inv g st j cur) (hcd : st.pd < cd) :
    ((fStep g (j + 1) cd st.pd st).2.map (·.2)).Pairwise (· < ·) ∧
    ∀ y ∈ (fStep g (j + 1) cd st.pd st).2, st.pd ≤ y.2 ∧ y.2 < cd := by
  obtain ⟨pwe, pwD, pd⟩ := st
  simp only at hcd ⊢
  rcases hinv with ⟨h1, h2, h3, h4⟩ | ⟨h1, h2, h3, h4, h5⟩ | ⟨h1, h2⟩
  · simp only at h1 h2 h3 h4
    subst h2
    by_cases hj : pwe = j
    · subst hj
      by_cases hg : g (pwe + 1) = true <;> simp [fStep, h1, hcd, hg]
    · have hne : j ≠ pwe := fun h => hj h.symm
      by_cases hg : g (j + 1) = true <;> by_cases hd : pwD + 1 < cd <;>
        simp [fStep, h1, hcd, hg, hne, hd]
  · simp only at h1 h2 h3 h4 h5
    have hnp : ¬ pd ≤ pwD := by omega
    have hne : j ≠ pwe := by omega
    by_cases hg : g (j + 1) = true <;> by_cases hd : pd + 1 < cd <;>
      simp [fStep, h1, hcd, hg, hd, hnp, hne]
  · simp only at h1 h2
    by_cases hg : g (j + 1) = true <;> simp [fStep, h1, hcd, hg]

theorem fLoop_sorted (g : Nat → Bool) (N : Nat) : ∀ (ds : List Nat) (j : Nat) (st : FSt) (cur : Nat),
    Inv g st j cur → st.pd < N → (∀ d ∈ ds, d < N) → (st.pd :: ds).Pairwise (· ≤ ·) →
    ((fLoop g (ds ++ [N]) (j + 1) st.pd st).map (·.2)).Pairwise (· < ·) ∧
    ∀ y ∈ fLoop g (ds ++ [N]) (j + 1) st.pd st, st.pd ≤ y.2 ∧ y.2 < N := by
  intro ds
  induction ds with
  | nil =>
    intro j st cur hinv hN _ _
    have := boundary_yields g st j cur N hinv hN
    simpa [fLoop] using this
  | cons d ds ih =>
    intro j st cur hinv hN hlt hsorted
    have hdN : d < N := hlt d (List.mem_cons_self ..)
    have hpd : st.pd ≤ d := (List.pairwise_cons.mp hsorted).1 d (List.mem_cons_self ..)
    have hsorted' : (d :: ds).Pairwise (· ≤ ·) := (List.pairwise_cons.mp hsorted).2
    have hlt' : ∀ x ∈ ds, x < N := fun x hx => hlt x (List.mem_cons_of_mem _ hx)
    by_cases hb : d = st.pd
    · obtain ⟨hy, hinv', hpd', _⟩ := same_dump_step g st j cur d hinv hb
      have hsorted'' : ((fStep g (j + 1) d st.pd st).1.pd :: ds).Pairwise (· ≤ ·) := by
        rw [hpd', ← hb]; exact hsorted'
      have := ih (j + 1) (fStep g (j + 1) d st.pd st).1 cur hinv' (by omega) hlt' hsorted''
      simp only [List.cons_append, fLoop, hy, List.nil_append]
      rw [hpd'] at this
      rw [← hb] at this
      rw [hb] at this ⊢
      rw [← hb]
      simpa [hb] using this
    · have hlt2 : st.pd < d := by omega
      obtain ⟨cur', hinv', hpd', _, _⟩ := boundary_step g N st j cur d hinv hlt2 [] []
      have hsorted'' : ((fStep g (j + 1) d st.pd st).1.pd :: ds).Pairwise (· ≤ ·) := by
        rw [hpd']; exact hsorted'
      obtain ⟨ih1, ih2⟩ := ih (j + 1) (fStep g (j + 1) d st.pd st).1 cur' hinv' (by omega) hlt' hsorted''
      rw [hpd'] at ih1 ih2
      obtain ⟨b1, b2⟩ := boundary_yields g st j cur d hinv hlt2
      simp only [List.cons_append, fLoop, List.map_append]
      refine ⟨List.pairwise_append.mpr ⟨b1, ih1, ?_⟩, ?_⟩
      · intro a ha b hb'
        simp only [List.mem_map] at ha hb'
        obtain ⟨y, hy, rfl⟩ := ha
        obtain ⟨z, hz, rfl⟩ := hb'
        have := (b2 y hy).2
        have := (ih2 z hz).1
        omega
      · intro y hy
        simp only [List.mem_append] at hy
        rcases hy with hy | hy
        · have := b2 y hy; omega
        · have := ih2 y hy; omega

theorem fLoop_idx_lt (g : Nat → Bool) : ∀ (suf : List Nat) (ce lastD : Nat) (fs : FSt),
    fs.pwe + 1 ≤ ce → ∀ y ∈ fLoop g suf ce lastD fs, y.1 + 1 < ce + suf.length := by
  intro suf
  induction suf with
  | nil => intro ce lastD fs _ y hy; simp [fLoop] at hy
  | cons cd rest ih =>
    intro ce lastD fs hle y hy
    simp only [fLoop, List.mem_append] at hy
    have hstep : (fStep g ce cd lastD fs).1.pwe + 1 ≤ ce + 1 ∧
        ∀ z ∈ (fStep g ce cd lastD fs).2, z.1 + 1 ≤ ce := by
      obtain ⟨pwe, pwD, pd⟩ := fs
      simp only at hle
      simp only [fStep]
      by_cases hb : cd > pd <;> by_cases hg : g ce = true <;> by_cases hgp : g pwe = false <;>
        by_cases he : ce - 1 = pwe <;> simp [hb, hg, hgp, he]
      all_goals first
        | omega
        | (intros; omega)
        | (refine ⟨by omega, ?_⟩; intros; omega)
    rcases hy with hy | hy
    · have := hstep.2 y hy
      simp only [List.length_cons]; omega
    · have := ih (ce + 1) cd _ hstep.1 y hy
      simp only [List.length_cons]; omega

/-! ### fancy indexing -/

theorem takeIdx_getD {γ : Type} (l : List γ) (dflt : γ) : ∀ (idxs : List Nat), (∀ i ∈ idxs, i < l.length) →
    takeIdx l idxs = .ok (idxs.map (fun i => l.getD i dflt)) := by
  intro idxs
  induction idxs with
  | nil => intro _; rfl
  | cons i t ih =>
    intro h
    have hi : i < l.length := h i (List.mem_cons_self ..)
    simp only [takeIdx, getNat, List.getElem?_eq_getElem hi, bind, Except.bind,
      ih (fun j hj => h j (List.mem_cons_of_mem _ hj)), pure, Except.pure, List.map_cons, List.getD,
      Option.getD_some]

theorem takeIdx_pairs {γ : Type} (l : List γ) : ∀ (ys : List (Nat × γ)), (∀ y ∈ ys, l[y.1]? = some y.2) →
    takeIdx l (ys.map (·.1)) = .ok (ys.map (·.2)) := by
  intro ys
  induction ys with
  | nil => intro _; rfl
  | cons y t ih =>
    intro h
    simp only [List.map_cons, takeIdx, getNat, h y (List.mem_cons_self ..), bind, Except.bind,
      ih (fun z hz => h z (List.mem_cons_of_mem _ hz)), pure, Except.pure]

theorem getD_map_lt {γ δ : Type} (f : γ → δ) (l : List γ) (i : Nat) (d1 : δ) (d2 : γ) (h : i < l.length) :
    (l.map f).getD i d1 = f (l.getD i d2) := by
  simp [List.getD, List.getElem?_eq_getElem h]

theorem zipIdx_map_getD {γ : Type} (dflt : γ) : ∀ (D : List Nat) (Vs pre : List γ), Vs.length = D.length →
    (D.zipIdx pre.length).map (fun e => (e.1, (pre ++ Vs).getD e.2 dflt)) = D.zip Vs := by
  intro D
  induction D with
  | nil => intro Vs pre _; simp
  | cons d t ih =>
    intro Vs pre h
    cases Vs with
    | nil => simp at h
    | cons v Vt =>
      simp only [List.zipIdx_cons, List.map_cons, List.zip_cons_cons]
      congr 1
      · simp [List.getD]
      · have := ih Vt (pre ++ [v]) (by simpa using h)
        simpa using this

/-! ### the last part of `sensor_to_categorical` realises the one-pass rule -/

variable {V : Type} [DecidableEq V]

/-- no two neighbouring entries are equal -/
def NoAdjacentRepeat (l : List V) : Prop := ∀ i x y, l[i]? = some x → l[i + 1]? = some y → x ≠ y

theorem clean_core (N : Nat) (hN : 0 < N) (v0 : V) (Vs : List V) (d0 : Nat) (D : List Nat)
    (hlen : Vs.length = D.length) (hD : D.Pairwise (· ≤ ·)) (hDN : ∀ d ∈ D, d < N)
    (gvals : List V) (rep : Bool) :
    ∃ (P : List (V × Nat)) (v : V) (Pt : List (V × Nat)),
      s2cClean N (v0 :: Vs) (d0 :: D) gvals rep = .ok (Cat.new (P.map (·.1)) (P.map (·.2) ++ [N])) ∧
      P = (v, 0) :: Pt ∧ (P.map (·.2)).Pairwise (· < ·) ∧ (∀ p ∈ P, p.2 < N) ∧
      (rep = false → NoAdjacentRepeat (P.map (·.1))) ∧
      ∀ cur, expandFrom N 0 cur P =
        ruleS (fun x => gvals.contains x) N 0 (bestV (fun x => gvals.contains x) v0) v0 (D.zip Vs) := by
  let gv : V → Bool := fun x => gvals.contains x
  let greedy : List Bool := (v0 :: Vs).map gv
  let g : Nat → Bool := fun i => greedy.getD i false
  let val : Nat → V := fun i => (v0 :: Vs).getD i v0
  have hlenG : greedy.length = (D ++ [N]).length := by simp [greedy, hlen]
  obtain ⟨ev', hsepd, hev'⟩ := sepd_eq (D ++ [N]) greedy hlenG
  let ys := fLoop g (D ++ [N]) 1 0 ⟨0, 0, 0⟩
  have hinv : ∀ cur, Inv g ⟨0, 0, 0⟩ 0 cur := by
    intro cur
    by_cases h0 : g 0 = true
    · left; simp [h0]
    · right; right; simp at h0; simp [h0]
  have hsorted0 : ((0 : Nat) :: D).Pairwise (· ≤ ·) := List.pairwise_cons.mpr ⟨fun _ _ => Nat.zero_le _, hD⟩
  have hgterm : g (0 + 1 + D.length) = false := by
    simp only [g, List.getD]
    rw [List.getElem?_eq_none (by simp [greedy, hlen]; omega)]
    rfl
  have hB : ∀ cur, expandFrom N 0 cur ys = ruleS g N 0 (bestOf g ⟨0, 0, 0⟩) 0 (D.zipIdx 1) := by
    intro cur
    have := fLoop_rule g N D 0 ⟨0, 0, 0⟩ cur 0 (hinv cur) (Nat.le_refl _) hN hDN hsorted0 hgterm
    simpa using this
  obtain ⟨hS1, hS2⟩ := fLoop_sorted g N D 0 ⟨0, 0, 0⟩ 0 (hinv 0) hN hDN hsorted0
  have hidx : ∀ y ∈ ys, y.1 < (v0 :: Vs).length := by
    intro y hy
    have := fLoop_idx_lt g (D ++ [N]) 1 0 ⟨0, 0, 0⟩ (by simp) y hy
    simp only [List.length_append, List.length_cons, List.length_nil] at this ⊢
    omega
  -- the first yield is at dump 0
  have hhead : ∃ i0 yt, ys = (i0, 0) :: yt := by
    have h01 : expandFrom N 0 0 ys = expandFrom N 0 1 ys := by rw [hB 0, hB 1]
    cases hys : ys with
    | nil =>
      rw [hys] at h01
      simp only [expandFrom] at h01
      cases N with
      | zero => omega
      | succ k => simp [List.replicate_succ] at h01
    | cons y yt =>
      obtain ⟨i0, d⟩ := y
      rw [hys] at h01
      simp only [expandFrom] at h01
      cases d with
      | zero => exact ⟨i0, yt, rfl⟩
      | succ k => simp [List.replicate_succ] at h01
  obtain ⟨i0, yt, hys⟩ := hhead
  let YP : List (V × Nat) := ys.map (fun y => (val y.1, y.2))
  have hYP : YP = (val i0, 0) :: yt.map (fun y => (val y.1, y.2)) := by simp [YP, hys]
  have hYPsnd : YP.map (·.2) = ys.map (·.2) := by simp [YP]
  -- evaluate the mirror
  have hv6 : takeIdx (v0 :: Vs) (ys.map (·.1)) = .ok (ys.map (fun y => val y.1)) := by
    have := takeIdx_getD (v0 :: Vs) v0 (ys.map (·.1)) (by
      intro i hi
      simp only [List.mem_map] at hi
      obtain ⟨y, hy, rfl⟩ := hi
      exact hidx y hy)
    rw [this, List.map_map]
    rfl
  have he6 : takeIdx ev' (ys.map (·.1)) = .ok (ys.map (·.2)) := takeIdx_pairs ev' ys hev'
  have hzip : List.zip (ys.map (fun y => val y.1)) (ys.map (·.2)) = YP := by
    simp [YP, List.zip_map']
  let P : List (V × Nat) := if rep = true then YP else keepChanges none YP
  have hrun : s2cClean N (v0 :: Vs) (d0 :: D) gvals rep = .ok (Cat.new (P.map (·.1)) (P.map (·.2) ++ [N])) := by
    simp only [s2cClean, List.set_cons_zero, List.cons_append]
    have : sepd (0 :: (D ++ [N])) (List.map (fun v => gvals.contains v) (v0 :: Vs)) =
        .ok (ys.map (·.1), ev') := hsepd
    simp only [this, bind, Except.bind, hv6, he6, hzip, pure, Except.pure]
    rfl
  have hkc : keepChanges none YP = (val i0, 0) :: keepChanges (some (val i0)) (yt.map (fun y => (val y.1, y.2))) := by
    rw [hYP]; simp [keepChanges]
  have hsub : P.Sublist YP := by
    simp only [P]
    split
    · exact List.Sublist.refl _
    · exact keepChanges_sublist _ _
  have hP : ∃ Pt, P = (val i0, 0) :: Pt := by
    simp only [P]
    split
    · exact ⟨_, hYP⟩
    · exact ⟨_, hkc⟩
  obtain ⟨Pt, hPeq⟩ := hP
  have hYPs : (YP.map (·.2)).Pairwise (· < ·) := by rw [hYPsnd]; exact hS1
  have hYPN : ∀ p ∈ YP, p.2 < N := by
    intro p hp
    simp only [YP, List.mem_map] at hp
    obtain ⟨y, hy, rfl⟩ := hp
    exact (hS2 y hy).2
  refine ⟨P, val i0, Pt, hrun, hPeq, List.Pairwise.sublist (List.Sublist.map _ hsub) hYPs,
    fun p hp => hYPN p (hsub.subset hp), ?_, ?_⟩
  · intro hrep
    have : P = keepChanges none YP := by simp [P, hrep]
    rw [this]
    exact (keepChanges_no_repeat YP none).2
  · intro cur
    -- repeat removal does not change the expansion
    have hPY : expandFrom N 0 cur P = expandFrom N 0 cur YP := by
      simp only [P]
      split
      · rfl
      · rw [hkc, hYP]
        simp only [expandFrom]
        congr 1
        have hs : (0 :: (yt.map (fun y => (val y.1, y.2))).map (·.2)).Pairwise (· ≤ ·) := by
          have h1 : (YP.map (·.2)).Pairwise (· ≤ ·) := hYPs.imp (fun h => Nat.le_of_lt h)
          rw [hYP] at h1
          simpa using h1
        apply keepChanges_expand N _ 0 (val i0) hs
        · intro p hp
          have : p ∈ YP := by rw [hYP]; exact List.mem_cons_of_mem _ hp
          exact Nat.le_of_lt (hYPN p this)
        · omega
    rw [hPY]
    -- the open segment before the first yield is empty
    have hcur : expandFrom N 0 cur YP = expandFrom N 0 (val 0) YP := by
      rw [hYP]; simp [expandFrom]
    rw [hcur]
    have hmap : expandFrom N 0 (val 0) YP = (expandFrom N 0 0 ys).map val := by
      rw [expandFrom_map]
    rw [hmap, hB 0]
    have hg0 : g 0 = gv (val 0) := by simp [g, greedy, val, List.getD]
    have hgl : ∀ e ∈ D.zipIdx 1, g e.2 = gv (val e.2) := by
      intro e he
      have hlt : e.2 < (v0 :: Vs).length := by
        have := List.mem_zipIdx he
        simp only [List.length_cons]
        omega
      exact getD_map_lt gv (v0 :: Vs) e.2 false v0 hlt
    rw [ruleS_map val g gv N (D.zipIdx 1) 0 _ 0 hg0 hgl]
    have hz : (D.zipIdx 1).map (fun e => (e.1, val e.2)) = D.zip Vs := by
      have := zipIdx_map_getD v0 D Vs [v0] hlen
      simpa [val] using this
    rw [hz]
    have hv0 : val 0 = v0 := by simp [val, List.getD]
    rw [hv0]
    congr 1
    simp only [bestOf, bestV, hg0, hv0]
    split <;> simp [hv0]

end Categorical
