import KatdalModel.Model.ApplyCal
namespace C14
theorem placeholder : True := trivial
end C14
