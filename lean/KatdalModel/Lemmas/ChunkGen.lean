/-
  Lemmas about `generate_chunks`: per-axis tiling by `blockdims_from_blockshape` and the
  invariants of the two loops that compute the block shape.
-/
import KatdalModel.Model.ChunkStore
open Np

namespace ChunkStore

/-! ### blockdims_from_blockshape on one axis -/

theorem blockdims_sum (d bd : Nat) : (blockdims d bd).sum = d := by
  unfold blockdims
  split
  · simp; omega
  · have hdm := Nat.div_add_mod d bd
    split
    · rename_i h0
      simp only [List.append_nil, List.sum_replicate_nat]
      rw [Nat.mul_comm]; omega
    · simp only [List.sum_append, List.sum_replicate_nat, List.sum_cons, List.sum_nil]
      rw [Nat.mul_comm]; omega

theorem blockdims_le (d bd : Nat) (h : 0 < bd) : ∀ x ∈ blockdims d bd, x ≤ bd := by
  intro x hx
  unfold blockdims at hx
  split at hx
  · simp at hx; omega
  · rw [List.mem_append] at hx
    rcases hx with hx | hx
    · rw [List.mem_replicate] at hx; omega
    · split at hx
      · simp at hx
      · simp at hx
        have := Nat.mod_lt d h
        omega

theorem blockdims_pos (d bd : Nat) (hd : 0 < d) (h : 0 < bd) : ∀ x ∈ blockdims d bd, 0 < x := by
  intro x hx
  unfold blockdims at hx
  split at hx
  · omega
  · rw [List.mem_append] at hx
    rcases hx with hx | hx
    · rw [List.mem_replicate] at hx; omega
    · split at hx
      · simp at hx
      · simp at hx; omega

/-- all chunks but the last have the full block size -/
theorem blockdims_dropLast (d bd : Nat) : ∀ x ∈ (blockdims d bd).dropLast, x = bd := by
  intro x hx
  unfold blockdims at hx
  split at hx
  · simp at hx
  · split at hx
    · simp only [List.append_nil, List.dropLast_replicate] at hx
      rw [List.mem_replicate] at hx
      exact hx.2
    · rw [List.dropLast_concat, List.mem_replicate] at hx
      exact hx.2

theorem blockdims_whole (d : Nat) : blockdims d d = [d] := by
  unfold blockdims
  split
  · rename_i h; rw [h]
  · rename_i h
    have h1 : d / d = 1 := Nat.div_self (by omega)
    have h2 : d % d = 0 := Nat.mod_self d
    simp [h1, h2]

/-! ### list helpers -/

theorem getD_set_eq (l : List Nat) : ∀ (i v dflt : Nat), i < l.length → (l.set i v).getD i dflt = v := by
  induction l with
  | nil => intro i v d h; simp at h
  | cons c t ih =>
    intro i v d h
    cases i with
    | zero => simp
    | succ k =>
      simp only [List.length_cons] at h
      simp only [List.set_cons_succ, List.getD_cons_succ]
      exact ih k v d (by omega)

theorem getD_set_ne (l : List Nat) : ∀ (i j v dflt : Nat), i ≠ j → (l.set i v).getD j dflt = l.getD j dflt := by
  induction l with
  | nil => intro i j v d h; simp
  | cons c t ih =>
    intro i j v d h
    cases i with
    | zero =>
      cases j with
      | zero => omega
      | succ m => simp
    | succ k =>
      cases j with
      | zero => simp
      | succ m =>
        simp only [List.set_cons_succ, List.getD_cons_succ]
        exact ih k m v d (by omega)

theorem getD_of_length_le (l : List Nat) (i d : Nat) (h : l.length ≤ i) : l.getD i d = d := by
  rw [List.getD_eq_getElem?_getD, List.getElem?_eq_none h]; rfl

theorem prod_set (l : List Nat) : ∀ (i v : Nat), i < l.length →
    (l.set i v).prod * l.getD i 0 = l.prod * v := by
  induction l with
  | nil => intro i v h; simp at h
  | cons c t ih =>
    intro i v h
    cases i with
    | zero =>
      simp only [List.set_cons_zero, List.prod_cons, List.getD_cons_zero]
      rw [Nat.mul_assoc, Nat.mul_comm t.prod c, ← Nat.mul_assoc, Nat.mul_comm v c, Nat.mul_assoc,
        Nat.mul_comm v t.prod, Nat.mul_assoc]
    | succ k =>
      simp only [List.length_cons] at h
      simp only [List.set_cons_succ, List.prod_cons, List.getD_cons_succ]
      rw [Nat.mul_assoc, ih k v (by omega), Nat.mul_assoc]

theorem getD_pos_of_prod_pos (l : List Nat) : ∀ i, 0 < l.prod → i < l.length → 0 < l.getD i 0 := by
  induction l with
  | nil => intro i _ h; simp at h
  | cons c t ih =>
    intro i hp h
    simp only [List.prod_cons] at hp
    have hc : 0 < c := Nat.pos_of_mul_pos_right hp |> fun _ => by
      rcases Nat.eq_zero_or_pos c with h0 | h0
      · rw [h0] at hp; simp at hp
      · exact h0
    have ht : 0 < t.prod := by
      rcases Nat.eq_zero_or_pos t.prod with h0 | h0
      · rw [h0] at hp; simp at hp
      · exact h0
    cases i with
    | zero => simpa using hc
    | succ k =>
      simp only [List.length_cons] at h
      simp only [List.getD_cons_succ]
      exact ih k ht (by omega)

/-! ### the target size along one dimension -/

def IsPow2 (x : Nat) : Prop := ∃ k, x = 2 ^ k

theorem floorPow2_isPow2 (n : Nat) : IsPow2 (floorPow2 n) := ⟨n.log2, rfl⟩

theorem floorPow2_pos (n : Nat) : 1 ≤ floorPow2 n := Nat.one_le_two_pow

theorem floorPow2_le {n : Nat} (h : 1 ≤ n) : floorPow2 n ≤ n :=
  Nat.log2_self_le (by omega)

/-- the largest power of two not above `n` -/
theorem floorPow2_max {n : Nat} : n < 2 * floorPow2 n := by
  unfold floorPow2
  have := @Nat.lt_log2_self n
  rw [Nat.pow_succ] at this
  omega

theorem le_ceilDiv_mul (a b : Nat) (hb : 0 < b) : a ≤ ceilDiv a b * b := by
  unfold ceilDiv
  have h1 := Nat.div_add_mod (a + b - 1) b
  have h2 := Nat.mod_lt (a + b - 1) hb
  rw [Nat.mul_comm]
  omega

theorem ceilDiv_le {a b c : Nat} (hb : 0 < b) (h : a ≤ c * b) : ceilDiv a b ≤ c := by
  unfold ceilDiv
  rw [Nat.div_le_iff_le_mul_add_pred hb, Nat.mul_comm b c]
  omega

theorem ceilDiv_pos {a b : Nat} (ha : 0 < a) (hb : 0 < b) : 0 < ceilDiv a b := by
  unfold ceilDiv
  exact Nat.div_pos (by omega) hb

/-- facts about `trg_elements` in an iteration that did not `break`:
    `num / den` is `trg_elements_real` -/
theorem targetElements_facts (pow2 : Bool) (sh num den d : Nat) (hden : 0 < den)
    (hlt : num < d * den) (hd : 1 ≤ d) (hsh : d ≤ sh) :
    1 ≤ targetElements pow2 sh num den ∧ targetElements pow2 sh num den ≤ d ∧
      (den ≤ num → targetElements pow2 sh num den * den ≤ num) ∧
      (num < den → targetElements pow2 sh num den = 1) ∧
      (pow2 = true → IsPow2 (targetElements pow2 sh num den)) := by
  have hq : num / den < d := (Nat.div_lt_iff_lt_mul hden).mpr hlt
  by_cases h1 : num < den
  · have hval : targetElements pow2 sh num den = 1 := by simp [targetElements, h1]
    rw [hval]
    refine ⟨Nat.le_refl 1, hd, ?_, fun _ => rfl, fun _ => ⟨0, rfl⟩⟩
    intro h; omega
  · have hge : den ≤ num := by omega
    have hq1 : 1 ≤ num / den := Nat.div_pos hge hden
    cases pow2 with
    | true =>
      have hval : targetElements true sh num den = floorPow2 (num / den) := by
        simp [targetElements, h1]
      rw [hval]
      have hle := floorPow2_le hq1
      refine ⟨floorPow2_pos _, by omega, ?_, fun h => absurd h h1, fun _ => floorPow2_isPow2 _⟩
      intro _
      calc floorPow2 (num / den) * den ≤ (num / den) * den := Nat.mul_le_mul_right den hle
        _ ≤ num := Nat.div_mul_le_self num den
    | false =>
      have hval : targetElements false sh num den = sh / ceilDiv (sh * den) num := by
        simp [targetElements, h1]
      rw [hval]
      have hnum : 0 < num := by omega
      have hsh1 : 1 ≤ sh := by omega
      have hshden : 0 < sh * den := Nat.mul_pos hsh1 hden
      have hp0 : 0 < ceilDiv (sh * den) num := ceilDiv_pos hshden hnum
      have hple : ceilDiv (sh * den) num ≤ sh :=
        ceilDiv_le hnum (Nat.mul_le_mul_left sh hge)
      have hceil := le_ceilDiv_mul (sh * den) num hnum
      -- (sh / p) * den ≤ num
      have hbudget : sh / ceilDiv (sh * den) num * den ≤ num := by
        apply Nat.le_of_mul_le_mul_left (c := ceilDiv (sh * den) num) _ hp0
        calc ceilDiv (sh * den) num * (sh / ceilDiv (sh * den) num * den)
            = (sh / ceilDiv (sh * den) num * ceilDiv (sh * den) num) * den := by
              rw [← Nat.mul_assoc, Nat.mul_comm (ceilDiv (sh * den) num)]
          _ ≤ sh * den := Nat.mul_le_mul_right den (Nat.div_mul_le_self sh _)
          _ ≤ ceilDiv (sh * den) num * num := hceil
      have hle : sh / ceilDiv (sh * den) num ≤ num / den :=
        (Nat.le_div_iff_mul_le hden).mpr hbudget
      refine ⟨Nat.div_pos hple hp0, by omega, fun _ => hbudget, fun h => absurd h h1, ?_⟩
      intro h; cases h

/-! ### invariants of the two loops -/

/-- what every entry of the block shape satisfies -/
structure Good (shape : List Nat) (dimsAll : List Nat) (maxDim : List (Nat × Nat)) (pow2 : Bool)
    (de : List Nat) : Prop where
  len : de.length = shape.length
  le_shape : ∀ i, de.getD i 0 ≤ shape.getD i 0
  pos : ∀ i, 1 ≤ shape.getD i 0 → 1 ≤ de.getD i 0
  limit : ∀ i m, i ∈ dimsAll → lookupDim maxDim i = some m → de.getD i 0 ≤ m
  pow : pow2 = true → ∀ i, de.getD i 0 = shape.getD i 0 ∨ IsPow2 (de.getD i 0)

theorem Good.set {shape dimsAll maxDim pow2 de} (g : Good shape dimsAll maxDim pow2 de)
    (dim v : Nat) (h1 : v ≤ shape.getD dim 0) (h2 : 1 ≤ v)
    (h3 : ∀ m, dim ∈ dimsAll → lookupDim maxDim dim = some m → v ≤ m)
    (h4 : pow2 = true → IsPow2 v) : Good shape dimsAll maxDim pow2 (de.set dim v) := by
  by_cases hlen : dim < de.length
  · refine ⟨by rw [List.length_set]; exact g.len, ?_, ?_, ?_, ?_⟩
    · intro i
      by_cases hi : dim = i
      · subst hi; rw [getD_set_eq _ _ _ _ hlen]; exact h1
      · rw [getD_set_ne _ _ _ _ _ hi]; exact g.le_shape i
    · intro i hs
      by_cases hi : dim = i
      · subst hi; rw [getD_set_eq _ _ _ _ hlen]; exact h2
      · rw [getD_set_ne _ _ _ _ _ hi]; exact g.pos i hs
    · intro i m hmem hl
      by_cases hi : dim = i
      · subst hi; rw [getD_set_eq _ _ _ _ hlen]; exact h3 m hmem hl
      · rw [getD_set_ne _ _ _ _ _ hi]; exact g.limit i m hmem hl
    · intro hp i
      by_cases hi : dim = i
      · subst hi; rw [getD_set_eq _ _ _ _ hlen]; right; exact h4 hp
      · rw [getD_set_ne _ _ _ _ _ hi]; exact g.pow hp i
  · rw [List.set_eq_of_length_le (by omega)]; exact g

theorem good_shape (shape : List Nat) (maxDim : List (Nat × Nat)) (pow2 : Bool) :
    Good shape [] maxDim pow2 shape :=
  ⟨rfl, fun _ => Nat.le_refl _, fun _ h => h, fun _ _ h => by simp at h, fun _ _ => Or.inl rfl⟩

theorem Good.extend_keep {shape done maxDim pow2 de} (g : Good shape done maxDim pow2 de) (i : Nat)
    (h : ∀ m, lookupDim maxDim i = some m → de.getD i 0 ≤ m) :
    Good shape (done ++ [i]) maxDim pow2 de := by
  refine ⟨g.len, g.le_shape, g.pos, ?_, g.pow⟩
  intro j m hj hlj
  rw [List.mem_append] at hj
  rcases hj with hj | hj
  · exact g.limit j m hj hlj
  · simp at hj; subst hj; exact h m hlj

theorem Good.extend_set {shape done maxDim pow2 de} (g : Good shape done maxDim pow2 de)
    (i v : Nat) (h1 : v ≤ shape.getD i 0) (h2 : 1 ≤ v)
    (h3 : ∀ m, lookupDim maxDim i = some m → v ≤ m)
    (h4 : pow2 = true → IsPow2 v) : Good shape (done ++ [i]) maxDim pow2 (de.set i v) := by
  by_cases hlen : i < de.length
  · refine ⟨by rw [List.length_set]; exact g.len, ?_, ?_, ?_, ?_⟩
    · intro j
      by_cases hi : i = j
      · subst hi; rw [getD_set_eq _ _ _ _ hlen]; exact h1
      · rw [getD_set_ne _ _ _ _ _ hi]; exact g.le_shape j
    · intro j hs
      by_cases hi : i = j
      · subst hi; rw [getD_set_eq _ _ _ _ hlen]; exact h2
      · rw [getD_set_ne _ _ _ _ _ hi]; exact g.pos j hs
    · intro j m hmem hl
      by_cases hi : i = j
      · subst hi; rw [getD_set_eq _ _ _ _ hlen]; exact h3 m hl
      · rw [getD_set_ne _ _ _ _ _ hi]
        rw [List.mem_append] at hmem
        rcases hmem with hmem | hmem
        · exact g.limit j m hmem hl
        · simp at hmem; omega
    · intro hp j
      by_cases hi : i = j
      · subst hi; rw [getD_set_eq _ _ _ _ hlen]; right; exact h4 hp
      · rw [getD_set_ne _ _ _ _ _ hi]; exact g.pow hp j
  · rw [List.set_eq_of_length_le (by omega)]
    apply g.extend_keep
    intro m _
    rw [getD_of_length_le _ _ _ (by omega)]
    omega

/-- the first loop establishes the invariant, including the per-dimension limits -/
theorem limitDims_good (shape : List Nat) (pow2 : Bool) (maxDim : List (Nat × Nat))
    (hpos : ∀ i m, lookupDim maxDim i = some m → 1 ≤ m) :
    ∀ (dims done : List Nat) (de : List Nat), Good shape done maxDim pow2 de →
      Good shape (done ++ dims) maxDim pow2 (limitDims shape pow2 maxDim dims de) := by
  intro dims
  induction dims with
  | nil => intro done de g; simpa [limitDims] using g
  | cons i rest ih =>
    intro done de g
    unfold limitDims
    have hassoc : done ++ i :: rest = (done ++ [i]) ++ rest := by simp
    rw [hassoc]
    cases hl : lookupDim maxDim i with
    | none =>
      simp only
      apply ih
      apply g.extend_keep
      intro m hm; rw [hl] at hm; cases hm
    | some m =>
      simp only
      have hm1 := hpos i m hl
      split
      · rename_i hlt
        apply ih
        have hv : (if pow2 = true then floorPow2 m else m) ≤ m := by
          split
          · exact floorPow2_le hm1
          · exact Nat.le_refl m
        exact g.extend_set i _ (by omega)
          (by split
              · exact floorPow2_pos m
              · exact hm1)
          (by intro m' hl'; rw [hl] at hl'; cases hl'; exact hv)
          (by intro hp; simp only [hp, if_true]; exact floorPow2_isPow2 m)
      · rename_i hge
        apply ih
        apply g.extend_keep
        intro m' hm'
        rw [hl] at hm'; cases hm'
        have := g.le_shape i
        omega

/-- one iteration of the greedy split loop that did not `break` keeps the invariant -/
theorem split_step_good {shape dimsAll maxDim pow2 de} (g : Good shape dimsAll maxDim pow2 de)
    (itemsize maxBytes dim : Nat) (hlt : ¬ de.prod * itemsize ≤ maxBytes) :
    Good shape dimsAll maxDim pow2
      (de.set dim (targetElements pow2 (shape.getD dim 0) (de.getD dim 0 * maxBytes)
        (itemsize * de.prod))) := by
  by_cases hlen : dim < de.length
  · have hcur : 0 < de.prod := by
      rcases Nat.eq_zero_or_pos de.prod with h0 | h0
      · rw [h0] at hlt; simp at hlt
      · exact h0
    have hitem : 0 < itemsize := by
      rcases Nat.eq_zero_or_pos itemsize with h0 | h0
      · rw [h0] at hlt; simp at hlt
      · exact h0
    have hd := getD_pos_of_prod_pos de dim hcur hlen
    have hden : 0 < itemsize * de.prod := Nat.mul_pos hitem hcur
    have hmb : maxBytes < itemsize * de.prod := by rw [Nat.mul_comm]; omega
    have hnum : de.getD dim 0 * maxBytes < de.getD dim 0 * (itemsize * de.prod) :=
      Nat.mul_lt_mul_of_pos_left hmb hd
    have f := targetElements_facts pow2 (shape.getD dim 0) (de.getD dim 0 * maxBytes)
      (itemsize * de.prod) (de.getD dim 0) hden hnum hd (g.le_shape dim)
    refine g.set dim _ (Nat.le_trans f.2.1 (g.le_shape dim)) f.1 ?_ f.2.2.2.2
    intro m hmem hl
    exact Nat.le_trans f.2.1 (g.limit dim m hmem hl)
  · rw [List.set_eq_of_length_le (by omega)]; exact g

theorem splitLoop_good {shape dimsAll maxDim pow2} (itemsize maxBytes : Nat) :
    ∀ (dims de : List Nat), Good shape dimsAll maxDim pow2 de →
      Good shape dimsAll maxDim pow2 (splitLoop shape itemsize maxBytes pow2 dims de) := by
  intro dims
  induction dims with
  | nil => intro de g; simpa [splitLoop] using g
  | cons dim rest ih =>
    intro de g
    unfold splitLoop
    simp only
    split
    · exact g
    · rename_i hlt
      exact ih _ (split_step_good g itemsize maxBytes dim hlt)

/-- dimensions that are not in `dims_to_split` are never touched -/
theorem limitDims_frame (shape : List Nat) (pow2 : Bool) (maxDim : List (Nat × Nat)) :
    ∀ (dims de : List Nat) (i dflt : Nat), i ∉ dims →
      (limitDims shape pow2 maxDim dims de).getD i dflt = de.getD i dflt := by
  intro dims
  induction dims with
  | nil => intro de i d _; simp [limitDims]
  | cons j rest ih =>
    intro de i d hi
    have hij : j ≠ i := fun h => hi (by rw [h]; exact List.mem_cons_self ..)
    have hrest : i ∉ rest := fun h => hi (List.mem_cons_of_mem _ h)
    unfold limitDims
    split
    · split
      · rw [ih _ i d hrest, getD_set_ne _ _ _ _ _ hij]
      · exact ih _ i d hrest
    · exact ih _ i d hrest

theorem splitLoop_frame (shape : List Nat) (itemsize maxBytes : Nat) (pow2 : Bool) :
    ∀ (dims de : List Nat) (i dflt : Nat), i ∉ dims →
      (splitLoop shape itemsize maxBytes pow2 dims de).getD i dflt = de.getD i dflt := by
  intro dims
  induction dims with
  | nil => intro de i d _; simp [splitLoop]
  | cons j rest ih =>
    intro de i d hi
    have hij : j ≠ i := fun h => hi (by rw [h]; exact List.mem_cons_self ..)
    have hrest : i ∉ rest := fun h => hi (List.mem_cons_of_mem _ h)
    unfold splitLoop
    simp only
    split
    · rfl
    · rw [ih _ i d hrest, getD_set_ne _ _ _ _ _ hij]

theorem splitLoop_of_budget (shape : List Nat) (itemsize maxBytes : Nat) (pow2 : Bool)
    (dims de : List Nat) (h : de.prod * itemsize ≤ maxBytes) :
    splitLoop shape itemsize maxBytes pow2 dims de = de := by
  cases dims with
  | nil => simp [splitLoop]
  | cons d r => simp [splitLoop, h]

/-- **the budget**: when the loop ends either a chunk fits in `max_chunk_size` bytes, or every
    dimension that may be split is already down to one element per chunk -/
theorem splitLoop_budget {shape dimsAll maxDim pow2} (itemsize maxBytes : Nat) :
    ∀ (dims de : List Nat), Good shape dimsAll maxDim pow2 de → dims.Nodup →
      (splitLoop shape itemsize maxBytes pow2 dims de).prod * itemsize ≤ maxBytes ∨
      ∀ dim ∈ dims, (splitLoop shape itemsize maxBytes pow2 dims de).getD dim 1 = 1 := by
  intro dims
  induction dims with
  | nil => intro de _ _; right; intro d hd; simp at hd
  | cons dim rest ih =>
    intro de g hnd
    have hnotin : dim ∉ rest := (List.nodup_cons.mp hnd).1
    have hrest : rest.Nodup := (List.nodup_cons.mp hnd).2
    by_cases hb : de.prod * itemsize ≤ maxBytes
    · left; rw [splitLoop_of_budget _ _ _ _ _ _ hb]; exact hb
    · have hstep : splitLoop shape itemsize maxBytes pow2 (dim :: rest) de
          = splitLoop shape itemsize maxBytes pow2 rest
              (de.set dim (targetElements pow2 (shape.getD dim 0) (de.getD dim 0 * maxBytes)
                (itemsize * de.prod))) := by
        conv => lhs; unfold splitLoop
        simp [hb]
      rw [hstep]
      have g' := split_step_good g itemsize maxBytes dim hb
      have hcur : 0 < de.prod := by
        rcases Nat.eq_zero_or_pos de.prod with h0 | h0
        · rw [h0] at hb; simp at hb
        · exact h0
      have hitem : 0 < itemsize := by
        rcases Nat.eq_zero_or_pos itemsize with h0 | h0
        · rw [h0] at hb; simp at hb
        · exact h0
      have hden : 0 < itemsize * de.prod := Nat.mul_pos hitem hcur
      have hmb : maxBytes < itemsize * de.prod := by rw [Nat.mul_comm]; omega
      by_cases hlen : dim < de.length
      · have hd := getD_pos_of_prod_pos de dim hcur hlen
        have hnum : de.getD dim 0 * maxBytes < de.getD dim 0 * (itemsize * de.prod) :=
          Nat.mul_lt_mul_of_pos_left hmb hd
        have f := targetElements_facts pow2 (shape.getD dim 0) (de.getD dim 0 * maxBytes)
          (itemsize * de.prod) (de.getD dim 0) hden hnum hd (g.le_shape dim)
        generalize htrg : targetElements pow2 (shape.getD dim 0) (de.getD dim 0 * maxBytes)
          (itemsize * de.prod) = trg at *
        by_cases hcase : itemsize * de.prod ≤ de.getD dim 0 * maxBytes
        · -- the budget is met after this dimension
          left
          have hps := prod_set de dim trg hlen
          have hbud := f.2.2.1 hcase
          have hnew : (de.set dim trg).prod * itemsize ≤ maxBytes := by
            apply Nat.le_of_mul_le_mul_left (c := de.getD dim 0) _ hd
            calc de.getD dim 0 * ((de.set dim trg).prod * itemsize)
                = ((de.set dim trg).prod * de.getD dim 0) * itemsize := by
                  rw [← Nat.mul_assoc, Nat.mul_comm (de.getD dim 0)]
              _ = (de.prod * trg) * itemsize := by rw [hps]
              _ = trg * (itemsize * de.prod) := by
                  rw [Nat.mul_comm de.prod trg, Nat.mul_assoc, Nat.mul_comm de.prod itemsize]
              _ ≤ de.getD dim 0 * maxBytes := hbud
          rw [splitLoop_of_budget _ _ _ _ _ _ hnew]; exact hnew
        · have h1 : trg = 1 := f.2.2.2.1 (by omega)
          rcases ih _ g' hrest with h | h
          · left; exact h
          · right
            intro x hx
            rw [List.mem_cons] at hx
            rcases hx with hx | hx
            · subst hx
              rw [splitLoop_frame _ _ _ _ _ _ _ _ hnotin, getD_set_eq _ _ _ _ hlen]; exact h1
            · exact h x hx
      · rcases ih _ g' hrest with h | h
        · left; exact h
        · right
          intro x hx
          rw [List.mem_cons] at hx
          rcases hx with hx | hx
          · subst hx
            rw [splitLoop_frame _ _ _ _ _ _ _ _ hnotin, List.set_eq_of_length_le (by omega),
              getD_of_length_le _ _ _ (by omega)]
          · exact h x hx

theorem zipBlockdims_getD : ∀ (shape de : List Nat) (i : Nat), de.length = shape.length →
    i < shape.length →
    (zipBlockdims shape de).getD i [] = blockdims (shape.getD i 0) (de.getD i 0) := by
  intro shape
  induction shape with
  | nil => intro de i _ hi; simp at hi
  | cons d ds ih =>
    intro de i hlen hi
    cases de with
    | nil => simp at hlen
    | cons b bs =>
      cases i with
      | zero => simp [zipBlockdims]
      | succ k =>
        simp only [List.length_cons] at hlen hi
        simp only [zipBlockdims, List.getD_cons_succ]
        exact ih bs k (by omega) (by omega)

theorem zipBlockdims_length : ∀ (shape de : List Nat), de.length = shape.length →
    (zipBlockdims shape de).length = shape.length := by
  intro shape
  induction shape with
  | nil => intro de _; cases de <;> simp [zipBlockdims]
  | cons d ds ih =>
    intro de hlen
    cases de with
    | nil => simp at hlen
    | cons b bs =>
      simp only [List.length_cons] at hlen
      simp [zipBlockdims, ih bs (by omega)]

/-- the invariant holds for the block shape `generate_chunks` ends up with -/
theorem dimElements_good (shape : List Nat) (itemsize maxBytes : Nat) (dims : List Nat)
    (pow2 : Bool) (maxDim : List (Nat × Nat))
    (hpos : ∀ i m, lookupDim maxDim i = some m → 1 ≤ m) :
    Good shape dims maxDim pow2 (dimElements shape itemsize maxBytes dims pow2 maxDim) := by
  unfold dimElements
  apply splitLoop_good
  have := limitDims_good shape pow2 maxDim hpos dims [] shape (good_shape shape maxDim pow2)
  simpa using this

end ChunkStore
