/-
  C11 lemmas, part 3: `partition` cuts the per-dump list into its segments, and concatenating the
  parts gives the list back.
-/
import KatdalModel.Lemmas.CatOps
open Np

namespace Categorical

set_option linter.unusedSimpArgs false
set_option linter.unusedSectionVars false

variable {V : Type} [DecidableEq V]

/-! ### slices of written-out segments -/

/-- value in effect at dump `s`: that of the last pair starting at or before `s` -/
def curAt {α : Type} : α → List (α × Nat) → Nat → α
  | cur, [], _ => cur
  | cur, (y, d) :: t, s => if d ≤ s then curAt y t s else cur

theorem filter_all {α : Type} (p : α → Bool) (l : List α) (h : ∀ x ∈ l, p x = true) : l.filter p = l :=
  List.filter_eq_self.mpr h

theorem filter_none {α : Type} (p : α → Bool) (l : List α) (h : ∀ x ∈ l, p x = false) : l.filter p = [] := by
  apply List.filter_eq_nil_iff.mpr
  intro x hx
  simp [h x hx]

theorem drop_expandFrom {α : Type} (N : Nat) : ∀ (Q : List (α × Nat)) (a : Nat) (cur : α) (s : Nat),
    (a :: Q.map (·.2)).Pairwise (· ≤ ·) → a ≤ s →
    (expandFrom N a cur Q).drop (s - a) =
      expandFrom N s (curAt cur Q s) (Q.filter (fun p => decide (s < p.2))) := by
  intro Q
  induction Q with
  | nil =>
    intro a cur s _ has
    simp only [expandFrom, curAt, List.filter_nil, List.drop_replicate]
    congr 1; omega
  | cons p t ih =>
    intro a cur s hs has
    obtain ⟨y, d⟩ := p
    have hs' := List.pairwise_cons.mp hs
    have had : a ≤ d := hs'.1 d (by simp)
    have hst : (d :: t.map (·.2)).Pairwise (· ≤ ·) := by simpa using hs'.2
    simp only [expandFrom, curAt]
    by_cases hds : d ≤ s
    · have hns : ¬ s < d := by omega
      simp only [hds, if_true, List.filter_cons, hns, decide_false, Bool.false_eq_true, if_false]
      rw [← ih d y s hst hds]
      have : s - a = (d - a) + (s - d) := by omega
      rw [this, ← List.drop_drop]
      congr 1
      rw [List.drop_left' (by simp)]
    · have hsd : s < d := by omega
      have hall : ∀ q ∈ t, decide (s < q.2) = true := by
        intro q hq
        have := (List.pairwise_cons.mp hst).1 q.2 (List.mem_map_of_mem hq)
        simp only [decide_eq_true_eq]; omega
      simp only [hds, if_false, List.filter_cons, hsd, decide_true, if_true, filter_all _ t hall, expandFrom]
      rw [List.drop_append_of_le_length (by simp; omega), List.drop_replicate]
      congr 2; omega

theorem take_expandFrom {α : Type} (N : Nat) : ∀ (Q : List (α × Nat)) (a : Nat) (cur : α) (e : Nat),
    (a :: Q.map (·.2)).Pairwise (· ≤ ·) → a ≤ e → e ≤ N →
    (expandFrom N a cur Q).take (e - a) = expandFrom e a cur (Q.filter (fun p => decide (p.2 < e))) := by
  intro Q
  induction Q with
  | nil =>
    intro a cur e _ hae heN
    simp only [expandFrom, List.filter_nil, List.take_replicate]
    congr 1; omega
  | cons p t ih =>
    intro a cur e hs hae heN
    obtain ⟨y, d⟩ := p
    have hs' := List.pairwise_cons.mp hs
    have had : a ≤ d := hs'.1 d (by simp)
    have hst : (d :: t.map (·.2)).Pairwise (· ≤ ·) := by simpa using hs'.2
    simp only [expandFrom]
    by_cases hde : d < e
    · simp only [List.filter_cons, hde, decide_true, if_true, expandFrom]
      rw [← ih d y e hst (by omega) heN]
      have : e - a = (d - a) + (e - d) := by omega
      rw [this, List.take_append]
      simp only [List.length_replicate, Nat.add_sub_cancel_left]
      congr 1
      rw [List.take_of_length_le (by simp)]
    · have hall : ∀ q ∈ t, decide (q.2 < e) = false := by
        intro q hq
        have := (List.pairwise_cons.mp hst).1 q.2 (List.mem_map_of_mem hq)
        simp only [decide_eq_false_iff_not]; omega
      simp only [List.filter_cons, hde, decide_false, Bool.false_eq_true, if_false, filter_none _ t hall, expandFrom]
      rw [List.take_append_of_le_length (by simp; omega), List.take_replicate]
      congr 1; omega

theorem shift_expandFrom {α : Type} (s : Nat) : ∀ (Q : List (α × Nat)) (N a : Nat) (cur : α),
    (∀ p ∈ Q, s ≤ p.2) → s ≤ a → s ≤ N →
    expandFrom (N - s) (a - s) cur (Q.map (fun p => (p.1, p.2 - s))) = expandFrom N a cur Q := by
  intro Q
  induction Q with
  | nil =>
    intro N a cur _ hsa hsN
    simp only [List.map_nil, expandFrom]
    congr 1; omega
  | cons p t ih =>
    intro N a cur h hsa hsN
    obtain ⟨y, d⟩ := p
    have hd : s ≤ d := h (y, d) (List.mem_cons_self ..)
    simp only [List.map_cons, expandFrom]
    rw [ih N d y (fun q hq => h q (List.mem_cons_of_mem _ hq)) hd hsN]
    congr 2; omega

/-! ### one segment -/

theorem maskSelect_fst {α β : Type} (p : β → Bool) : ∀ (P : List (α × β)),
    maskSelect (P.map (·.1)) ((P.map (·.2)).map p) = (P.filter (fun q => p q.2)).map (·.1) := by
  intro P
  induction P with
  | nil => rfl
  | cons q t ih =>
    cases hq : p q.2 <;> simp only [List.map_cons, maskSelect, hq, List.filter_cons, Bool.false_eq_true, if_false,
      if_true, ih]

theorem maskSelect_snd {α β : Type} (p : β → Bool) : ∀ (P : List (α × β)),
    maskSelect (P.map (·.2)) ((P.map (·.2)).map p) = (P.filter (fun q => p q.2)).map (·.2) := by
  intro P
  induction P with
  | nil => rfl
  | cons q t ih =>
    cases hq : p q.2 <;> simp only [List.map_cons, maskSelect, hq, List.filter_cons, Bool.false_eq_true, if_false,
      if_true, ih]

theorem curAt_getNat : ∀ (Q : List (Nat × Nat)) (cur s : Nat),
    getNat (cur :: Q.map (·.1)) ((Q.map (·.2)).takeWhile (fun e => decide (e ≤ s))).length = .ok (curAt cur Q s) := by
  intro Q
  induction Q with
  | nil => intro cur s; simp [getNat, curAt]
  | cons p t ih =>
    intro cur s
    obtain ⟨y, d⟩ := p
    by_cases hds : d ≤ s
    · have := ih y s
      simp only [getNat] at this ⊢
      simp only [List.map_cons, List.takeWhile_cons, hds, decide_true, if_true, List.length_cons,
        List.getElem?_cons_succ, curAt]
      exact this
    · simp [getNat, curAt, hds]

theorem curAt_of_gt {α : Type} (cur : α) : ∀ (Q : List (α × Nat)) (s : Nat), (∀ p ∈ Q, s < p.2) → curAt cur Q s = cur := by
  intro Q s h
  cases Q with
  | nil => rfl
  | cons p t =>
    have := h p (List.mem_cons_self ..)
    obtain ⟨y, d⟩ := p
    have hn : ¬ d ≤ s := by simp only at this; omega
    simp [curAt, hn]

/-- on pairs sorted strictly by start: the pairs inside `[s, e)` are the pair starting exactly at
    `s` (which then carries the value in effect at `s`) followed by those strictly inside -/
theorem filter_segment (s e : Nat) : ∀ (P : List (Nat × Nat)) (cur : Nat), (P.map (·.2)).Pairwise (· < ·) →
    (P.filter (fun q => decide (s ≤ q.2 ∧ q.2 < e)) =
        (curAt cur P s, s) :: P.filter (fun q => decide (s < q.2 ∧ q.2 < e)) ∧
      (P.filter (fun q => decide (s ≤ q.2 ∧ q.2 < e))).head?.map (·.2) = some s) ∨
    (P.filter (fun q => decide (s ≤ q.2 ∧ q.2 < e)) = P.filter (fun q => decide (s < q.2 ∧ q.2 < e)) ∧
      (P.filter (fun q => decide (s ≤ q.2 ∧ q.2 < e))).head?.map (·.2) ≠ some s) := by
  intro P
  induction P with
  | nil => intro cur _; right; simp
  | cons p t ih =>
    intro cur hs
    obtain ⟨y, d⟩ := p
    have hs' := List.pairwise_cons.mp (by simpa using hs : (d :: t.map (·.2)).Pairwise (· < ·))
    by_cases h1 : d < s
    · have hn1 : ¬ (s ≤ d ∧ d < e) := by omega
      have hn2 : ¬ (s < d ∧ d < e) := by omega
      have hds : d ≤ s := by omega
      simp only [List.filter_cons, hn1, hn2, decide_false, Bool.false_eq_true, if_false, curAt, hds, if_true]
      exact ih y hs'.2
    · have hgt : ∀ q ∈ t, d < q.2 := fun q hq => hs'.1 q.2 (List.mem_map_of_mem hq)
      have hcongr : t.filter (fun q => decide (s ≤ q.2 ∧ q.2 < e)) = t.filter (fun q => decide (s < q.2 ∧ q.2 < e)) := by
        apply List.filter_congr
        intro q hq
        have := hgt q hq
        simp only [decide_eq_decide]
        constructor <;> (intro h; omega)
      by_cases h2 : d = s
      · subst h2
        by_cases hde : d < e
        · left
          have hcur : curAt cur ((y, d) :: t) d = y := by
            simp only [curAt, Nat.le_refl, if_true]
            exact curAt_of_gt y t d hgt
          have hn2 : ¬ (d < d ∧ d < e) := by omega
          have e1 : decide (d ≤ d ∧ d < e) = true := by simp [hde]
          have e2 : decide (d < d ∧ d < e) = false := by simp
          simp only [List.filter_cons, e1, e2, if_true, Bool.false_eq_true, if_false, hcur, hcongr,
            List.head?_cons, Option.map_some]
          exact ⟨trivial, trivial⟩
        · right
          have hn1 : ¬ (d ≤ d ∧ d < e) := by omega
          have hn2 : ¬ (d < d ∧ d < e) := by omega
          simp only [List.filter_cons, hn1, hn2, decide_false, Bool.false_eq_true, if_false, hcongr]
          refine ⟨trivial, ?_⟩
          intro hh
          cases hf : t.filter (fun q => decide (d < q.2 ∧ q.2 < e)) with
          | nil => rw [hf] at hh; simp at hh
          | cons q u =>
            rw [hf] at hh
            simp only [List.head?_cons, Option.map_some, Option.some.injEq] at hh
            have hq : q ∈ t.filter (fun q => decide (d < q.2 ∧ q.2 < e)) := by rw [hf]; exact List.mem_cons_self ..
            have := (List.mem_filter.mp hq).2
            simp only [decide_eq_true_eq] at this
            omega
      · right
        have hsd : s < d := by omega
        have heq : ((y, d) :: t).filter (fun q => decide (s ≤ q.2 ∧ q.2 < e)) =
            ((y, d) :: t).filter (fun q => decide (s < q.2 ∧ q.2 < e)) := by
          apply List.filter_congr
          intro q hq
          have : s < q.2 := by
            rcases List.mem_cons.mp hq with rfl | hq
            · exact hsd
            · have := hgt q hq; omega
          simp only [decide_eq_decide]
          constructor <;> (intro h; omega)
        refine ⟨heq, ?_⟩
        rw [heq]
        intro hh
        cases hf : ((y, d) :: t).filter (fun q => decide (s < q.2 ∧ q.2 < e)) with
        | nil => rw [hf] at hh; simp at hh
        | cons q u =>
          rw [hf] at hh
          simp only [List.head?_cons, Option.map_some, Option.some.injEq] at hh
          have hq : q ∈ ((y, d) :: t).filter (fun q => decide (s < q.2 ∧ q.2 < e)) := by
            rw [hf]; exact List.mem_cons_self ..
          have := (List.mem_filter.mp hq).2
          simp only [decide_eq_true_eq] at this
          omega

theorem curAt_mem (cur : Nat) : ∀ (Q : List (Nat × Nat)) (s : Nat), curAt cur Q s = cur ∨ curAt cur Q s ∈ Q.map (·.1) := by
  intro Q
  induction Q generalizing cur with
  | nil => intro s; left; rfl
  | cons p t ih =>
    intro s
    obtain ⟨y, d⟩ := p
    simp only [curAt]
    split
    · rcases ih y s with h | h
      · right; rw [h]; simp
      · right; simp only [List.map_cons, List.mem_cons]; exact Or.inr h
    · left; rfl

/-- **One segment of `partition`**: the container built for `[start, stop)` is well-formed, starts
    at dump 0, shares the unique values, covers `stop - start` dumps and its per-dump list is the
    slice `[start, stop)` of the parent's per-dump list. -/
theorem segment_spec (c : Cat V) (h : c.Part) (start stop : Nat) (hlt : start < stop) (hN : stop ≤ c.numDumps) :
    ∃ part : Cat V, part.Part ∧ part.uniq = c.uniq ∧ part.numDumps = stop - start ∧
      part.perDump = (c.perDump.drop start).take (stop - start) ∧
      ∀ (more : List Nat), Cat.partition.go c c.ev.dropLast (start :: stop :: more) =
        (do let r ← Cat.partition.go c c.ev.dropLast (stop :: more); pure (part :: r)) := by
  obtain ⟨i0, rest, hi, he⟩ := part_view c h
  have hstrict := strictInc_pairwise _ h.1.1
  rw [he] at hstrict
  have hrestS : (rest.map (·.2)).Pairwise (· < ·) := by
    have h1 := (List.pairwise_cons.mp hstrict).2
    exact (List.pairwise_append.mp h1).1
  have hrest0 : ∀ p ∈ rest, 0 < p.2 := fun p hp =>
    (List.pairwise_cons.mp hstrict).1 p.2 (List.mem_append_left _ (List.mem_map_of_mem hp))
  have hrestN : ∀ p ∈ rest, p.2 < c.numDumps := fun p hp =>
    (List.pairwise_append.mp (List.pairwise_cons.mp hstrict).2).2.2 p.2 (List.mem_map_of_mem hp) _ (by simp)
  have hdl : c.ev.dropLast = 0 :: rest.map (·.2) := by rw [he]; exact dropLast_cons_snoc _ _ _
  let cur' := curAt i0 rest start
  let S' := rest.filter (fun q => decide (start < q.2 ∧ q.2 < stop))
  let part : Cat V := { uniq := c.uniq, idx := cur' :: S'.map (·.1),
                        ev := 0 :: (S'.map (fun q => q.2 - start) ++ [stop - start]) }
  have hS'mem : ∀ q ∈ S', q ∈ rest ∧ start < q.2 ∧ q.2 < stop := by
    intro q hq
    have := List.mem_filter.mp hq
    exact ⟨this.1, by simpa using this.2⟩
  have hS'S : (S'.map (·.2)).Pairwise (· < ·) :=
    List.Pairwise.sublist (List.Sublist.map _ List.filter_sublist) hrestS
  have hpartN : part.numDumps = stop - start := by
    simp only [part, Cat.numDumps]; exact getLastD_cons_snoc _ _ _ _
  have hpartPart : part.Part := by
    refine ⟨⟨?_, by simp [part], ?_, h.1.2.2.2⟩, by simp [part], by simp [part]⟩
    · apply pairwise_lt_strictInc
      simp only [part]
      refine List.pairwise_cons.mpr ⟨?_, ?_⟩
      · intro x hx
        simp only [List.mem_append, List.mem_map, List.mem_singleton] at hx
        rcases hx with ⟨q, hq, rfl⟩ | rfl
        · have := hS'mem q hq; omega
        · omega
      · rw [List.pairwise_append]
        refine ⟨?_, by simp, ?_⟩
        · rw [List.pairwise_map]
          have := List.pairwise_map.mp hS'S
          refine List.Pairwise.imp_of_mem ?_ this
          intro a b ha hb hab
          have := hS'mem a ha; have := hS'mem b hb
          omega
        · intro a ha b hb
          simp only [List.mem_map] at ha
          obtain ⟨q, hq, rfl⟩ := ha
          simp only [List.mem_singleton] at hb
          subst hb
          have := hS'mem q hq; omega
    · intro i hi'
      simp only [part, List.mem_cons, List.mem_map] at hi'
      apply h.1.2.2.1
      rw [hi]
      rcases hi' with rfl | ⟨q, hq, rfl⟩
      · rcases curAt_mem i0 rest start with h1 | h1
        · simp only [cur', h1]; exact List.mem_cons_self ..
        · exact List.mem_cons_of_mem _ h1
      · exact List.mem_cons_of_mem _ (List.mem_map_of_mem (hS'mem q hq).1)
  refine ⟨part, hpartPart, rfl, hpartN, ?_, ?_⟩
  · -- per-dump slice
    rw [perDump_view part cur' 0 (S'.map (fun q => (q.1, q.2 - start))) (stop - start)
      (by simp [part, List.map_map, Function.comp]) (by simp [part, List.map_map, Function.comp])]
    rw [perDump_view c i0 0 rest c.numDumps hi he]
    simp only [List.replicate_zero, List.nil_append, ← List.map_drop, ← List.map_take]
    congr 1
    have hshift := shift_expandFrom start S' stop start cur' (fun q hq => by have := hS'mem q hq; omega)
      (Nat.le_refl _) (by omega)
    simp only [Nat.sub_self] at hshift
    rw [hshift]
    have hsorted0 : (0 :: rest.map (·.2)).Pairwise (· ≤ ·) :=
      List.pairwise_cons.mpr ⟨fun _ _ => Nat.zero_le _, hrestS.imp (fun h => Nat.le_of_lt h)⟩
    have hdrop := drop_expandFrom c.numDumps rest 0 i0 start hsorted0 (Nat.zero_le _)
    simp only [Nat.sub_zero] at hdrop
    rw [hdrop]
    have hsorted1 : (start :: (rest.filter (fun p => decide (start < p.2))).map (·.2)).Pairwise (· ≤ ·) := by
      refine List.pairwise_cons.mpr ⟨?_, ?_⟩
      · intro x hx
        simp only [List.mem_map] at hx
        obtain ⟨q, hq, rfl⟩ := hx
        have := (List.mem_filter.mp hq).2
        simp only [decide_eq_true_eq] at this; omega
      · exact (List.Pairwise.sublist (List.Sublist.map _ List.filter_sublist) hrestS).imp (fun h => Nat.le_of_lt h)
    rw [take_expandFrom c.numDumps _ start cur' stop hsorted1 (by omega) hN]
    rw [List.filter_filter]
    congr 1
    apply List.filter_congr
    intro q _
    simp only [Bool.and_eq_true, decide_eq_true_eq, Bool.decide_and]
    rw [Bool.and_comm]
  · -- the mirror builds exactly this container
    intro more
    have hk : ((0 :: rest.map (·.2)).takeWhile (fun e => decide (e ≤ start))).length =
        ((rest.map (·.2)).takeWhile (fun e => decide (e ≤ start))).length + 1 := by
      simp [List.takeWhile_cons]
    have hkle : ((rest.map (·.2)).takeWhile (fun e => decide (e ≤ start))).length ≤ rest.length := by
      have := (List.takeWhile_sublist (fun e => decide (e ≤ start)) (l := rest.map (·.2))).length_le
      simpa using this
    have hinit : getNat c.idx ((rest.map (·.2)).takeWhile (fun e => decide (e ≤ start))).length = .ok cur' := by
      rw [hi]; exact curAt_getNat rest i0 start
    have hmaskI : maskSelect c.idx ((0 :: rest.map (·.2)).map (fun e => decide (start ≤ e ∧ e < stop))) =
        (((i0, 0) :: rest).filter (fun q => decide (start ≤ q.2 ∧ q.2 < stop))).map (·.1) := by
      rw [hi]
      exact maskSelect_fst (fun e => decide (start ≤ e ∧ e < stop)) ((i0, 0) :: rest)
    have hmaskE : maskSelect (0 :: rest.map (·.2)) ((0 :: rest.map (·.2)).map (fun e => decide (start ≤ e ∧ e < stop))) =
        (((i0, 0) :: rest).filter (fun q => decide (start ≤ q.2 ∧ q.2 < stop))).map (·.2) :=
      maskSelect_snd (fun e => decide (start ≤ e ∧ e < stop)) ((i0, 0) :: rest)
    have hPS : (((i0, 0) :: rest).map (·.2)).Pairwise (· < ·) := by
      simp only [List.map_cons]
      exact List.pairwise_cons.mpr ⟨fun x hx => by
        simp only [List.mem_map] at hx; obtain ⟨q, hq, rfl⟩ := hx; exact hrest0 q hq, hrestS⟩
    have hS'eq : ((i0, 0) :: rest).filter (fun q => decide (start < q.2 ∧ q.2 < stop)) = S' := by
      have : ¬ (start < 0 ∧ 0 < stop) := by omega
      simp only [List.filter_cons, this, decide_false, Bool.false_eq_true, if_false, S']
    have hcur : curAt i0 ((i0, 0) :: rest) start = cur' := by
      simp only [curAt, Nat.zero_le, if_true, cur']
    have hlenEv : (0 :: rest.map (·.2)).length = c.idx.length := by rw [hi]; simp
    simp only [Cat.partition.go, hdl, hk, Nat.succ_ne_zero, if_false, Nat.add_sub_cancel, List.length_cons,
      List.length_map, Nat.min_eq_left hkle, hinit, bind, Except.bind, hmaskI, hmaskE]
    rcases filter_segment start stop ((i0, 0) :: rest) i0 hPS with ⟨hf, _⟩ | ⟨hf, hhead⟩
    · rw [hf, hS'eq, hcur]
      simp only [List.map_cons, Nat.sub_self, List.head?_cons, if_true, List.map_map, Function.comp, List.cons_append]
      rfl
    · rw [hf, hS'eq] at hhead ⊢
      have hne : ¬ (List.map ((fun e => e - start) ∘ fun (x : Nat × Nat) => x.snd) S').head? = some 0 := by
        intro hh
        cases hS : S' with
        | nil => rw [hS] at hh; simp at hh
        | cons q u =>
          rw [hS] at hh
          simp only [List.map_cons, List.head?_cons, Option.some.injEq, Function.comp] at hh
          have := hS'mem q (by rw [hS]; exact List.mem_cons_self ..)
          omega
      simp only [List.map_map, hne, if_false, List.cons_append]
      rfl

/-! ### the whole partition, and partition followed by concatenation -/

theorem slice_append {α : Type} (l : List α) (a b c : Nat) (hab : a ≤ b) (hbc : b ≤ c) :
    (l.drop a).take (b - a) ++ (l.drop b).take (c - b) = (l.drop a).take (c - a) := by
  have h1 : c - a = (b - a) + (c - b) := by omega
  rw [h1, List.take_add, List.drop_drop]
  congr 3
  omega

theorem go_spec_partition (c : Cat V) (h : c.Part) : ∀ (ss : List Nat) (s0 : Nat),
    (s0 :: ss).Pairwise (· < ·) → (s0 :: ss).getLastD 0 ≤ c.numDumps →
    ∃ parts, Cat.partition.go c c.ev.dropLast (s0 :: ss) = .ok parts ∧
      (∀ p ∈ parts, p.Part ∧ p.uniq = c.uniq) ∧ parts.length = ss.length ∧
      (parts.map Cat.perDump).flatten = (c.perDump.drop s0).take ((s0 :: ss).getLastD 0 - s0) ∧
      (parts.map Cat.numDumps) = List.zipWith (fun a b => b - a) (s0 :: ss) ss := by
  intro ss
  induction ss with
  | nil =>
    intro s0 _ _
    exact ⟨[], by simp [Cat.partition.go, pure, Except.pure], by simp, rfl, by simp [List.getLastD], by simp⟩
  | cons s1 ss' ih =>
    intro s0 hs hN
    have hs' := List.pairwise_cons.mp hs
    have h01 : s0 < s1 := hs'.1 s1 (List.mem_cons_self ..)
    have hlast : (s0 :: s1 :: ss').getLastD 0 = (s1 :: ss').getLastD 0 := getLastD_cons_cons ..
    rw [hlast] at hN
    have h1last : s1 ≤ (s1 :: ss').getLastD 0 :=
      sorted_head_le_last ss' s1 (hs'.2.imp (fun h => Nat.le_of_lt h))
    obtain ⟨part, hpart, hu, hn, hpd, hgo⟩ := segment_spec c h s0 s1 h01 (by omega)
    obtain ⟨parts', hgo', hall', hlen', hflat', hnum'⟩ := ih s1 hs'.2 hN
    refine ⟨part :: parts', ?_, ?_, by simp [hlen'], ?_, ?_⟩
    · rw [hgo ss', hgo']; rfl
    · intro p hp
      rcases List.mem_cons.mp hp with rfl | hp
      · exact ⟨hpart, hu⟩
      · exact hall' p hp
    · simp only [List.map_cons, List.flatten_cons, hpd, hflat', hlast]
      exact slice_append c.perDump s0 s1 _ (Nat.le_of_lt h01) h1last
    · simp only [List.map_cons, hn, hnum', List.zipWith_cons_cons]

/-- **partition**: for a series starting at dump 0 and strictly increasing segment starts inside
    the series, every part is well-formed, starts at dump 0, shares the unique values, and the
    per-dump lists of the parts are the consecutive slices of the parent's per-dump list. -/
theorem partition_spec (c : Cat V) (h : c.Part) (s0 : Nat) (ss : List Nat)
    (hs : (s0 :: ss).Pairwise (· < ·)) (hN : (s0 :: ss).getLastD 0 ≤ c.numDumps) :
    ∃ parts, c.partition (s0 :: ss) = .ok parts ∧
      (∀ p ∈ parts, p.Part ∧ p.uniq = c.uniq) ∧ parts.length = ss.length ∧
      (parts.map Cat.perDump).flatten = (c.perDump.drop s0).take ((s0 :: ss).getLastD 0 - s0) := by
  obtain ⟨parts, hgo, h1, h2, h3, _⟩ := go_spec_partition c h ss s0 hs hN
  refine ⟨parts, ?_, h1, h2, h3⟩
  obtain ⟨i0, rest, hi, he⟩ := part_view c h
  have hlen : c.ev.dropLast.length = c.idx.length := by
    rw [he, dropLast_cons_snoc, hi]; simp
  simp only [Cat.partition, hlen, ne_eq, not_true_eq_false, if_false, bind, Except.bind, pure, Except.pure]
  exact hgo

/-- **Partition followed by concatenation is the identity on the per-dump list**, with or
    without repeat removal, for every series that starts at dump 0 and every strictly increasing
    list of segment starts from 0 to the number of dumps. -/
theorem partition_concat_id (c : Cat V) (h : c.Part) (s1 : Nat) (ss : List Nat)
    (hs : (0 :: s1 :: ss).Pairwise (· < ·)) (hN : (0 :: s1 :: ss).getLastD 0 = c.numDumps) (rep : Bool) :
    ∃ parts c', c.partition (0 :: s1 :: ss) = .ok parts ∧ concatenate parts rep = .ok c' ∧
      c'.Part ∧ c'.perDump = c.perDump ∧ c'.numDumps = c.numDumps := by
  obtain ⟨parts, hp, hall, hlen, hflat⟩ := partition_spec c h 0 (s1 :: ss) hs (by omega)
  have hne : parts ≠ [] := by
    intro h0; rw [h0] at hlen; simp at hlen
  obtain ⟨c', hc, hc'part, hpd, hnum⟩ := concat_spec parts (fun p hp' => (hall p hp').1) hne rep
  have hpd' : c'.perDump = c.perDump := by
    rw [hpd, hflat, hN]
    simp only [List.drop_zero, Nat.sub_zero]
    rw [← perDump_length c h.1, List.take_length]
  refine ⟨parts, c', hp, hc, hc'part, hpd', ?_⟩
  rw [← perDump_length c' hc'part.1, ← perDump_length c h.1, hpd']

end Categorical
