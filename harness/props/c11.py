"""C11 - categorical container operations preserve the per-dump sequence as documented.

A case is an initial series (values, events) plus a sequence of operations.  Every operation is run
on real katdal.categorical.CategoricalData objects and on the Lean model (compiled driver kd_c11).
  * queries (indexing by int / slice / mask / list, comparison operators) must give the answers read off the
    explicit per-dump list (`Cat.perDump`, the spec side of the model);
  * mutators (add, remove, add_unmatched, align, remove_repeats, partition, operations on the parts,
    concatenate_categorical) must leave the per-dump list the model derives for the documented behaviour,
    strictly increasing event boundaries ending at the number of dumps, indices inside the unique values and
    pairwise distinct unique values.  A different but equivalent representation (order of unique_values,
    unused unique values) is only logged.
Float alphabets ('float' plain, 'wfloat' wrapped in ComparableArrayWrapper) mix ordinary floats (-inf .. inf) with
several NaN *objects*.  A value code stands for a number (even) or for one NaN object (odd); equal codes = the same
object, which is what Python's dict / list.index / `in` call the same value, while ==, <, ... follow IEEE (a NaN is
unordered with everything).  The driver runs these cases in `seqf` mode (NaN-aware mirrors, Model Part 4); the
comparison operators are judged three ways: real katdal == Lean spec side (IEEE relation on the per-dump list) ==
Python's own float comparison applied to the explicit per-dump list element by element.
A separate NaN stream checks well-formedness only for NaN inside arrays / numpy scalars.
"""
import copy
import json
import operator
import os
import re

import numpy as np

from harness import common
from harness.props.c10 import ALPHA, WRAPPED, code_of, values_equal   # value alphabets shared with C10

PROP = 'C11'
RULE = ('cases = (well-formed series of 1-12 dumps, 1-6 events, first event at dump 0 or later, value alphabets of '
        '2-4 codes realised as plain str / int or ComparableArrayWrapper-ed tuple / ndarray / unhashable list / str, '
        'followed by 1-7 operations drawn from: index by int / slice (any start, stop, step) / bool mask / int list '
        '(sorted, unsorted, repeated, empty; list or ndarray), comparison ==, !=, <, >, <=, >=, add(event, value or '
        'None), remove(value present / absent), add_unmatched(segments, match_dist), align(segments), '
        'remove_repeats, partition(segments) followed by add / remove / remove_repeats on single parts, '
        'concatenate_categorical(parts, allow_repeats), concatenation of two copies). Arguments are chosen from the '
        'current state of the series (in range, on boundaries, one past the end, unknown values). '
        'non-trivial = at least one mutator or multi-dump query ran without error on a series with >= 2 events; '
        'distinct = hash of the encoded operation sequence plus alphabet. Float stream: the same generator over the '
        'alphabets float / wfloat = 1-3 of the numbers -inf, -1.5, 0.0, 2.5, inf plus 0-2 of five NaN objects (three '
        'Python floats, np.nan, one np.float64), plain or wrapped in ComparableArrayWrapper, comparison operands '
        'plain or wrapped, numbers or NaN (present in the series or not), comparison operators drawn about three times as '
        'often; value identity = same object for NaN, == for numbers; query answers are compared by class (number / '
        'NaN). The tags nan:* give the number of cases with NaN in the series and, per operator, with NaN in the '
        'series / as operand / both / neither. NaN stream: series containing NaN (same object / distinct objects / '
        'numpy scalar / inside arrays), well-formedness only.')
TRUSTED = ['Lean 4.33 kernel', 'axioms: propext, Classical.choice, Quot.sound only',
           'hand-written mirror KatdalModel/Model/Categorical.lean (Part 3) tied to /repo by this differential run',
           'value equality: Python == (ComparableArrayWrapper.__eq__), hashing and dask tokenize are modelled as one '
           'decidable equality on value codes (NaN excluded, tested separately)',
           'ordering comparisons use alphabets whose Python order is the order of the codes',
           'float alphabets: a NaN object is one value (identity, as dict / list.index / the constructor treat it); '
           'comparisons, remove and the lookup in add follow IEEE == (FV.cmp); the expected comparison answers are '
           'also computed by Python float comparison on the explicit per-dump list']
CHECKER = 'lake build KatdalModel.Props.C11 kd_c11 && lake env lean <#print axioms audit>'

ORDERED = {'str', 'int', 'tuple', 'wstr'}     # alphabets re-sorted below so that code order = Python order
ALPHA11 = dict(ALPHA)
ALPHA11['str'] = sorted(ALPHA['str'])
ALPHA11['wstr'] = sorted(ALPHA['wstr'])
ALPHA11['int'] = sorted(ALPHA['int'])
ALPHAS = ['str', 'str', 'int', 'tuple', 'arr', 'list', 'wstr']

# float alphabets: code 2k = k-th number (ascending), code 2k+1 = k-th NaN object
FLOATS = ('float', 'wfloat')
NUMS = [float('-inf'), -1.5, 0.0, 2.5, float('inf')]
NANS = [float('nan'), float('nan'), float('nan'), np.nan, np.float64('nan')]
_FL = [None] * 10
_FL[0::2] = NUMS
_FL[1::2] = NANS
ALPHA11['float'] = _FL
ALPHA11['wfloat'] = _FL
ORDERED |= set(FLOATS)
WRAPPED11 = tuple(WRAPPED) + ('wfloat',)
FLOAT_ALPHAS = ['float', 'float', 'float', 'wfloat']
PYOP = {'eq': operator.eq, 'ne': operator.ne, 'lt': operator.lt, 'gt': operator.gt, 'le': operator.le,
        'ge': operator.ge}


def is_nan_code(alpha, code):
    return alpha in FLOATS and code is not None and code % 2 == 1


def cls(alpha, code):
    """class of a value code as far as a query answer can show it: every NaN looks alike in an ndarray"""
    return -1 if is_nan_code(alpha, code) else code


def code11(alpha, obj):
    from katdal.categorical import ComparableArrayWrapper
    obj = ComparableArrayWrapper.unwrap(obj)
    if alpha in FLOATS:
        if isinstance(obj, (float, np.floating)) and obj != obj:
            for c, o in enumerate(ALPHA11[alpha]):      # a NaN is the object it is
                if o is obj:
                    return c
            return None
        for c, o in enumerate(ALPHA11[alpha]):
            if c % 2 == 0 and isinstance(obj, (float, np.floating, int)) and o == obj:
                return c
        return None
    for c, o in enumerate(ALPHA11[alpha]):
        if values_equal(o, obj):
            return c
    return None


def class_of(alpha, obj):
    """code of a number, -1 for any NaN (query answers come back through np.array: the NaN object is gone)"""
    if alpha in FLOATS and isinstance(obj, (float, np.floating)) and obj != obj:
        return -1
    return code11(alpha, obj)


def wrap(alpha, obj):
    from katdal.categorical import ComparableArrayWrapper
    return ComparableArrayWrapper(obj) if alpha in WRAPPED11 else obj


# ------------------------------------------------------------------ encoding

def enc_list(l):
    return ','.join(str(int(v)) for v in l) if len(l) else '-'


def enc_key(key):
    k = key[0]
    if k == 'i':
        return f'i:{key[1]}'
    if k == 's':
        return 's:' + ':'.join('_' if v is None else str(v) for v in key[1:])
    if k == 'm':
        return 'm:' + (''.join('1' if b else '0' for b in key[1]) or '-')
    return 'l:' + enc_list(key[1])


def enc_op(op):
    o = op[0]
    if o == 'get':
        return 'get ' + enc_key(op[1])
    if o == 'cmp':
        # a 4th element: the operand is an alphabet value under ANOTHER shape (equal only after broadcasting), which
        # is a value no dump holds: the model is asked about an absent code
        return f'cmp {op[1]} {op[2] + 900 if len(op) > 3 else op[2]}'
    if o == 'add':
        return f"add {op[1]} {'_' if op[2] is None else op[2]}"
    if o == 'remove':
        return f'remove {op[1]}'
    if o == 'addun':
        return f'addun {enc_list(op[1])} {op[2]}'
    if o == 'align':
        return f'align {enc_list(op[1])}'
    if o == 'rr':
        return 'rr'
    if o == 'part':
        return f'part {enc_list(op[1])}'
    if o == 'padd':
        return f"padd {op[1]} {op[2]} {'_' if op[3] is None else op[3]}"
    if o == 'premove':
        return f'premove {op[1]} {op[2]}'
    if o == 'prr':
        return f'prr {op[1]}'
    if o == 'concat':
        return f"concat {'1' if op[1] else '0'}"
    if o == 'dup':
        return 'dup'
    raise ValueError(op)


def request_line(case, uniq_idx_ev):
    u, i, e = uniq_idx_ev
    ops = [enc_op(op) for op in case['ops']]
    mode = 'seqf' if case['alpha'] in FLOATS else 'seq'
    return ' :: '.join([f'{mode} {enc_list(u)}|{enc_list(i)}|{enc_list(e)}'] + ops + ['perdump'])


# ------------------------------------------------------------------ implementation side

class Impl:
    """The real objects: `main` and the list of parts produced by partition / dup."""

    def __init__(self, case):
        from katdal.categorical import CategoricalData
        self.alpha = case['alpha']
        objs = ALPHA11[self.alpha]
        self.main = CategoricalData([wrap(self.alpha, objs[c]) for c in case['vals']], list(case['events']))
        self.parts = []

    def obj(self, code):
        return ALPHA11[self.alpha][code]

    def state_of(self, c):
        return ([code11(self.alpha, v) for v in c.unique_values],
                [int(i) for i in np.asarray(c.indices).tolist()],
                [int(e) for e in np.asarray(c.events).tolist()])

    def state(self):
        return [self.state_of(self.main)] + [self.state_of(p) for p in self.parts]

    def decode_many(self, res):
        res = np.asarray(res)
        if res.ndim <= 1:
            return [class_of(self.alpha, v) for v in res.tolist()] if res.dtype != object else \
                [class_of(self.alpha, v) for v in res]
        out = []
        for row in res:
            found = None
            for c, o in enumerate(ALPHA11[self.alpha]):
                try:
                    if np.array_equal(row, np.array(o).astype(res.dtype)):
                        found = c
                        break
                except Exception:   # noqa: BLE001
                    pass
            out.append(found)
        return out

    def run(self, op, as_array):
        """-> ('state', states) | ('one', code) | ('many', codes) | ('bools', list) ; raises on error"""
        from katdal.categorical import ComparableArrayWrapper, concatenate_categorical
        o = op[0]
        if o == 'get':
            key = op[1]
            if key[0] == 'i':
                r = self.main[np.int64(key[1]) if as_array else key[1]]
                return ('one', code11(self.alpha, r))
            if key[0] == 's':
                k = slice(key[1], key[2], key[3])
            elif key[0] == 'm':
                k = np.array(key[1], dtype=bool) if as_array else list(key[1])
            else:
                k = np.array(key[1], dtype=int) if as_array else list(key[1])
            return ('many', self.decode_many(self.main[k]))
        if o == 'cmp':
            v = self.obj(op[2])
            if len(op) > 3:
                v = np.array(v)[None, ...] if op[3] == 'lead' else np.tile(np.array(v), (2,) + (1,) * np.ndim(v))
            if self.alpha in FLOATS and as_array:
                v = ComparableArrayWrapper(v)       # operand handed over wrapped
            m = self.main
            r = {'eq': lambda: m == v, 'ne': lambda: m != v, 'lt': lambda: m < v, 'gt': lambda: m > v,
                 'le': lambda: m <= v, 'ge': lambda: m >= v}[op[1]]()
            return ('bools', [bool(b) for b in np.asarray(r).tolist()])
        if o == 'add':
            if op[2] is None:
                self.main.add(op[1])
            else:
                self.main.add(op[1], self.obj(op[2]))
        elif o == 'remove':
            self.main.remove(self.obj(op[1]))
        elif o == 'addun':
            self.main.add_unmatched(np.array(op[1], dtype=int) if as_array else list(op[1]), op[2])
        elif o == 'align':
            self.main.align(np.array(op[1], dtype=int))
        elif o == 'rr':
            self.main.remove_repeats()
        elif o == 'part':
            self.parts = list(self.main.partition(np.array(op[1], dtype=int) if as_array else list(op[1])))
        elif o == 'padd':
            if op[3] is None:
                self.parts[op[1]].add(op[2])
            else:
                self.parts[op[1]].add(op[2], self.obj(op[3]))
        elif o == 'premove':
            self.parts[op[1]].remove(self.obj(op[2]))
        elif o == 'prr':
            self.parts[op[1]].remove_repeats()
        elif o == 'concat':
            self.main = concatenate_categorical(self.parts, allow_repeats=op[1])
            self.parts = []
        elif o == 'dup':
            self.parts = [copy.deepcopy(self.main), copy.deepcopy(self.main)]
        else:
            raise ValueError(op)
        return ('state', self.state())


def run_impl(case):
    """-> list of per-op results: ('err', name) | ('state', ...) | ..."""
    out = []
    try:
        impl = Impl(case)
    except Exception as e:   # noqa: BLE001
        return None, [('err', type(e).__name__)]
    init = impl.state_of(impl.main)
    for k, op in enumerate(case['ops']):
        try:
            out.append(impl.run(op, case['arr'][k % len(case['arr'])]))
        except Exception as e:   # noqa: BLE001
            out.append(('err', type(e).__name__))
            break
    return init, out


# ------------------------------------------------------------------ generator (adaptive: looks at the real state)

def gen_segments(rng, N, proper=True):
    if N <= 0:
        return [0]
    if proper:
        inner = sorted(rng.sample(range(1, N), min(N - 1, rng.randint(0, 3)))) if N > 1 else []
        return [0] + inner + [N]
    k = rng.randint(1, 4)
    return sorted(rng.sample(range(0, N + 3), min(k, N + 3)))


def gen_key(rng, N):
    r = rng.random()
    if r < 0.25:
        return ('i', rng.randint(0, max(0, N - 1)) if rng.random() < 0.85 else rng.choice([-1, N, N + 2, -N]))
    if r < 0.5:
        def comp():
            return None if rng.random() < 0.3 else rng.randint(-N - 2, N + 2)
        st = rng.choice([None, 1, 1, 2, 3, -1, -2]) if rng.random() < 0.97 else 0
        return ('s', comp(), comp(), st)
    if r < 0.7:
        return ('m', [rng.random() < 0.5 for _ in range(N)])
    k = rng.choice([0, 1, 2, 3, 5])
    l = [rng.randint(0, max(0, N - 1)) for _ in range(k)]
    if rng.random() < 0.3:
        l.sort()
    if l and rng.random() < 0.07:
        l[rng.randrange(len(l))] = rng.choice([-1, N])
    return ('l', l)


def gen_op(rng, impl, codes, ncodes):
    """one operation chosen from the real current state"""
    ev = [int(e) for e in np.asarray(impl.main.events).tolist()]
    N = ev[-1] if ev else 0
    present = [code11(impl.alpha, v) for v in impl.main.unique_values]
    present = [c for c in present if c is not None]
    r = rng.random()
    if impl.parts:
        q = rng.random()
        k = rng.randrange(len(impl.parts))
        pev = [int(e) for e in np.asarray(impl.parts[k].events).tolist()]
        pN = pev[-1] if pev else 0
        if q < 0.45:
            return ('concat', rng.random() < 0.4)
        if q < 0.65 and pN > 0:
            return ('padd', k, rng.randint(0, pN - 1), rng.choice(codes + [None, rng.randrange(ncodes)]))
        if q < 0.85 and present:
            return ('premove', k, rng.choice(present + [rng.randrange(ncodes)]))
        return ('prr', k)
    if impl.alpha in FLOATS and rng.random() < 0.22:
        return ('cmp', rng.choice(['eq', 'ne', 'lt', 'gt', 'le', 'ge']),
                rng.choice(codes + present + [rng.randrange(ncodes)]))
    if r < 0.22:
        return ('get', gen_key(rng, N))
    if r < 0.34:
        ops = ['eq', 'ne'] + (['lt', 'gt', 'le', 'ge'] if impl.alpha in ORDERED else [])
        if impl.alpha in ('arr', 'tuple') and rng.random() < 0.35:
            return ('cmp', rng.choice(['eq', 'ne']), rng.choice(codes), rng.choice(['lead', 'tile']))
        return ('cmp', rng.choice(ops), rng.choice(codes + [rng.randrange(ncodes)]))
    if r < 0.50 and N > 0:
        e = rng.choice(ev[:-1] + [rng.randint(0, N - 1)] * 3) if rng.random() < 0.93 else rng.choice([N, N + 1])
        v = rng.choice(codes + [None, None, rng.randrange(ncodes)])
        return ('add', e, v)
    if r < 0.62:
        return ('remove', rng.choice((present or codes) * 3 + [rng.randrange(ncodes)]))
    if r < 0.70:
        return ('addun', gen_segments(rng, N, rng.random() < 0.6), rng.choice([0, 1, 1, 2]))
    if r < 0.79:
        return ('align', gen_segments(rng, N, rng.random() < 0.8))
    if r < 0.86:
        return ('rr',)
    if r < 0.95 and N > 0:
        return ('part', gen_segments(rng, N, True))
    return ('dup',)


def gen_case(rng, alphas=ALPHAS):
    alpha = rng.choice(alphas)
    ncodes = len(ALPHA11[alpha])
    if alpha in FLOATS:
        codes = [2 * k for k in rng.sample(range(len(NUMS)), rng.randint(1, 3))] + \
                [2 * k + 1 for k in rng.sample(range(len(NANS)), rng.choice([0, 1, 1, 1, 2, 2]))]
    else:
        codes = rng.sample(range(ncodes), min(ncodes, rng.randint(2, 4)))
    N = rng.randint(1, 12)
    n = rng.randint(1, min(6, N))
    first = 0 if rng.random() < 0.88 else rng.randint(0, N - n)
    rest = sorted(rng.sample(range(first + 1, N), min(n - 1, N - first - 1))) if N - first - 1 > 0 else []
    events = [first] + rest + [N]
    vals = [rng.choice(codes) for _ in events[:-1]]
    directed = None
    if len(events) >= 3 and len(events) - 1 <= ncodes and rng.random() < 0.12:
        # every event has its own value; an add() then overrides one event with its predecessor's value, which
        # leaves a repeat AND an unused entry in unique_values (as many events as unique values), and the
        # repeats are removed afterwards
        vals = rng.sample(range(ncodes), len(events) - 1)
        k = rng.randrange(1, len(events) - 1)
        directed = [('add', events[k], vals[k - 1]), ('rr',)]
    if directed is None and N >= 5 and len(events) >= 3 and rng.random() < 0.08 and alpha not in FLOATS:
        # the first value is removed (the series then starts after dump 0) and add_unmatched is given segment starts
        # before the range followed by unmatched ones inside it: the former are ignored, the latter added
        first_val = vals[0]
        vals = [first_val] + [v if v != first_val else rng.choice([c for c in codes if c != first_val] or [first_val])
                              for v in vals[1:]]
        if all(v != first_val for v in vals[1:]):
            inner = sorted(rng.sample(range(1, N), min(N - 1, rng.randint(2, 4))))
            directed = [('remove', first_val), ('addun', [0] + inner + [N], rng.choice([0, 0, 1]))]
    case = dict(kind='seq', alpha=alpha, vals=vals, events=events, ops=[],
                arr=[rng.random() < 0.5 for _ in range(5)])
    try:
        impl = Impl(case)
    except Exception:   # noqa: BLE001
        return case
    if directed:
        for k, op in enumerate(directed):
            case['ops'].append(op)
            try:
                impl.run(op, case['arr'][k % len(case['arr'])])
            except Exception:   # noqa: BLE001
                return case
        if rng.random() < 0.5:
            return case
    k0 = len(case['ops'])
    for k in range(k0, k0 + rng.randint(1, 7)):
        op = gen_op(rng, impl, codes, ncodes)
        case['ops'].append(op)
        try:
            impl.run(op, case['arr'][k % len(case['arr'])])
        except Exception:   # noqa: BLE001
            break
    return case


# ------------------------------------------------------------------ judging

def per_dump(state):
    u, i, e = state
    out = [None] * (e[0] if e else 0)
    for a, b, k in zip(e[:-1], e[1:], i):
        out += [u[k] if 0 <= k < len(u) else None] * max(0, b - a)
    return out


def distinct_problem(state):
    u = state[0]
    if len(set(u)) != len(u):
        return f'unique values are not distinct: {u}'
    return None


def wf_problem(state, distinct=True):
    u, i, e = state
    if any(b <= a for a, b in zip(e[:-1], e[1:])):
        return f'event boundaries {e} are not strictly increasing'
    if len(e) != len(i) + 1:
        return f'{len(i)} indices for {len(e)} event boundaries'
    if any(not (0 <= k < len(u)) for k in i):
        return f'indices {i} outside unique values {u}'
    if any(c is None for c in u):
        return f'unique values contain a value that never entered the series: {u}'
    return distinct_problem(state) if distinct else None


def nan_only_duplicates(alpha, what):
    """the text reports unique values that are not distinct and every repeated entry is a NaN code"""
    m = re.search(r'unique values are not distinct: \[([0-9, ]*)\]$', what)
    if alpha not in FLOATS or not m:
        return False
    u = [int(x) for x in m.group(1).split(',') if x.strip()]
    rep = {c for c in u if u.count(c) > 1}
    return bool(rep) and all(c % 2 == 1 for c in rep)


def parse_state(s):
    def f(x):
        return [] if x == '-' else [int(v) for v in x.split(',')]
    out = []
    for part in s.split('#'):
        u, i, e = part.split('|')
        out.append((f(u), f(i), f(e)))
    return out


def parse_perdump(s):
    return [] if s == '-' else [None if v == '_' else int(v) for v in s.split(',')]


def resolve_key(key, N):
    """dump numbers selected by the key on the explicit per-dump list; None = outside the documented domain"""
    if key[0] == 'i':
        return [key[1]] if 0 <= key[1] else None
    if key[0] == 's':
        if key[3] == 0:
            return None
        return list(range(N))[slice(key[1], key[2], key[3])]
    if key[0] == 'm':
        return [k for k, b in enumerate(key[1]) if b] if len(key[1]) == N else None
    return list(key[1]) if all(k >= 0 for k in key[1]) else None


MUTATORS = ('add', 'remove', 'addun', 'align', 'rr', 'part', 'padd', 'premove', 'prr', 'concat', 'dup')


def judge(ctx, case, init, impl_res, model_replies, tags, dup_reported=False):
    """-> list of violation texts.  model_replies: one per op, then the final `perdump`.
    A NaN object entered twice into the unique values (float alphabets) is reported once per case, at the
    operation where it first shows, and the sequence is judged on (every other check stays in force)."""
    out = []
    cur_pd = per_dump(init)       # spec side: per-dump list of the model's main series before each op
    model_states = [[init]]
    for k, op in enumerate(case['ops']):
        v = judge_op(ctx, case, init, impl_res, model_replies, tags, k, op, cur_pd, model_states)
        if v == 'STOP':
            return out
        if v and nan_only_duplicates(case['alpha'], v):
            if not dup_reported:
                out.append(f'op#{k}: {v}')
                dup_reported = True
        elif v:
            out.append(f'op#{k}: {v}')
            return out
        if op[0] in MUTATORS:
            cur_pd = per_dump(model_states[-1][0])
    return out


def judge_op(ctx, case, init, impl_res, model_replies, tags, k, op, cur_pd, model_states):
    """one operation: violation text, 'STOP' (sequence left the documented domain) or None"""
    if True:
        if k >= len(impl_res):
            return 'STOP'
        mrep = model_replies[k]
        kind = impl_res[k][0]
        o = op[0]
        tags.add('op-' + o)
        if mrep == 'bad-op':
            raise common.Broken(f'driver rejected {enc_op(op)}')
        if mrep.startswith('E:'):
            tags.add('outside-domain:' + o)
            if kind != 'err':
                ctx.advise(f'implementation accepted {enc_op(op)} which the model rejects ({mrep}) in '
                           f'{request_line(case, init)}')
            return 'STOP'
        if o == 'get':
            N = len(cur_pd)
            dumps = resolve_key(op[1], N)
            if dumps is None:
                tags.add('outside-domain:get')
                return None
            if any(not (0 <= d < N) or cur_pd[d] is None for d in dumps):
                tags.add('get-outside-event-range')
                if kind != 'err':
                    ctx.advise(f'implementation answered {enc_op(op)} outside the event range')
                    return None
                return 'STOP'
            want = [cur_pd[d] for d in dumps]
            if kind == 'err':
                return f"{enc_op(op)} raised {impl_res[k][1]} where the per-dump list gives {want}"
            got = [impl_res[k][1]] if kind == 'one' else impl_res[k][1]
            if (kind == 'one') != (op[1][0] == 'i'):
                return f'{enc_op(op)} returned a {"scalar" if kind == "one" else "sequence"}'
            m = [int(mrep[2:])] if mrep.startswith('o:') else ([] if mrep[2:] == '-' else [int(x) for x in mrep[2:].split(',')])
            if kind != 'one':      # a sequence comes back as an ndarray: a NaN no longer is the object it was
                want = [cls(case['alpha'], x) for x in want]
                m = [cls(case['alpha'], x) for x in m]
            if case['alpha'] in FLOATS and any(is_nan_code(case['alpha'], x) or x == -1 for x in want):
                tags.add('nan:get-returns-nan')
            if got != want:
                return f'{enc_op(op)} returned {got}, the per-dump list gives {want}'
            if m != want:
                ctx.advise(f'mirror getitem {mrep} differs from its own per-dump list {want}')
            return None
        if o == 'cmp':
            if kind == 'err':
                return f'{enc_op(op)} raised {impl_res[k][1]}'
            if case['alpha'] in FLOATS:
                return judge_float_cmp(ctx, case, op, cur_pd, impl_res[k][1], mrep, tags)
            v = op[2] + 900 if len(op) > 3 else op[2]
            if len(op) > 3:
                tags.add('cmp-other-shape')
            f = {'eq': lambda x: x == v, 'ne': lambda x: x != v, 'lt': lambda x: x < v, 'gt': lambda x: x > v,
                 'le': lambda x: x <= v, 'ge': lambda x: x >= v}[op[1]]
            want = [None if x is None else f(x) for x in cur_pd]
            got = impl_res[k][1]
            if len(got) != len(want) or any(w is not None and g != w for g, w in zip(got, want)):
                return f'{enc_op(op)} returned {got}, comparing the per-dump list gives {want}'
            return None
        # mutators
        if o in ('add', 'padd'):
            tgt = model_states[-1][0] if o == 'add' else model_states[-1][1 + op[1]]
            ev_arg = op[1] if o == 'add' else op[2]
            if ev_arg >= tgt[2][-1]:
                # "dump of event to add" at or past the number of dumps: not a dump of the series
                tags.add('outside-domain:add-past-end')
                return 'STOP'
        mstates = parse_state(mrep)
        if kind == 'err':
            return f'{enc_op(op)} raised {impl_res[k][1]} where the documented behaviour is defined ({mrep})'
        istates = impl_res[k][1]
        if len(istates) != len(mstates):
            return f'{enc_op(op)} left {len(istates) - 1} parts, expected {len(mstates) - 1}'
        dup = None
        for which, (ist, mst) in enumerate(zip(istates, mstates)):
            name = 'series' if which == 0 else f'part {which - 1}'
            p = wf_problem(ist, distinct=False)
            if p:
                return f'after {enc_op(op)} the {name} is malformed: {p}'
            if per_dump(ist) != per_dump(mst):
                return (f'after {enc_op(op)} the per-dump values of the {name} are {per_dump(ist)}, '
                        f'documented behaviour gives {per_dump(mst)}')
            q = distinct_problem(ist)
            if q and not nan_only_duplicates(case['alpha'], q):
                return f'after {enc_op(op)} the {name} is malformed: {q}'
            if q and dup is None:
                dup = f'after {enc_op(op)} the {name} is malformed: {q}'
            if ist != mst:
                tags.add('representation-differs(advisory)')
            elif case['alpha'] in FLOATS and o in ('add', 'padd', 'remove', 'premove', 'concat'):
                tags.add('nan:mirror-state-identical-' + o)
        model_states.append(mstates)
        return dup
    return None


def judge_float_cmp(ctx, case, op, cur_pd, got, mrep, tags):
    """comparison on a float series: implementation == Lean spec side == Python floats compared dump by dump"""
    alpha, name, v = case['alpha'], op[1], op[2]
    if '/' not in mrep:
        raise common.Broken(f'driver reply {mrep!r} to {enc_op(op)} in float mode')
    mirror, spec = [[None if ch == '_' else ch == '1' for ch in ('' if part == '-' else part)]
                    for part in mrep.split('/')]
    objs = ALPHA11[alpha]
    python = [None if x is None else bool(PYOP[name](objs[x], objs[v])) for x in cur_pd]
    if mirror != spec or spec != python:
        raise common.Broken(f'{enc_op(op)} on per-dump list {cur_pd}: Lean mirror {mirror}, Lean spec {spec}, '
                            f'Python floats {python}')
    series_nan = any(is_nan_code(alpha, x) for x in cur_pd)
    operand_nan = is_nan_code(alpha, v)
    tags.add(f"nan:cmp-{name}:" + ('both' if series_nan and operand_nan else 'series-nan' if series_nan
                                   else 'operand-nan' if operand_nan else 'none'))
    ctx.extra.setdefault('nan_comparisons', {}).setdefault(name, {'nan_involved': 0, 'numbers_only': 0})[
        'nan_involved' if series_nan or operand_nan else 'numbers_only'] += 1
    if len(got) != len(spec) or any(w is not None and g != w for g, w in zip(got, spec)):
        return (f'{enc_op(op)} returned {got}, comparing the per-dump list {cur_pd} element by element gives '
                f'{spec} (codes: even = number by rank, odd = NaN)')
    return None


def evaluate(ctx, cases, count=True):
    lines, inits, impls = [], [], []
    for c in cases:
        init, res = run_impl(c)
        inits.append(init)
        impls.append(res)
        lines.append(request_line(c, init) if init is not None else 'seq -|-|- :: perdump')
    replies = common.run_model(PROP, lines)
    bad = []
    for c, init, res, line, rep in zip(cases, inits, impls, lines, replies):
        tags = {'alpha-' + c['alpha']}
        if init is None:
            vs = [f'constructor raised {res[0][1]}']
        else:
            if c['alpha'] in FLOATS:
                tags.add('nan:series-with-nan' if any(is_nan_code(c['alpha'], x) for x in c['vals'])
                         else 'nan:series-without-nan')
            q = distinct_problem(init)
            if wf_problem(init, distinct=False):
                vs = ['constructor: ' + wf_problem(init, distinct=False)]
            elif per_dump(init)[init[2][0]:] != [x for a, b, x in zip(init[2][:-1], init[2][1:], c['vals'])
                                                 for _ in range(b - a)]:
                vs = [f'constructor: per-dump values {per_dump(init)} differ from the given values']
            elif q and not nan_only_duplicates(c['alpha'], q):
                vs = ['constructor: ' + q]
            else:
                vs = (['constructor: ' + q] if q else []) + \
                    judge(ctx, c, init, res, rep.split(' :: '), tags, dup_reported=bool(q))
        if count:
            ctx.tag(*sorted(tags))
            ran = [r for r in res if r[0] != 'err']
            nontriv = init is not None and len(init[1]) >= 2 and any(
                op[0] in MUTATORS or (op[0] == 'get' and op[1][0] != 'i') for op, r in zip(c['ops'], ran))
            ctx.count((line, c['alpha']), nontriv, sample={'request': line[:300], 'alphabet': c['alpha'],
                                                           'model': rep[:300]})
        for v in vs:
            bad.append((c, v))
    return bad


# ------------------------------------------------------------------ NaN stream: well-formedness only

def nan_stream(ctx, n):
    from katdal.categorical import CategoricalData, ComparableArrayWrapper, concatenate_categorical
    bad = []
    for _ in range(n):
        rng = ctx.rng
        N = rng.randint(2, 10)
        k = rng.randint(1, min(5, N))
        events = [0] + sorted(rng.sample(range(1, N), min(k - 1, N - 1))) + [N]
        shared = float('nan')
        style = rng.choice(['shared', 'fresh', 'np', 'array', 'ndarray'])

        def nan():
            if style == 'shared':
                return shared
            if style in ('fresh', 'ndarray'):
                return float('nan')
            if style == 'np':
                return np.float64('nan')
            return ComparableArrayWrapper(np.array([1.0, np.nan]))
        pool = [1.5, 2.5] if style != 'array' else [ComparableArrayWrapper(np.array([1.0, 2.0]))]
        vals = [nan() if rng.random() < 0.5 else rng.choice(pool) for _ in events[:-1]]
        case = dict(kind='nan', style=style, events=events, nanmask=[isinstance(v, float) and v != v for v in vals])
        if style == 'ndarray':
            # the values handed over as one float array (what sensor_to_categorical passes): the series must be built
            # and must read back, dump for dump, what was given (NaN where NaN was given)
            vals = np.array([float('nan') if isinstance(v, float) and v != v else v for v in vals])
            try:
                c0 = CategoricalData(vals, events)
                pd = [c0[d] for d in range(N)]
            except Exception as e:   # noqa: BLE001
                bad.append((case, f'series built from the float array {vals.tolist()} with events {events}: '
                                  f'{type(e).__name__}: {e}'))
                ctx.tag('nan-ndarray-raised')
                continue
            want = [vals[j] for j in range(len(vals)) for _ in range(events[j + 1] - events[j])]
            if any(not (a == b or (a != a and b != b)) for a, b in zip(pd, want)):
                bad.append((case, f'series built from the float array {vals.tolist()} with events {events} reads '
                                  f'{pd} dump by dump'))
                continue
        try:
            c = CategoricalData(vals, events)
            steps = [('new', c)]
            if rng.random() < 0.6:
                c.remove_repeats()
                steps.append(('remove_repeats', c))
            segs = [0] + sorted(rng.sample(range(1, N), min(2, N - 1))) + [N]
            parts = c.partition(segs)
            steps += [('partition', p) for p in parts]
            d = concatenate_categorical(parts, allow_repeats=rng.random() < 0.5)
            steps.append(('concatenate', d))
            for name, obj in steps:
                ev = [int(e) for e in np.asarray(obj.events).tolist()]
                idx = [int(i) for i in np.asarray(obj.indices).tolist()]
                if any(b <= a for a, b in zip(ev[:-1], ev[1:])) or len(ev) != len(idx) + 1 or \
                        any(not (0 <= i < len(obj.unique_values)) for i in idx):
                    bad.append((case, f'NaN series malformed after {name}: events {ev}, indices {idx}, '
                                      f'{len(obj.unique_values)} unique values'))
                    break
                if name == 'concatenate' and ev[-1] != N:
                    bad.append((case, f'NaN series: concatenation covers {ev[-1]} dumps instead of {N}'))
            ctx.tag('nan-' + style)
        except Exception as e:   # noqa: BLE001
            ctx.tag('nan-raised-' + type(e).__name__)
            ctx.advise(f'NaN stream ({style}): {type(e).__name__}: {e}')
        ctx.count(('nan', style, tuple(events), tuple(case['nanmask'])), True)
    return bad


# ------------------------------------------------------------------ shrinking, findings, entry points

def what_kind(what):
    import re
    w = re.sub(r'^op#\d+: ', '', what)
    w = re.sub(r'[^A-Za-z ]+', ' ', w)
    words = [x for x in w.split() if x not in ('True', 'False', 'None', 'm', 'l', 's', 'i')]
    tail = 'malformed' if 'malformed' in what else ('per-dump' if 'per-dump' in what else '')
    return ' '.join(words[:2] + [tail])


def still_fails(ctx_proto, case, kind=None):
    ctx = common.Ctx(ctx_proto.prop, ctx_proto.tier, ctx_proto.seed)
    try:
        bad = evaluate(ctx, [case], count=False)
    except Exception:   # noqa: BLE001
        return False
    for c, v in bad:
        if any(m(c, v) for m in MATCHERS.values()):
            continue
        if kind is None or what_kind(v) == kind:
            return True
    return False


def shrink(ctx, case, what):
    if case.get('kind') != 'seq':
        return case, what
    kind = what_kind(what)
    cur = json.loads(json.dumps(case))
    ops = common.ddmin(cur['ops'], lambda sub: still_fails(ctx, dict(cur, ops=list(sub)), kind))
    if still_fails(ctx, dict(cur, ops=list(ops)), kind):
        cur['ops'] = list(ops)
    changed = True
    while changed:                     # drop single events of the initial series
        changed = False
        for i in range(1, len(cur['vals'])):
            cand = dict(cur, vals=cur['vals'][:i] + cur['vals'][i + 1:],
                        events=cur['events'][:i] + cur['events'][i + 1:])
            if still_fails(ctx, cand, kind):
                cur, changed = cand, True
                break
    if cur['alpha'] != 'str' and still_fails(ctx, dict(cur, alpha='str'), kind):
        cur['alpha'] = 'str'
    if any(cur['arr']) and still_fails(ctx, dict(cur, arr=[False]), kind):
        cur['arr'] = [False]
    bad = evaluate(common.Ctx(ctx.prop, ctx.tier, ctx.seed), [cur], count=False)
    return cur, (bad[0][1] if bad else what)


def m_shared_unique_values(case, what):
    """known finding: partition() hands the *same* unique_values list to every part; remove() on one container
    deletes from that shared list in place, which silently renumbers the values of the parent and of the
    other parts"""
    import re
    m = re.match(r'op#(\d+): ', what)
    if case.get('kind') != 'seq' or not m:
        return False
    k = int(m.group(1))
    ops = [op[0] for op in case['ops']]
    # the violation shows at a remove on one part, or at the concatenation of the parts, while the parts
    # produced by the latest partition are alive and one of them has had a value removed
    parts_since = max((i for i in range(k + 1) if ops[i] in ('part', 'dup', 'concat') and i < k), default=None)
    if parts_since is None or ops[parts_since] != 'part':
        return False
    return 'premove' in ops[parts_since + 1:k + 1] and ops[k] in ('premove', 'concat', 'padd', 'prr')


def m_nan_entered_twice(case, what):
    """known finding: a NaN object that is compared through a fresh ComparableArrayWrapper never equals itself, so
    add(event, that NaN) and concatenate_categorical(parts sharing that NaN) - and the constructor, when the
    values come wrapped - enter the same object a second time into unique_values.  Recognised: float alphabets
    only, the only repeated unique values are NaN codes, first seen at a concat / at an add of that very NaN / at
    the constructor of a wrapped series that was given that NaN more than once."""
    if case.get('kind') != 'seq' or case.get('alpha') not in FLOATS or not nan_only_duplicates(case['alpha'], what):
        return False
    u = [int(x) for x in re.search(r'\[([0-9, ]*)\]$', what).group(1).split(',')]
    rep = {c for c in u if u.count(c) > 1}
    if what.startswith('constructor: '):
        return case['alpha'] == 'wfloat' and all(case['vals'].count(c) > 1 for c in rep)
    m = re.match(r'op#(\d+): after (\w+) ', what)
    if not m or int(m.group(1)) >= len(case['ops']):
        return False
    op = case['ops'][int(m.group(1))]
    if op[0] != m.group(2):
        return False
    if op[0] == 'concat':
        return True
    if op[0] == 'add':
        return op[2] is not None and rep == {op[2]}
    if op[0] == 'padd':
        return op[3] is not None and rep == {op[3]}
    return False


MATCHERS = {'c11_partition_shares_unique_values': m_shared_unique_values,
            'c11_nan_entered_twice': m_nan_entered_twice}


def norm_case(c):
    return json.loads(json.dumps(c))


def corpus_cases():
    d = os.path.join(common.VERIF, 'corpus', PROP)
    out = []
    if os.path.isdir(d):
        for nm in sorted(os.listdir(d)):
            out.append(norm_case(json.load(open(os.path.join(d, nm)))['case']))
    return out


def run(ctx):
    ctx.matchers.update(MATCHERS)
    build = common.build_and_audit(PROP, ctx.tier)
    n = ctx.q(4000, 60000)
    cases = corpus_cases() + [gen_case(ctx.rng) for _ in range(n)]
    bad = evaluate(ctx, cases)
    bad += evaluate(ctx, [gen_case(ctx.rng, FLOAT_ALPHAS) for _ in range(ctx.q(1800, 27000))])
    bad += nan_stream(ctx, ctx.q(300, 5000))
    if not bad and not build['build_ok']:
        bad += evaluate(ctx, [gen_case(ctx.rng, ALPHAS + FLOAT_ALPHAS) for _ in range(10 * n)])
    for c, v in bad:
        ctx.violation(c, v)
    ctx.assumptions = ['series start well-formed (strictly increasing events, one value per event)',
                       'arguments inside the documented domain: dumps and events are non-negative, an added event '
                       'lies before the number of dumps, segments are increasing',
                       'distinct value codes are realised by Python objects that compare unequal; in the float '
                       'alphabets one code = one number or one NaN object (a NaN is the same value as itself and '
                       'no other, as for dict keys and list.index), comparisons follow IEEE',
                       'the state after an exception is not examined']
    return common.finish(ctx, build, RULE, CHECKER, TRUSTED, shrink=lambda c, w: shrink(ctx, c, w))


def replay(ctx, rep):
    ctx.matchers.update(MATCHERS)
    build = common.build_and_audit(PROP, 'quick')
    c = rep['case']
    if c.get('kind') == 'seq':
        for cc, v in evaluate(ctx, [norm_case(c)]):
            ctx.violation(cc, v)
    return common.finish(ctx, build, RULE, CHECKER, TRUSTED)
