"""C02 - select() criteria combine as documented, whatever the call history."""
import json
import os

import numpy as np

from harness import common, ixgen, stubds

RULE = ('history = random observation structure (2-12 dumps, 1-8 channels, 1-3 antennas, random scan / compscan / '
        'target segmentation) + 1-8 select() calls, each with 0-4 criteria drawn from all 12 selector kinds in every '
        'argument form (index, slice, mask, list, name, ~name, object, comma string), reset in {absent, auto, "", T, F, '
        'B, TF, TB, FB, TFB}, repeated calls, permuted keyword order, flags/weights keys, unknown keyword under '
        'strict.  After every call dumps / channels / corr_products / shape are compared with the model.  '
        'non-trivial = at least one call leaves a selection that is neither empty nor everything; distinct = hash of '
        'the encoded history.')
TRUSTED = ['Lean 4.33 kernel', 'axioms: propext, Classical.choice, Quot.sound only',
           'hand-written model KatdalModel/Model/Select.lean tied to /repo by this differential run',
           'katpoint catalogue name / description matching is an oracle (the harness asks the catalogue itself)',
           'times and frequencies are dyadic so float comparisons in timerange / freqrange are exact']
CHECKER = 'lake build KatdalModel.Props.C02 kd_c02 && lake env lean <#print axioms audit>'
RESETS = [None, None, None, 'auto', '', '', 'T', 'F', 'B', 'TF', 'TB', 'FB', 'TFB']


def gen_index(rng, n, allow_array=True):
    r = rng.random()
    if r < 0.2 and n:
        ix = ixgen.gen_int(rng, n)
    elif r < 0.5:
        ix = ixgen.gen_slice(rng, n)
    elif r < 0.75:
        ix = ixgen.gen_mask(rng, n)
    else:
        ix = ixgen.gen_any_list(rng, n) if rng.random() < 0.4 else ixgen.gen_inc_list(rng, n)
    return {'ix': list(ix), 'arr': allow_array and rng.random() < 0.5}


def gen_scan_items(rng, n_idx, table):
    items = []
    for _ in range(rng.randint(1, 3)):
        r = rng.random()
        if r < 0.35:
            items.append(rng.randint(-1, n_idx + 1))
        elif r < 0.7:
            items.append(rng.choice(table + ['nosuch']))
        else:
            items.append('~' + rng.choice(table + ['nosuch']))
    return items


def as_form(rng, items, allow_str=True):
    if len(items) == 1 and rng.random() < 0.5:
        return 'single'
    if allow_str and all(isinstance(i, str) for i in items) and rng.random() < 0.4:
        return 'str'
    return 'list'


def gen_crit(rng, obs, key):
    T, F, B = obs['T'], obs['F'], len(obs['corrprods'])
    if key == 'dumps':
        return (key, 'index', gen_index(rng, T))
    if key == 'channels':
        return (key, 'index', gen_index(rng, F))
    if key == 'timerange':
        a = rng.randint(-3, 2 * T)
        return (key, 'range', {'a': a, 'b': rng.randint(a - 2, 2 * T + 3), 'ts': rng.random() < 0.3})
    if key == 'freqrange':
        a = rng.randint(-F - 3, F + 1)
        return (key, 'range', {'a': a, 'b': rng.randint(a - 2, F + 4)})
    if key == 'scans':
        items = gen_scan_items(rng, len(obs['scan_states']), stubds.STATES)
        return (key, 'items', {'items': items, 'as': as_form(rng, items)})
    if key == 'compscans':
        items = gen_scan_items(rng, len(obs['cs_labels']), stubds.LABELS)
        return (key, 'items', {'items': items, 'as': as_form(rng, items)})
    if key == 'targets':
        items = []
        for _ in range(rng.randint(1, 3)):
            r = rng.random()
            if r < 0.25:
                items.append(rng.randint(-1, obs['n_targets']))
            elif r < 0.5:
                items.append(rng.choice(['Alpha', 'Beta', 'Bee', 'Gamma', 'Delta', 'Nosuch']))
            elif r < 0.7:
                items.append(rng.choice(stubds.TARGET_DESCR + ['Zed, radec, 1:00:00, -2:00:00']))
            else:
                items.append({'obj': rng.randrange(obs['n_targets'])})
        return (key, 'items', {'items': items, 'as': as_form(rng, items, allow_str=False)})
    if key == 'target_tags':
        items = [rng.choice(['bpcal', 'gaincal', 'target', 'radec', 'azel', 'nosuchtag']) for _ in range(rng.randint(1, 3))]
        return (key, 'items', {'items': items, 'as': as_form(rng, items)})
    if key == 'corrprods':
        r = rng.random()
        if r < 0.2:
            return (key, 'auto', {})
        if r < 0.4:
            return (key, 'cross', {})
        if r < 0.6:
            k = rng.randint(1, min(3, B))
            pairs = [list(c) for c in rng.sample(obs['corrprods'], k)]
            if rng.random() < 0.3:
                pairs.append(['m009h', 'm009h'])
            return (key, 'pairs', {'pairs': pairs, 'arr': rng.random() < 0.3})
        return (key, 'index', gen_index(rng, B))
    if key == 'ants':
        items = []
        tilde = rng.random() < 0.4
        for _ in range(rng.randint(1, 2)):
            nm = f'm{rng.randint(0, obs["n_ants"]):03d}'
            if rng.random() < 0.2:
                items.append({'obj': rng.randrange(obs['n_ants'])})
                continue
            items.append(('~' if (tilde or rng.random() < 0.1) else '') + nm)
        return (key, 'items', {'items': items, 'as': as_form(rng, [i for i in items])})
    if key == 'inputs':
        items = [f'm{rng.randint(0, obs["n_ants"]):03d}{rng.choice("hv")}' for _ in range(rng.randint(1, 4))]
        return (key, 'items', {'items': items, 'as': as_form(rng, items)})
    if key == 'pol':
        items = [rng.choice(['h', 'v', 'H', 'V', 'hh', 'vv', 'hv', 'vh', 'HH', 'VH', '']) for _ in range(rng.randint(1, 2))]
        return (key, 'items', {'items': items, 'as': as_form(rng, items)})
    raise ValueError(key)


KEYS = ['dumps', 'timerange', 'scans', 'compscans', 'targets', 'target_tags', 'channels', 'freqrange',
        'corrprods', 'ants', 'inputs', 'pol']


def gen_call(rng, obs):
    r = rng.random()
    if r < 0.07:
        return dict(bare=True, crits=[], reset=None, extra={})
    n = rng.choice([0, 1, 1, 1, 2, 2, 3, 4])
    keys = rng.sample(KEYS, n)
    crits = [list(gen_crit(rng, obs, k)) for k in keys]
    extra = {}
    if rng.random() < 0.15:
        extra['flags'] = rng.choice(['all', '', 'cam', 'cam,static'])
    if rng.random() < 0.1:
        extra['weights'] = 'all'
    if rng.random() < 0.05:
        extra['bogus_kw'] = 1
        if rng.random() < 0.5:
            extra['strict'] = False
    elif rng.random() < 0.06:
        # strict on its own is a keyword like any other: the call is not the argument-less "clear everything"
        extra['strict'] = rng.random() < 0.5
        if rng.random() < 0.5:
            return dict(bare=False, crits=[], reset=None, extra=extra)
    reset = rng.choice(RESETS)
    if not crits and not extra and reset is None:
        return dict(bare=True, crits=[], reset=None, extra={})
    return dict(bare=False, crits=crits, reset=reset, extra=extra)


def gen_history(rng):
    obs = stubds.gen_observation(rng)
    calls = [gen_call(rng, obs) for _ in range(rng.randint(1, 8))]
    # repeat a call / permute keywords sometimes (idempotence and order independence)
    if rng.random() < 0.3 and calls:
        i = rng.randrange(len(calls))
        dup = json.loads(json.dumps(calls[i]))
        rng.shuffle(dup['crits'])
        calls.insert(i + 1, dup)
    # strictness belongs to the call that names it: a call with strict=False somewhere in the history, then (at any
    # distance, possibly across a full reset) a call with an unknown keyword and no strict argument must raise
    if rng.random() < 0.12:
        lax = gen_call(rng, obs)
        lax = dict(lax, bare=False, extra=dict(lax['extra'], strict=False))
        if rng.random() < 0.5:
            lax['extra']['bogus_kw'] = 1
        lax['extra'].pop('bogus_kw', None) if rng.random() < 0.3 else None
        pos = rng.randint(0, len(calls))
        calls.insert(pos, lax)
        tail = [gen_call(rng, obs) for _ in range(rng.randint(0, 2))]
        tail = [c for c in tail if 'bogus_kw' not in c['extra']]
        if rng.random() < 0.3:
            tail.append(dict(bare=True, crits=[], reset=None, extra={}))
        strict_call = gen_call(rng, obs)
        strict_call = dict(strict_call, bare=False,
                           extra={k: v for k, v in strict_call['extra'].items() if k != 'strict'})
        strict_call['extra']['bogus_kw'] = 1
        calls = calls[:pos + 1] + tail + [strict_call]
    return dict(obs=obs, calls=calls)


def directed_histories(rng):
    """argument forms on their boundary values, in every run whatever the seed: the first scan / compound scan by its
    bare index 0 (alone, ANDed onto a selection, next to another time criterion), the last one by -1"""
    out = []
    for key in ('scans', 'compscans'):
        for idx, form in ((0, 'single'), (0, 'list'), (-1, 'single')):
            obs = stubds.gen_observation(rng)
            crit = [key, 'items', {'items': [idx], 'as': form}]
            calls = [dict(bare=False, crits=[crit], reset=None, extra={}),
                     dict(bare=False, crits=[['dumps', 'index', gen_index(rng, obs['T'])]], reset=None, extra={}),
                     dict(bare=False, crits=[crit], reset='', extra={}),
                     dict(bare=False, crits=[crit, ['channels', 'index', gen_index(rng, obs['F'])]], reset=None, extra={})]
            out.append(json.loads(json.dumps(dict(obs=obs, calls=calls))))
    return out


def proto_call(call, d, targets, obs):
    reset = call['reset']
    rs = 'auto' if reset is None or reset == 'auto' else ('-' if reset == '' else reset)
    toks = ['sel', rs, '1' if call['bare'] else '0']
    toks += [stubds.crit_to_proto(tuple(c), d, targets, obs) for c in call['crits']]
    return ' '.join(toks)


def run_history(hist):
    """Returns (lines, impl_outputs) where impl_outputs[i] is 'T=.. F=.. B=..' or 'E:<exc>' for call i."""
    obs = hist['obs']
    d, targets = stubds.build(obs)
    lines = [stubds.ctx_line(obs)]
    outs = ['ok']
    for call in hist['calls']:
        lines.append(proto_call(call, d, targets, obs))
        kwargs = {}
        for c in call['crits']:
            kwargs[c[0]] = stubds.crit_to_python(tuple(c), d, targets)
        kwargs.update(call['extra'])
        if call['reset'] is not None:
            kwargs['reset'] = call['reset']
        before = stubds.masks_of(d)
        try:
            d.select(**kwargs)
            t, f, b = stubds.masks_of(d)
            out = f'T={t} F={f} B={b}'
            if tuple(int(x) for x in d.shape) != (t.count('1'), f.count('1'), b.count('1')):
                out += f' SHAPE={tuple(d.shape)}'
        except Exception as e:   # noqa: BLE001
            out = f'E:{type(e).__name__}:{str(e)[:80]}'
            if 'bogus_kw' in call['extra'] and call['extra'].get('strict', True):
                # early error: state must be untouched
                if stubds.masks_of(d) != before:
                    out += ' STATE-CHANGED'
        outs.append(out)
        if out.startswith('E:'):
            break
    return lines, outs


def judge(ctx, hist, lines, outs, replies):
    """first disagreement -> violation text"""
    for i in range(1, len(outs)):
        call = hist['calls'][i - 1]
        impl, model = outs[i], replies[i]
        strict_err = 'bogus_kw' in call['extra'] and call['extra'].get('strict', True)
        if strict_err:
            ctx.tag('strict-unknown-kw')
            if not impl.startswith('E:TypeError'):
                return i, f'unknown keyword under strict did not raise TypeError: {impl}'
            if 'STATE-CHANGED' in impl:
                return i, 'unknown keyword under strict changed the selection before raising'
            return None
        if model.startswith('E:'):
            ctx.tag('invalid-criterion')
            if not impl.startswith('E:'):
                ctx.advise(f'model rejects {lines[i]} but implementation answered {impl}')
            return None
        mm = model.split(' | ')[0]
        spec = model.split(' | ')[1].replace('spec ', '')
        if impl.startswith('E:'):
            return i, f'select raised {impl[2:]} on valid criteria; documented result {spec}'
        if 'SHAPE=' in impl:
            return i, f'shape attribute disagrees with dumps/channels/corr_products: {impl}'
        if impl != spec:
            return i, f'after call {i}: selection {impl} but the documented rule gives {spec}'
        if mm != spec:
            ctx.advise(f'mirror model {mm} differs from spec {spec} at {lines[i]}')
    return None


def evaluate(ctx, hists):
    bad = []
    all_lines, spans, outs_all = [], [], []
    for h in hists:
        lines, outs = run_history(h)
        spans.append((len(all_lines), len(lines)))
        all_lines += lines
        outs_all.append((lines, outs))
    replies = common.run_model('C02', all_lines)
    for h, (start, n), (lines, outs) in zip(hists, spans, outs_all):
        rep = replies[start:start + n]
        v = judge(ctx, h, lines, outs, rep)
        nontriv = False
        for o in outs[1:]:
            if o.startswith('T='):
                parts = [p.split('=')[1] for p in o.split(' ')[:3]]
                if any('1' in p and '0' in p for p in parts):
                    nontriv = True
        for c in h['calls']:
            ctx.tag('reset-' + str(c['reset']), 'bare' if c['bare'] else f"ncrit-{len(c['crits'])}")
            for cr in c['crits']:
                ctx.tag('key-' + cr[0])
        ctx.count(lines, nontriv, sample={'history': lines[1:4], 'impl': outs[1:4]})
        if v:
            i, text = v
            bad.append((dict(h, failing_call=i), text))
    return bad


def still_fails(ctx, hist):
    try:
        return bool(evaluate(common.Ctx(ctx.prop, ctx.tier, ctx.seed), [hist]))
    except Exception:   # noqa: BLE001
        return False


def shrink(ctx, hist, what):
    if hist.get('kind') == 'spw':
        return hist, what
    cur = json.loads(json.dumps(hist))
    cur.pop('failing_call', None)
    # drop calls
    calls = common.ddmin(cur['calls'], lambda cs: still_fails(ctx, dict(cur, calls=cs)))
    cur['calls'] = calls
    # drop criteria inside calls
    changed = True
    while changed:
        changed = False
        for ci, call in enumerate(cur['calls']):
            for k in range(len(call['crits'])):
                cand = json.loads(json.dumps(cur))
                del cand['calls'][ci]['crits'][k]
                if still_fails(ctx, cand):
                    cur, changed = cand, True
                    break
            if changed:
                break
    bad = evaluate(common.Ctx(ctx.prop, ctx.tier, ctx.seed), [cur])
    return (bad[0][0], bad[0][1]) if bad else (cur, what)


def m_corrprods_empty_list(case, what):
    """select(corrprods=[]) : np.asarray([]) is a float array, unusable as an index"""
    i = case.get('failing_call')
    if i is None or 'IndexError' not in what:
        return False
    call = case['calls'][i - 1]
    return any(c[0] == 'corrprods' and c[1] == 'index' and c[2]['ix'][0] == 'l' and not c[2]['ix'][1]
               and not c[2].get('arr') for c in call['crits'])


MATCHERS = {'c02_corrprods_empty_list': m_corrprods_empty_list}


def corpus():
    d = os.path.join(common.VERIF, 'corpus', 'C02')
    out = []
    if os.path.isdir(d):
        for nm in sorted(os.listdir(d)):
            out.append(json.load(open(os.path.join(d, nm)))['case'])
    return out


def spw_cases(ctx, n):
    """Two spectral windows of different channel width and dump sets: switching window clears the time and frequency
    dimensions, a freqrange given in the same call is judged on the NEW window's channels (wholly inside the range),
    one call = two calls, repeating changes nothing, other dimensions stay."""
    import numpy as np
    from fractions import Fraction
    from katdal.categorical import CategoricalData
    from katdal.spectral_window import SpectralWindow
    bad = []
    rng = ctx.rng
    for _ in range(n):
        obs = stubds.gen_observation(rng)
        d, _targets = stubds.build(obs)
        T = obs['T']
        if T < 2:
            continue
        cut = rng.randint(1, T - 1)
        F1 = rng.randint(2, 12)
        w0 = Fraction(2000000)
        w1 = w0 * rng.choice([Fraction(1, 4), Fraction(1, 2), 2, 3])
        sb1 = rng.choice([1, -1])
        sw1 = SpectralWindow(centre_freq=stubds.F0 + float(w0) * rng.randint(-3, 3), channel_width=float(w1), num_chans=F1,
                             sideband=sb1)
        d.spectral_windows = [d.spectral_windows[0], sw1]
        d.sensor['Observation/spw_index'] = CategoricalData([0, 1], [0, cut, T])
        d.select()
        case = dict(kind='spw', obs=obs, cut=cut, F1=F1, w1=str(w1), sideband1=sb1)
        what = None
        # narrow something on every dimension of window 0 first
        d.select(dumps=slice(0, max(1, cut // 2)), channels=slice(0, max(1, obs['F'] // 2)), pol='h')
        b_before = stubds.masks_of(d)[2]
        target = rng.choice([1, 1, 0])
        for spw in ([1, 0, 1] if target == 1 else [1, 0]):
            sw = d.spectral_windows[spw]
            fr = [Fraction(float(x)) for x in sw.channel_freqs]
            w = Fraction(float(sw.channel_width))
            a, b = sorted(rng.sample(range(-1, len(fr) + 1), 2))
            lo = min(fr) + w * a - w / 2 + rng.choice([0, 0, w / 4, -w / 4])
            hi = min(fr) + w * b + w / 2 + rng.choice([0, 0, w / 4, -w / 4])
            want_f = ''.join('1' if (f - w / 2 >= lo and f + w / 2 <= hi) else '0' for f in fr)
            want_t = ''.join('1' if ((i >= cut) == (spw == 1)) else '0' for i in range(T))
            kw = dict(spw=spw, freqrange=(float(lo), float(hi)))
            if rng.random() < 0.5:
                kw = dict(freqrange=kw['freqrange'], spw=spw)
            try:
                d.select(**kw)
                got = stubds.masks_of(d)
                d.select(**kw)
                again = stubds.masks_of(d)
                d.select(spw=spw)
                d.select(freqrange=kw['freqrange'])
                two = stubds.masks_of(d)
            except Exception as e:   # noqa: BLE001
                what = f'select(spw={spw}, freqrange=...) raised {type(e).__name__}: {str(e)[:100]}'
                break
            if what is None and rng.random() < 0.6:
                # a product criterion (or an explicit reset naming B) in the call that switches window replaces /
                # clears the product selection made under the other window, as it would without the switch
                other = 1 - spw
                try:
                    d.select(spw=other)
                    d.select(pol='h')
                    narrowed = stubds.masks_of(d)[2]
                    if rng.random() < 0.5:
                        d.select(spw=spw, pol='v')
                        label = f"select(pol='h') then select(spw={spw}, pol='v')"
                        d2, _t2 = stubds.build(obs)
                        d2.select(pol='v')
                        want_b = stubds.masks_of(d2)[2]
                    else:
                        d.select(spw=spw, reset='B')
                        label = f"select(pol='h') then select(spw={spw}, reset='B')"
                        want_b = '1' * len(narrowed)
                    got_b = stubds.masks_of(d)[2]
                    if got_b != want_b:
                        what = (f'{label}: correlation products {got_b}, the criteria of the most recent call that '
                                f'mentioned that dimension give {want_b} (before the call: {narrowed})')
                    d.select(spw=spw, freqrange=kw['freqrange'])
                    d.select(pol='h')
                    ctx.tag('spw-switch-with-product-criterion')
                except Exception as e:   # noqa: BLE001
                    what = f'switching window together with a product criterion raised {type(e).__name__}: {str(e)[:100]}'
                if what:
                    break
            if got[1] != want_f:
                what = (f'select(spw={spw}, freqrange=({float(lo)}, {float(hi)})) in one call keeps channels {got[1]}, the '
                        f'channels of window {spw} wholly inside the range are {want_f}')
            elif got[0] != want_t:
                what = f'select(spw={spw}, ...) keeps dumps {got[0]}, the dumps of window {spw} are {want_t}'
            elif got[2] != b_before:
                what = f'switching the spectral window changed the correlation-product selection {b_before} -> {got[2]}'
            elif again != got:
                what = f'repeating select(spw={spw}, freqrange=...) changed the selection {got} -> {again}'
            elif two[1] != want_f or two[0] != want_t:
                what = f'select(spw={spw}) then select(freqrange=...) gives {two}, one call gives {got}'
            if what:
                break
        ctx.tag('spw-switch')
        ctx.count(('spw', json.dumps(case, sort_keys=True)[:300]), True, sample={'spw': True, 'cut': cut, 'F1': F1})
        if what:
            bad.append((case, what))
    return bad


def run(ctx):
    ctx.matchers.update(MATCHERS)
    build = common.build_and_audit('C02', ctx.tier)
    hists = corpus() + directed_histories(ctx.rng) + [gen_history(ctx.rng) for _ in range(ctx.q(400, 20000))]
    bad = evaluate(ctx, hists)
    bad += spw_cases(ctx, ctx.q(40, 1500))
    if not bad and not build['build_ok']:
        bad = evaluate(ctx, [gen_history(ctx.rng) for _ in range(4000)])
    for c, v in bad:
        ctx.violation(c, v)
    return common.finish(ctx, build, RULE, CHECKER, TRUSTED, shrink=lambda c, w: shrink(ctx, c, w))


def replay(ctx, rep):
    ctx.matchers.update(MATCHERS)
    build = common.build_and_audit('C02', 'quick')
    case = rep['case']
    case.pop('failing_call', None)
    if case.get('kind') == 'spw':
        # the two-window cases are drawn from the seed; replay re-runs that stream
        for cc, v in spw_cases(ctx, 1500):
            ctx.violation(cc, v)
        return common.finish(ctx, build, RULE, CHECKER, TRUSTED)
    for cc, v in evaluate(ctx, [case]):
        ctx.violation(cc, v)
    return common.finish(ctx, build, RULE, CHECKER, TRUSTED)
