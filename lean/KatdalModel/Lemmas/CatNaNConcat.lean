/-
  C11 lemmas, part 8: `concatenate_categorical` over float values with NaN.  The per-dump list of
  the NaN-aware concatenation is the concatenation of the per-dump lists even when a NaN object
  is entered twice into the unique values; hence partition followed by concatenation is the
  identity on the per-dump list of every series, NaN included.
-/
import KatdalModel.Lemmas.CatNaN
open Np

namespace Categorical

set_option linter.unusedSimpArgs false
set_option linter.unusedSectionVars false
set_option linter.unusedVariables false

variable {V : Type} [DecidableEq V]

/-! ### the NaN-aware `unique_in_order`: the inverse reconstructs the elements -/

theorem prefix_getElem? {α : Type} (a u : List α) (hp : a <+: u) (i : Nat) (x : α) (h : a[i]? = some x) :
    u[i]? = some x := by
  obtain ⟨s, rfl⟩ := hp
  have hi : i < a.length := by
    rcases Nat.lt_or_ge i a.length with hlt | hge
    · exact hlt
    · rw [List.getElem?_eq_none hge] at h; cases h
  rw [List.getElem?_append_left hi]
  exact h

theorem uniqueInOrderN_spec (nan : V → Bool) : ∀ (l acc : List V),
    acc <+: (uniqueInOrderN nan acc l).1 ∧ (uniqueInOrderN nan acc l).2.length = l.length ∧
    ∀ (k : Nat) (x : V), l[k]? = some x →
      ∃ i : Nat, (uniqueInOrderN nan acc l).2[k]? = some i ∧ (uniqueInOrderN nan acc l).1[i]? = some x := by
  intro l
  induction l with
  | nil =>
    intro acc
    refine ⟨List.prefix_refl _, rfl, ?_⟩
    intro k x h
    simp at h
  | cons y t ih =>
    intro acc
    cases hio : indexOfN? nan acc y with
    | some i =>
      obtain ⟨hp, hl, hr⟩ := ih acc
      have hacc : acc[i]? = some y := by
        simp only [indexOfN?] at hio
        split at hio
        · cases hio
        · exact (indexOf?_some acc y i hio).2
      simp only [uniqueInOrderN, hio]
      refine ⟨hp, by simp [hl], ?_⟩
      intro k x hk
      cases k with
      | zero =>
        simp only [List.getElem?_cons_zero, Option.some.injEq] at hk
        subst hk
        exact ⟨i, by simp, prefix_getElem? acc _ hp i y hacc⟩
      | succ k =>
        simp only [List.getElem?_cons_succ] at hk ⊢
        exact hr k x hk
    | none =>
      obtain ⟨hp, hl, hr⟩ := ih (acc ++ [y])
      simp only [uniqueInOrderN, hio]
      refine ⟨List.IsPrefix.trans (List.prefix_append acc [y]) hp, by simp [hl], ?_⟩
      intro k x hk
      cases k with
      | zero =>
        simp only [List.getElem?_cons_zero, Option.some.injEq] at hk
        subst hk
        exact ⟨acc.length, by simp, prefix_getElem? (acc ++ [y]) _ hp acc.length y (by simp)⟩
      | succ k =>
        simp only [List.getElem?_cons_succ] at hk ⊢
        exact hr k x hk

/-! ### remove_repeats on a series whose unique values need not be distinct -/

theorem removeRepeats_uniq_irrel {W : Type} [DecidableEq W] (c : Cat V) (u : List W) :
    ({ uniq := u, idx := c.idx, ev := c.ev } : Cat W).removeRepeats =
      (c.removeRepeats).map (fun r => ({ uniq := u, idx := r.idx, ev := r.ev } : Cat W)) := by
  simp only [Cat.removeRepeats]
  split <;> rfl

theorem perDump_range (c0 : Cat Nat) (n : Nat) (hu : c0.uniq = List.range n) (hidx : ∀ i ∈ c0.idx, i < n) :
    c0.perDump = c0.perDumpIdx := by
  rw [perDump_eq_idx]
  conv => rhs; rw [← List.map_id c0.perDumpIdx]
  apply List.map_congr_left
  intro o ho
  cases o with
  | none => rfl
  | some i =>
    have hi : i ∈ c0.idx := by
      simp only [Cat.perDumpIdx, List.mem_append, List.mem_replicate] at ho
      rcases ho with ho | ho
      · cases ho.2
      · have := expand_mem _ _ _ ho
        simpa using this
    have := hidx i hi
    simp [hu, this]

/-- **remove_repeats never changes any dump's value**, also when the unique values are not
    pairwise distinct -/
theorem removeRepeats_wfi (c : Cat V) (h : c.WFi) (hne : c.idx ≠ []) :
    ∃ c', c.removeRepeats = .ok c' ∧ c'.WFi ∧ c'.perDump = c.perDump ∧ c'.numDumps = c.numDumps ∧
      c'.uniq = c.uniq ∧ c'.idx ≠ [] ∧ c'.ev.head? = c.ev.head? := by
  let c0 : Cat Nat := { uniq := List.range c.uniq.length, idx := c.idx, ev := c.ev }
  have h0 : c0.WF := ⟨h.1, h.2.1, by intro i hi; simpa [c0] using h.2.2 i hi, List.nodup_range⟩
  obtain ⟨c0', hrr, hwf', hpd', hN', hu', _⟩ := removeRepeats_spec c0 h0 hne
  have hrun : c.removeRepeats = .ok { uniq := c.uniq, idx := c0'.idx, ev := c0'.ev } := by
    have := removeRepeats_uniq_irrel c0 c.uniq
    simp only [c0] at this
    rw [this]
    have hrr' : ({ uniq := List.range c.uniq.length, idx := c.idx, ev := c.ev } : Cat Nat).removeRepeats = .ok c0' := hrr
    rw [hrr']
    rfl
  have hidx' : ∀ i ∈ c0'.idx, i < c.uniq.length := by
    intro i hi
    have := hwf'.2.2.1 i hi
    rw [hu'] at this
    simpa [c0] using this
  have hpdi : c0'.perDumpIdx = c0.perDumpIdx := by
    rw [← perDump_range c0' c.uniq.length (by rw [hu']) hidx',
      ← perDump_range c0 c.uniq.length rfl (by intro i hi; exact h.2.2 i hi)]
    exact hpd'
  have hne' : c0'.idx ≠ [] := by
    intro h0'
    have := hwf'.2.1
    simp only [Cat.removeRepeats] at hrr
    split at hrr
    · cases hrr
    · simp only [pure, Except.pure, Except.ok.injEq] at hrr
      rw [← hrr] at h0'
      cases hi0 : c.idx with
      | nil => exact hne hi0
      | cons i0 it =>
        cases he0 : c.ev with
        | nil => have := h.2.1; rw [he0] at this; simp at this
        | cons e0 et => simp [c0, hi0, he0, keepChanges] at h0'
  have hhead : c0'.ev.head? = c.ev.head? := by
    simp only [Cat.removeRepeats] at hrr
    split at hrr
    · cases hrr
    · simp only [pure, Except.pure, Except.ok.injEq] at hrr
      rw [← hrr]
      cases hi0 : c.idx with
      | nil => exact absurd hi0 hne
      | cons i0 it =>
        cases he0 : c.ev with
        | nil => have := h.2.1; rw [he0] at this; simp at this
        | cons e0 et => simp [c0, hi0, he0, keepChanges]
  refine ⟨{ uniq := c.uniq, idx := c0'.idx, ev := c0'.ev }, hrun, ⟨hwf'.1, hwf'.2.1, hidx'⟩, ?_, hN', rfl, hne', hhead⟩
  rw [perDump_eq_idx, perDump_eq_idx c]
  have e1 : ({ uniq := c.uniq, idx := c0'.idx, ev := c0'.ev } : Cat V).perDumpIdx = c0'.perDumpIdx := rfl
  have e2 : c.perDumpIdx = c0.perDumpIdx := rfl
  rw [e1, e2, hpdi]

/-! ### the concatenation loop for any unique values / inverse that reconstruct the elements -/

theorem go_spec_gen (u : List V) (inv : List Nat) (all : List V) (hlen : inv.length = all.length)
    (hrec : ∀ (k : Nat) (x : V), all[k]? = some x → ∃ i : Nat, inv[k]? = some i ∧ u[i]? = some x) :
    ∀ (ps : List (Cat V)) (pre : List V) (s : Nat),
    all = pre ++ (ps.map (·.uniq)).flatten → (∀ p ∈ ps, p.Part) →
    ∃ I E, concatenate.go (u, inv) ps pre.length (s :: runSums s (ps.map Cat.numDumps)) = .ok (I, E) ∧
      I.length = E.length ∧ (ps ≠ [] → E.head? = some s) ∧ (ps = [] → E = []) ∧
      (∀ i ∈ I, i < u.length) ∧
      (E ++ [s + (ps.map Cat.numDumps).sum]).Pairwise (· < ·) ∧
      (∀ e ∈ E, s ≤ e) ∧
      expand (E ++ [s + (ps.map Cat.numDumps).sum]) (I.map (fun i => u[i]?)) =
        (ps.map (fun p => expand p.ev p.values)).flatten := by
  intro ps
  induction ps with
  | nil =>
    intro pre s _ _
    exact ⟨[], [], by simp [concatenate.go, pure, Except.pure], rfl, by simp, by simp, by simp, by simp, by simp,
      by simp [expand]⟩
  | cons p ps' ih =>
    intro pre s hall hparts
    have hp : p.Part := hparts p (List.mem_cons_self ..)
    obtain ⟨i0, rest, hi, he⟩ := part_view p hp
    have hall' : all = (pre ++ p.uniq) ++ (ps'.map (·.uniq)).flatten := by
      rw [hall]; simp
    obtain ⟨I', E', hgo', hlen', hhead', hnil', hI', hsorted', hge', hexp'⟩ :=
      ih (pre ++ p.uniq) (s + p.numDumps) hall' (fun q hq => hparts q (List.mem_cons_of_mem _ hq))
    -- this part's slice of the inverse
    let lookup := (inv.drop pre.length).take p.uniq.length
    have hinvlen : pre.length + p.uniq.length ≤ inv.length := by
      rw [hlen, hall']; simp
    have hlklen : lookup.length = p.uniq.length := by
      simp only [lookup, List.length_take, List.length_drop]
      omega
    have hkey : ∀ j, j < p.uniq.length → ∃ i, lookup[j]? = some i ∧ u[i]? = p.uniq[j]? := by
      intro j hj
      have hall_j : all[pre.length + j]? = some p.uniq[j] := by
        rw [hall']
        rw [List.getElem?_append_left (by simp; omega)]
        rw [List.getElem?_append_right (by omega)]
        simp [hj]
      obtain ⟨i, hi1, hi2⟩ := hrec (pre.length + j) _ hall_j
      refine ⟨i, ?_, by rw [hi2, List.getElem?_eq_getElem hj]⟩
      simp only [lookup, List.getElem?_take, hj, if_true, List.getElem?_drop]
      exact hi1
    have hidxlt : ∀ i ∈ p.idx, i < lookup.length := by
      intro i hi'; rw [hlklen]; exact hp.1.2.2.1 i hi'
    have htake := takeIdx_getD lookup 0 p.idx hidxlt
    have hplen : (pre ++ p.uniq).length = pre.length + p.uniq.length := by simp
    have hstrict := strictInc_pairwise _ hp.1.1
    rw [he] at hstrict
    have hdl : p.ev.dropLast = 0 :: rest.map (·.2) := by rw [he]; exact dropLast_cons_snoc _ _ _
    have hval : ∀ j ∈ p.idx, lookup.getD j 0 < u.length ∧ u[lookup.getD j 0]? = p.uniq[j]? := by
      intro j hj
      have hjlt : j < p.uniq.length := hp.1.2.2.1 j hj
      obtain ⟨i, hi1, hi2⟩ := hkey j hjlt
      have hgd : lookup.getD j 0 = i := by simp [List.getD, hi1]
      rw [hgd]
      refine ⟨?_, hi2⟩
      rcases Nat.lt_or_ge i u.length with hlt | hge
      · exact hlt
      · rw [List.getElem?_eq_none hge, List.getElem?_eq_getElem hjlt] at hi2; cases hi2
    refine ⟨p.idx.map (fun i => lookup.getD i 0) ++ I',
      p.ev.dropLast.map (· + s) ++ E', ?_, ?_, ?_, by simp, ?_, ?_, ?_, ?_⟩
    · simp only [concatenate.go, List.map_cons, runSums, bind, Except.bind]
      have : takeIdx ((inv.drop pre.length).take p.uniq.length) p.idx =
          .ok (p.idx.map (fun i => lookup.getD i 0)) := htake
      rw [this]
      rw [hplen] at hgo'
      simp only [hgo']
      rfl
    · simp only [List.length_append, List.length_map, hlen', hdl, hi, List.length_cons]
    · intro _
      simp [hdl]
    · intro i hi'
      simp only [List.mem_append, List.mem_map] at hi'
      rcases hi' with ⟨j, hj, rfl⟩ | hi'
      · exact (hval j hj).1
      · exact hI' i hi'
    · -- strictly increasing boundaries
      simp only [List.map_cons, List.sum_cons, List.append_assoc]
      have hsum : s + (p.numDumps + (ps'.map Cat.numDumps).sum) = s + p.numDumps + (ps'.map Cat.numDumps).sum := by omega
      rw [hsum]
      rw [List.pairwise_append]
      refine ⟨?_, hsorted', ?_⟩
      · rw [hdl, List.pairwise_map]
        have : (0 :: rest.map (·.2)).Sublist (0 :: (rest.map (·.2) ++ [p.numDumps])) :=
          List.Sublist.cons_cons _ (List.sublist_append_left _ _)
        exact (List.Pairwise.sublist this hstrict).imp (fun h => by omega)
      · intro a ha b hb
        rw [hdl] at ha
        simp only [List.mem_map] at ha
        obtain ⟨x, hx, rfl⟩ := ha
        have hxN : x < p.numDumps := by
          have h1 : (0 :: rest.map (·.2) ++ [p.numDumps]).Pairwise (· < ·) := hstrict
          exact (List.pairwise_append.mp h1).2.2 x hx p.numDumps (by simp)
        have hb' : s + p.numDumps ≤ b := by
          simp only [List.mem_append, List.mem_singleton] at hb
          rcases hb with hb | rfl
          · exact hge' b hb
          · omega
        omega
    · intro e he'
      simp only [List.mem_append, List.mem_map] at he'
      rcases he' with ⟨x, _, rfl⟩ | he'
      · omega
      · have := hge' e he'; omega
    · -- the written-out segments
      simp only [List.map_cons, List.sum_cons, List.flatten_cons, List.map_append, List.append_assoc]
      have hsum : s + (p.numDumps + (ps'.map Cat.numDumps).sum) = s + p.numDumps + (ps'.map Cat.numDumps).sum := by omega
      rw [hsum]
      have hb : ∃ B, E' ++ [s + p.numDumps + (ps'.map Cat.numDumps).sum] = (s + p.numDumps) :: B := by
        cases hps : ps' with
        | nil =>
          have := hnil' hps
          subst this
          exact ⟨[], by simp [hps]⟩
        | cons q qs =>
          have := hhead' (by rw [hps]; simp)
          cases hE : E' with
          | nil => rw [hE] at this; simp at this
          | cons b B =>
            rw [hE] at this
            simp only [List.head?_cons, Option.some.injEq] at this
            subst this
            exact ⟨_, rfl⟩
      obtain ⟨B, hB⟩ := hb
      rw [hB] at hexp' ⊢
      rw [expand_append _ _ _ _ _ (by simp [hdl, hi])]
      rw [hexp']
      congr 1
      have hev : p.ev.dropLast.map (· + s) ++ [s + p.numDumps] = p.ev.map (· + s) := by
        rw [hdl, he]; simp [Nat.add_comm]
      rw [hev, expand_shift]
      congr 1
      simp only [Cat.values, List.map_map]
      apply List.map_congr_left
      intro j hj
      simp only [Function.comp]
      exact (hval j hj).2

/-- series that starts at dump 0 with at least one event, well-formed apart from distinctness -/
def Cat.Parti (c : Cat V) : Prop := c.WFi ∧ c.idx ≠ [] ∧ c.ev.head? = some 0

theorem perDump_of_head0 (c : Cat V) (h : c.ev.head? = some 0) : c.perDump = expand c.ev c.values := by
  cases hev : c.ev with
  | nil => rw [hev] at h; cases h
  | cons e0 et =>
    rw [hev] at h
    simp only [List.head?_cons, Option.some.injEq] at h
    subst h
    simp [Cat.perDump, hev]

/-- **NaN-aware concatenate_categorical**: whatever the NaN among the unique values of the parts,
    the per-dump list of the result is the concatenation of the per-dump lists (with or without
    repeat removal); the result starts at dump 0, has strictly increasing boundaries ending at the
    sum of the dumps and indices inside the unique values -/
theorem concatN_spec (nan : V → Bool) (parts : List (Cat V)) (hparts : ∀ p ∈ parts, p.Part) (hne : parts ≠ [])
    (rep : Bool) :
    ∃ c, concatenateN nan parts rep = .ok c ∧ c.Parti ∧
      c.perDump = (parts.map Cat.perDump).flatten ∧ c.numDumps = (parts.map Cat.numDumps).sum := by
  match parts, hne, hparts with
  | [c], _, hparts =>
    have hc := hparts c (List.mem_cons_self ..)
    exact ⟨c, rfl, ⟨WF.wfi hc.1, hc.2.1, hc.2.2⟩, by simp, by simp⟩
  | p :: q :: ps, _, hparts =>
    let all := ((p :: q :: ps).map (·.uniq)).flatten
    let r := uniqueInOrderN nan [] all
    obtain ⟨_, hrlen, hrrec⟩ := uniqueInOrderN_spec nan all []
    obtain ⟨I, E, hgo, hlen, hhead, _, hI, hsorted, _, hexp⟩ :=
      go_spec_gen r.1 r.2 all hrlen hrrec (p :: q :: ps) [] 0 (by simp [all]) hparts
    have hE : E.head? = some 0 := hhead (by simp)
    have hany : (p :: q :: ps).any (fun c => decide (c.ev = [])) = false := by
      simp only [List.any_eq_false, decide_eq_true_eq]
      intro c hc hev
      have := (hparts c hc).2.2
      rw [hev] at this
      simp at this
    have hstarts : (cumsum0 ((p :: q :: ps).map Cat.numDumps)).getLastD 0 =
        0 + ((p :: q :: ps).map Cat.numDumps).sum := by
      rw [cumsum0_eq, runSums_getLastD]
    let data : Cat V := { uniq := r.1, idx := I, ev := E ++ [0 + ((p :: q :: ps).map Cat.numDumps).sum] }
    have hEne : E ≠ [] := by intro h0; rw [h0] at hE; simp at hE
    have hIne : I ≠ [] := by
      intro h0; rw [h0] at hlen
      exact hEne (List.length_eq_zero_iff.mp hlen.symm)
    have hdataHead : data.ev.head? = some 0 := by
      simp only [data]
      cases E with
      | nil => exact absurd rfl hEne
      | cons e t => simpa using hE
    have hdataPart : data.Parti :=
      ⟨⟨pairwise_lt_strictInc _ hsorted, by simp [data, hlen], hI⟩, hIne, hdataHead⟩
    have hdataPD : data.perDump = ((p :: q :: ps).map Cat.perDump).flatten := by
      rw [perDump_of_head0 data hdataHead]
      simp only [data, Cat.values]
      rw [hexp]
      congr 1
      apply List.map_congr_left
      intro c hc
      exact (part_perDump c (hparts c hc)).symm
    have hdataN : data.numDumps = ((p :: q :: ps).map Cat.numDumps).sum := by
      simp only [data, Cat.numDumps, List.getLastD_eq_getLast?, List.getLast?_append]
      simp
    have hrun : concatenateN nan (p :: q :: ps) rep = (if rep = true then pure data else data.removeRepeats) := by
      have hgo' : concatenateN.go (uniqueInOrderN nan [] ((p :: q :: ps).map (·.uniq)).flatten) (p :: q :: ps) 0
          (cumsum0 ((p :: q :: ps).map Cat.numDumps)) = .ok (I, E) := by
        rw [cumsum0_eq, concatN_go_eq]
        exact hgo
      simp only [concatenateN, hany, Bool.false_eq_true, if_false, bind, Except.bind, hgo', hstarts]
      rfl
    cases rep with
    | true => exact ⟨data, by rw [hrun]; rfl, hdataPart, hdataPD, hdataN⟩
    | false =>
      obtain ⟨c', hrr, hwf', hpd', hN', _, hne', hhead'⟩ := removeRepeats_wfi data hdataPart.1 hIne
      exact ⟨c', by rw [hrun]; exact hrr, ⟨hwf', hne', by rw [hhead']; exact hdataHead⟩, by rw [hpd', hdataPD],
        by rw [hN', hdataN]⟩

theorem perDump_length_wfi (c : Cat V) (h : c.WFi) : c.perDump.length = c.numDumps := by
  let c0 : Cat Nat := { uniq := List.range c.uniq.length, idx := c.idx, ev := c.ev }
  have h0 : c0.WF := ⟨h.1, h.2.1, by intro i hi; simpa [c0] using h.2.2 i hi, List.nodup_range⟩
  have := perDump_length c0 h0
  rw [perDump_eq_idx] at this ⊢
  simpa [c0, Cat.perDumpIdx, Cat.numDumps] using this

/-- **Partition followed by NaN-aware concatenation is the identity on the per-dump list**, for
    every series that starts at dump 0 (NaN among its values or not) and every strictly increasing
    list of segment starts from 0 to the number of dumps, with or without repeat removal -/
theorem partition_concatN_id (nan : V → Bool) (c : Cat V) (h : c.Part) (s1 : Nat) (ss : List Nat)
    (hs : (0 :: s1 :: ss).Pairwise (· < ·)) (hN : (0 :: s1 :: ss).getLastD 0 = c.numDumps) (rep : Bool) :
    ∃ parts c', c.partition (0 :: s1 :: ss) = .ok parts ∧ concatenateN nan parts rep = .ok c' ∧
      c'.Parti ∧ c'.perDump = c.perDump ∧ c'.numDumps = c.numDumps := by
  obtain ⟨parts, hp, hall, hlen, hflat⟩ := partition_spec c h 0 (s1 :: ss) hs (by omega)
  have hne : parts ≠ [] := by
    intro h0; rw [h0] at hlen; simp at hlen
  obtain ⟨c', hc, hc'part, hpd, hnum⟩ := concatN_spec nan parts (fun p hp' => (hall p hp').1) hne rep
  have hpd' : c'.perDump = c.perDump := by
    rw [hpd, hflat, hN]
    simp only [List.drop_zero, Nat.sub_zero]
    rw [← perDump_length c h.1, List.take_length]
  refine ⟨parts, c', hp, hc, hc'part, hpd', ?_⟩
  rw [← perDump_length_wfi c' hc'part.1, ← perDump_length c h.1, hpd']

end Categorical
