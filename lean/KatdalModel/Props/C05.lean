/-
  C05 — HDF5-era lazy and concatenated indexers equal composed outer indexing.

  "For any array-like source (including HDF5 datasets), first-stage selection, chain of
   transforms and second-stage index made of integers, slices, boolean masks and strictly
   increasing sequences of non-negative integers on any axes, the lazy indexer returns exactly
   the transforms applied to source[first stage][second stage] under outer indexing, its shape
   and dtype properties equal those of the full result, and an indexer that concatenates several
   indexers along the first axis behaves like the same index applied to the concatenation of
   their results.  Index forms it does not support (unsorted, repeated or negative integers in a
   sequence) are rejected with an error, never answered with different data."

  Model: KatdalModel/Model/LazyIndexer.lean (mirror of LazyIndexer.__init__/__getitem__ incl. the
  contiguous-run decomposition and the 20 % span-and-postselect heuristic, and of
  ConcatenatedLazyIndexer.__getitem__).  Spec: `LazyIx.spec1` = numpy's per-axis meaning of the
  first stage composed with numpy's meaning of the second stage (`Index.composeList`).
-/
import KatdalModel.Lemmas.FirstStage
import KatdalModel.Lemmas.Compose
import KatdalModel.Lemmas.ConcatList
import KatdalModel.Lemmas.ConcatTail
open Np Index LazyIx

namespace C05

theorem pairwise_ofNat (l : List Nat) (h : l.Pairwise (· < ·)) : (l.map Int.ofNat).Pairwise (· < ·) := by
  induction l with
  | nil => exact List.Pairwise.nil
  | cons a t ih =>
    obtain ⟨h1, h2⟩ := List.pairwise_cons.mp h
    simp only [List.map_cons]
    refine List.pairwise_cons.mpr ⟨?_, ih h2⟩
    intro y hy
    simp only [List.mem_map] at hy
    obtain ⟨x, hx, rfl⟩ := hy
    have := h1 x hx
    simp only [Int.ofNat_eq_natCast]; omega

theorem map_toNat_ofNat (l : List Nat) : (l.map Int.ofNat).map Int.toNat = l := by
  induction l with
  | nil => rfl
  | cons a t ih => simp [ih]

/-- what `LazyIndexer.__init__` stores for a supported first-stage index, versus numpy's meaning
    of that index: there is a strictly increasing in-range list `L` of source positions such
    that numpy selects exactly `L`, and `_lookup` is either `L` or `None` (then `L` = whole axis) -/
theorem mkLookup_spec (n : Nat) (k1 : Ix) (hG : stage1InG n k1 = true) :
    ∃ L : List Int, L.Pairwise (· < ·) ∧ (∀ x ∈ L, 0 ≤ x ∧ x < n) ∧
      k1.resolve n = .ok (.many (L.map Int.toNat)) ∧
      ((mkLookup n k1 = .ok none ∧ L = fullList n) ∨ mkLookup n k1 = .ok (some L)) := by
  cases k1 with
  | int i => simp [stage1InG] at hG
  | slice a b c =>
    simp only [stage1InG, decide_eq_true_eq] at hG
    cases hi : sliceIndices n a b c with
    | none =>
      exfalso
      unfold sliceIndices at hi
      simp only at hi
      split at hi
      · omega
      · simp at hi
    | some t =>
      obtain ⟨s, e, st⟩ := t
      have hsl : sliceList n a b c = some (rangeList s e st) := by simp [sliceList, hi]
      obtain ⟨hp, hb⟩ := sliceList_pos_spec hsl hG
      refine ⟨rangeList s e st, hp, hb, by simp [Ix.resolve, hsl], ?_⟩
      simp only [mkLookup, hi]
      split
      · rename_i heq
        simp only [Prod.mk.injEq] at heq
        obtain ⟨rfl, rfl, rfl⟩ := heq
        exact Or.inl ⟨rfl, rfl⟩
      · exact Or.inr rfl
  | mask m =>
    simp only [stage1InG, decide_eq_true_eq] at hG
    obtain ⟨hp, hb⟩ := nonzero_spec m
    by_cases hall : m.all id = true
    · refine ⟨fullList n, rangeList_pos_pairwise 0 n 1 (by omega), ?_, ?_, ?_⟩
      · intro x hx
        have := rangeList_pos_bounds 1 (by omega) _ 0 n (Nat.le_refl _) x hx
        omega
      · simp only [Ix.resolve, hG, if_true, nonzero_all_true m hall]
      · exact Or.inl ⟨by simp [mkLookup, hG, hall], rfl⟩
    · refine ⟨(nonzero m).map Int.ofNat, pairwise_ofNat _ hp, ?_, ?_, ?_⟩
      · intro x hx
        simp only [List.mem_map] at hx
        obtain ⟨k, hk, rfl⟩ := hx
        have := hb k hk
        simp only [Int.ofNat_eq_natCast]; omega
      · simp only [Ix.resolve, hG, if_true, map_toNat_ofNat]
      · exact Or.inr (by simp [mkLookup, hG, hall])
  | list l =>
    simp only [stage1InG, Bool.and_eq_true, List.all_eq_true, decide_eq_true_eq] at hG
    obtain ⟨hinc, hlb⟩ := hG
    exact ⟨l, (strictInc_iff_pairwise l).mp hinc, hlb,
      by simp only [Ix.resolve, normList_nonneg n l hlb]; rfl, Or.inr rfl⟩

/-- **C05, one axis, supported forms**: `LazyIndexer(src, k1)[k2]` reads exactly the source
    positions that `src[k1][k2]` reads under numpy's per-axis meaning, for every first stage in
    {positive-step slice, full-length mask, strictly increasing in-range list} and every second
    stage in {int incl. negative, positive-step slice, mask incl. all-False, strictly increasing
    in-range list} — whichever of the two internal read strategies is taken. -/
theorem c05_axis (n n1 : Nat) (k1 k2 : Ix) (h1 : stage1InG n k1 = true)
    (hn1 : initialShape1 n k1 = .ok n1) (h2 : stage2InG n1 k2 = true) :
    getitem1 n k1 k2 = spec1 n k1 k2 := by
  obtain ⟨L, hp, hb, hres, hlk⟩ := mkLookup_spec n k1 h1
  unfold getitem1 spec1
  rw [hres]
  simp only [bind, Except.bind, List.length_map]
  rcases hlk with ⟨hnone, hL⟩ | hsome
  · -- `_lookup` is None
    rw [hnone]
    have hn : n1 = n := by
      unfold initialShape1 at hn1
      rw [hnone] at hn1
      simp [bind, Except.bind, pure, Except.pure] at hn1
      exact hn1.symm
    subst hn
    have := second_stage_full n1 k2 h2
    simp only [bind, Except.bind] at this
    rw [this, hL, fullList_length]
    cases hr : k2.resolve n1 with
    | error e => rfl
    | ok s2 =>
      simp only
      exact (compose_full n1 s2 (resolve_valid n1 k2 s2 hr)).symm
  · rw [hsome]
    have hn : n1 = L.length := by
      unfold initialShape1 at hn1
      rw [hsome] at hn1
      simp [bind, Except.bind, pure, Except.pure] at hn1
      exact hn1.symm
    subst hn
    have := second_stage_lookup n L hp hb k2 h2
    simp only [bind, Except.bind] at this
    exact this

/-- the advertised first-stage length is the number of positions numpy selects -/
theorem c05_initial_shape (n : Nat) (k1 : Ix) (h1 : stage1InG n k1 = true) :
    ∃ ks, k1.resolve n = .ok (.many ks) ∧ initialShape1 n k1 = .ok ks.length := by
  obtain ⟨L, _, _, hres, hlk⟩ := mkLookup_spec n k1 h1
  refine ⟨L.map Int.toNat, hres, ?_⟩
  unfold initialShape1
  rcases hlk with ⟨hnone, hL⟩ | hsome
  · rw [hnone, hL]; simp [bind, Except.bind, pure, Except.pure, fullList_length]
  · rw [hsome]; simp [bind, Except.bind, pure, Except.pure]

/-- **Unsupported sequences are rejected**: with any supported first stage, a second-stage
    integer list (entries in `-len .. len-1`, i.e. valid for numpy) whose *resolved* positions are
    not strictly increasing — unsorted or repeated entries — raises TypeError; it is never
    answered with data.  (A list with negative entries whose resolved positions happen to be
    strictly increasing is answered exactly as numpy would, see `c05_axis`' proof and
    `c05_negative_list`; out-of-bounds entries are refused, `c05_list_out_of_bounds`.) -/
theorem c05_reject_unsorted (n : Nat) (L : List Int) (k1 : Ix) (l : List Int) (ks : List Nat) (vs : List Int)
    (hlk : mkLookup n k1 = .ok (some L))
    (hks : normList L.length l = .ok ks) (hvs : ks.mapM (getNat L) = .ok vs)
    (hne : vs ≠ []) (hin : ∀ x ∈ normNeg n vs, 0 ≤ x ∧ x < n) (hbad : strictInc (normNeg n vs) = false) :
    getitem1 n k1 (.list l) = .error .type := by
  unfold getitem1
  rw [hlk]
  simp only [bind, Except.bind, mapThrough, indexList, hks, hvs, pure, Except.pure]
  rw [axisSelect_arr_norm n vs hne hin]
  simp [axisSelectArr, hbad]

/-- without a first-stage lookup: a list that is unsorted or repeats a position once its negative
    entries are counted from the end is rejected (TypeError) -/
theorem c05_reject_unsorted_nolookup (n : Nat) (k1 : Ix) (l : List Int)
    (hlk : mkLookup n k1 = .ok none) (hne : l ≠ []) (hin : ∀ x ∈ normNeg n l, 0 ≤ x ∧ x < n)
    (hbad : strictInc (normNeg n l) = false) :
    getitem1 n k1 (.list l) = .error .type := by
  unfold getitem1
  rw [hlk]
  simp only [bind, Except.bind, mapThrough]
  rw [axisSelect_arr_norm n l hne hin]
  simp [axisSelectArr, hbad]

/-- **Negative integers in a sequence** (no first-stage lookup): entries count from the end as in
    numpy; a list that is then in bounds and strictly increasing reads exactly numpy's positions
    (the behaviour since the repair in /repo 2988895; before it `[-1, 0, 1]` on an axis of length 2
    was answered with rows `[1, 1, 1]`) -/
theorem c05_negative_list (n : Nat) (k1 : Ix) (l : List Int)
    (hlk : mkLookup n k1 = .ok none) (hne : l ≠ []) (hin : ∀ x ∈ normNeg n l, 0 ≤ x ∧ x < n)
    (hinc : strictInc (normNeg n l) = true) :
    getitem1 n k1 (.list l) = .ok (.many ((normNeg n l).map Int.toNat)) := by
  unfold getitem1
  rw [hlk]
  simp only [bind, Except.bind, mapThrough]
  rw [axisSelect_arr_norm n l hne hin]
  exact axisSelectArr_spec n (normNeg n l) (by cases l <;> simp_all [normNeg]) hinc hin

/-- entries that are out of bounds even after counting from the end are refused (IndexError),
    never answered -/
theorem c05_list_out_of_bounds (n : Nat) (k1 : Ix) (l : List Int)
    (hlk : mkLookup n k1 = .ok none) (h : ∃ x ∈ normNeg n l, x < 0 ∨ x ≥ (n : Int)) :
    getitem1 n k1 (.list l) = .error .index := by
  unfold getitem1
  rw [hlk]
  simp only [bind, Except.bind, mapThrough]
  exact axisSelect_arr_oob n l h

/-- spec for all axes -/
def specAll : List Nat → List Ix → List Ix → Except Err (List Sel)
  | [], [], [] => .ok []
  | n :: ns, a :: as, b :: bs => do
    let s ← spec1 n a b
    let r ← specAll ns as bs
    pure (s :: r)
  | _, _, _ => .error .index

/-- every axis of the request is inside the supported grammar -/
def allInG : List Nat → List Ix → List Ix → Bool
  | [], [], [] => true
  | n :: ns, a :: as, b :: bs =>
    stage1InG n a &&
    (match initialShape1 n a with
     | .ok n1 => stage2InG n1 b
     | .error _ => false) && allInG ns as bs
  | _, _, _ => false

/-- **C05, all axes**: the N-D indexer is the per-axis composition on every axis, hence (by
    `Index.oindexSel` / `Index.oindexSel_map`) returns `T(src[k1][k2])` under outer indexing. -/
theorem c05_getitem : ∀ (shape : List Nat) (k1 k2 : List Ix), allInG shape k1 k2 = true →
    getitemAll shape k1 k2 = specAll shape k1 k2 := by
  intro shape
  induction shape with
  | nil =>
    intro k1 k2 h
    cases k1 <;> cases k2 <;> simp_all [allInG, getitemAll, specAll]
  | cons n ns ih =>
    intro k1 k2 h
    cases k1 with
    | nil => simp [allInG] at h
    | cons a as =>
      cases k2 with
      | nil => simp [allInG] at h
      | cons b bs =>
        simp only [allInG, Bool.and_eq_true] at h
        obtain ⟨⟨h1, h2⟩, h3⟩ := h
        cases hn1 : initialShape1 n a with
        | error e => simp [hn1] at h2
        | ok n1 =>
          simp only [hn1] at h2
          simp only [getitemAll, specAll, c05_axis n n1 a b h1 hn1 h2, ih as bs h3]

/-- transforms are applied to the indexed result: an elementwise transform commutes with outer
    indexing (restated from `Index.oindexSel_map` for the audit) -/
theorem c05_transform {α β} (f : α → β) (a : NDArr α) (s : List Sel) :
    oindexSel (a.map f) s = (oindexSel a s).map f := oindexSel_map f a s

/-- **Concatenated indexer, integer head index** (negative allowed): reads the part and local
    position that the same index applied to the concatenation reads -/
theorem c05_concat_int (lens : List Nat) (i : Int) (h : -(total lens : Int) ≤ i ∧ i < total lens) :
    concatHead lens (.int i) = concatSpec lens (.int i) := concatHead_int lens i h

/-- **Concatenated indexer, boolean-mask head index**: partitioning the mask over the parts equals
    applying it to the concatenation (same rows, same order), for any number and sizes of parts
    including empty parts. -/
theorem c05_concat_mask (lens : List Nat) (m : List Bool) (h : m.length = total lens) :
    concatHead lens (.mask m) = concatSpec lens (.mask m) := concatHead_mask lens m h

/-- **Concatenated indexer, positive-step slice head index**: every start/stop (negative, `None`,
    out of range), every stride > 0, empty selections included, any number (≥ 1) and sizes of parts
    incl. empty parts: the per-part slices `slice(chunk_start, stop - offset, stride)` read exactly
    `range(*slice.indices(total))`, in order.  (Full since the repair of C05-concat-empty-slice in
    /repo commit 9b8b3cd; before it an empty slice whose start lay in a later part than its stop
    raised ValueError.) -/
theorem c05_concat_slice (lens : List Nat) (hlens : lens ≠ []) (a b c : Option Int) (hc : c.getD 1 > 0) :
    concatHead lens (.slice a b c) = concatSpec lens (.slice a b c) :=
  concatHead_slice lens hlens a b c hc

/-- **Concatenated indexer, integer-list head index** (strictly increasing, non-negative, in range —
    the supported form): scattering the entries over the parts and gathering the parts' answers
    reads exactly what the list applied to the concatenation reads, in order; any number and sizes
    of parts incl. empty parts -/
theorem c05_concat_list (lens : List Nat) (l : List Int) (hinc : l.Pairwise (· < ·))
    (hb : ∀ v ∈ l, 0 ≤ v ∧ v < total lens) :
    concatHead lens (.list l) = concatSpec lens (.list l) := concatHead_list lens l hinc hb

/-- an integer list with a negative entry is rejected (TypeError) before anything is read
    (repaired in /repo commit 19788aa: such entries used to be left as uninitialised memory) -/
theorem c05_concat_list_negative_rejected (lens : List Nat) (l : List Int) (h : ∃ v ∈ l, v < 0) :
    concatHead lens (.list l) = .error .type := by
  rw [concatHead_list_unfold]
  have : l.any (· < 0) = true := by
    rw [List.any_eq_true]; obtain ⟨v, hv, hlt⟩ := h; exact ⟨v, hv, by simpa using hlt⟩
  rw [this]; rfl

/-- head-axis forms of the property's grammar on a concatenation of total length `n` -/
def headInG (n : Nat) : Ix → Bool
  | .int i => decide (-(n : Int) ≤ i ∧ i < n)
  | .slice _ _ c => decide (c.getD 1 > 0)
  | .mask m => decide (m.length = n)
  | .list l => strictInc l && l.all (fun v => decide (0 ≤ v ∧ v < n))

/-- **Indexing across part boundaries returns the same as indexing the concatenated arrays**
    (head axis): for every supported head index and every non-empty list of parts of any sizes, the
    (part, local position) pairs read are those of numpy's meaning of the index on the
    concatenation, in the same order, and the scalar flag agrees -/
theorem c05_concat_head (lens : List Nat) (hlens : lens ≠ []) (ix : Ix) (hG : headInG (total lens) ix = true) :
    concatHead lens ix = concatSpec lens ix := by
  cases ix with
  | int i => exact concatHead_int lens i (by simpa [headInG] using hG)
  | slice a b c => exact concatHead_slice lens hlens a b c (by simpa [headInG] using hG)
  | mask m => exact concatHead_mask lens m (by simpa [headInG] using hG)
  | list l =>
    simp only [headInG, Bool.and_eq_true, List.all_eq_true, decide_eq_true_eq] at hG
    exact concatHead_list lens l ((strictInc_iff_pairwise l).mp hG.1) hG.2

/-- **Concatenated indexer, whole request (head and tail axes)**: for every supported head index,
    every non-empty list of parts of any lengths and every tail key made of non-empty position
    lists, the request answers exactly what the same key answers on the concatenation of the parts
    under outer indexing: same error, or same shape and the same element at every in-bounds
    coordinate vector.  (Empty tail selections under a slice or mask head are the recorded finding
    `c05_concat_empty_tail_selection`, see `c05_concat_empty_tail_is_error`; integer tail indices
    are outside the model.) -/
theorem c05_concat_getitem {α} [Inhabited α] (parts : List (NDArr α)) (hparts : parts ≠ [])
    (tailShape : List Nat) (ix : Ix) (tails : List (List Nat))
    (hG : headInG (total (partLens parts)) ix = true)
    (hne : ∀ t ∈ tails, t ≠ []) :
    match concatFullSpec parts tailShape ix tails with
    | .error e => concatFull parts ix tails = .error e
    | .ok s => ∃ r, concatFull parts ix tails = .ok r ∧ r.shape = s.shape ∧
        ∀ js, Index.inBounds s.shape js → r.get js = s.get js :=
  concatFull_eq_spec parts tailShape ix tails
    (c05_concat_head _ (partLens_ne_nil parts hparts) ix hG) hne

/-- **Whole request, integer and integer-list heads**: these two forms do not reshape chunks (a
    scalar head hands the key straight to its part, a list head scatters into an array of the final
    shape), so the request equals the same key on the concatenation for EVERY tail key of position
    lists, empty selections included -/
theorem c05_concat_getitem_int_list {α} [Inhabited α] (parts : List (NDArr α)) (hparts : parts ≠ [])
    (tailShape : List Nat) (ix : Ix) (tails : List (List Nat))
    (hG : headInG (total (partLens parts)) ix = true)
    (hform : match ix with | .int _ => True | .list _ => True | _ => False) :
    match concatFullSpec parts tailShape ix tails with
    | .error e => concatFull parts ix tails = .error e
    | .ok s => ∃ r, concatFull parts ix tails = .ok r ∧ r.shape = s.shape ∧
        ∀ js, Index.inBounds s.shape js → r.get js = s.get js := by
  refine concatFull_eq_spec_of parts tailShape ix tails
    (c05_concat_head _ (partLens_ne_nil parts hparts) ix hG) ?_
  cases ix with
  | int i => rfl
  | list l => rfl
  | slice a b c => exact absurd hform (by simp)
  | mask m => exact absurd hform (by simp)

/-- the hypothesis `hne` of `c05_concat_getitem` cannot be dropped: an empty tail selection under a
    slice head is answered with ValueError (the chunk `.reshape((-1,) + shape_tails)` fails) although
    the same key has an (empty) answer on the concatenation - recorded finding
    `c05_concat_empty_tail_selection`, replayed on the implementation by the harness -/
theorem c05_concat_empty_tail_is_error :
    ∃ (parts : List (NDArr Nat)) (tailShape : List Nat) (ix : Ix) (tails : List (List Nat)),
      parts ≠ [] ∧ headInG (total (partLens parts)) ix = true ∧
      (concatFullSpec parts tailShape ix tails).toBool = true ∧
      (match concatFull parts ix tails with | .error .value => true | _ => false) = true :=
  ⟨[⟨[2, 3], fun js => js.foldl (· * 10 + ·) 1⟩, ⟨[1, 3], fun js => js.foldl (· * 10 + ·) 2⟩], [3],
    .slice none none none, [[]], by simp, by decide, by rfl, by rfl⟩

/-- negative-step head slices are NOT covered: the code answers with other rows than numpy
    (known finding C05-concat-negative-step; replayed on the implementation by the harness) -/
theorem c05_concat_slice_negstep_is_false :
    ¬ ∀ (lens : List Nat) (a b c : Option Int), lens ≠ [] → c.getD 1 ≠ 0 →
      concatHead lens (.slice a b c) = concatSpec lens (.slice a b c) := by
  intro h
  have := h [4, 1, 4, 2] (some (-3)) (some 9) (some (-3)) (by decide) (by decide)
  revert this; decide

/-! ### Non-vacuity and witnesses -/

example : allInG [6, 4] [.mask [true, false, true, true, false, true], .slice none none none]
    [.list [1, 3], .int (-1)] = true := by decide
example : getitemAll [6, 4] [.mask [true, false, true, true, false, true], .slice none none none]
    [.list [1, 3], .int (-1)] = .ok [.many [2, 5], .one 3] := by decide
-- dense selection (span-and-postselect strategy) and sparse selection (one slice per run)
example : getitem1 10 (.slice none none none) (.list [1, 2, 5, 6]) = .ok (.many [1, 2, 5, 6]) := by decide
example : getitem1 30 (.slice none none none) (.list [1, 2, 5, 6]) = .ok (.many [1, 2, 5, 6]) := by decide
example : concatHead [2, 0, 3] (.int (-1)) = .ok (true, [(2, 2)]) := by decide
example : concatHead [2, 3] (.mask [false, true, true, false, true]) = .ok (false, [(0, 1), (1, 0), (1, 2)]) := by decide
example : sliceIndices (total [3, 0, 3]) (some (-5)) none (some 2) = some (1, 6, 2) ∧ (1 : Int) < 6 := by decide
example : concatHead [3, 2] (.slice (some 4) (some 1) none) = .ok (false, []) := by decide
example : concatHead [3, 0, 3] (.slice (some (-5)) none (some 2)) = .ok (false, [(0, 1), (2, 0), (2, 2)]) := by decide
example : concatHead [3, 3] (.slice (some 1) (some 6) (some 2)) = concatSpec [3, 3] (.slice (some 1) (some 6) (some 2)) := by decide
example : concatHead [2, 0, 3] (.list [1, 2, 4]) = concatSpec [2, 0, 3] (.list [1, 2, 4]) := by decide
example : concatHead [2, 0, 3] (.list [1, 2, 4]) = .ok (false, [(0, 1), (2, 0), (2, 2)]) := by decide
example : headInG (total [2, 0, 3]) (.list [1, 2, 4]) = true ∧ headInG (total [2, 0, 3]) (.slice (some (-4)) none (some 3)) = true := by decide
-- negative entries count from the end; [-1, 0, 1] on an axis of length 2 is rejected, not answered with
-- rows [1, 1, 1] (the defect repaired in /repo commit 2988895)
example : getitem1 2 (.slice none none none) (.list [-1, 0, 1]) = .error .type := by decide
example : getitem1 6 (.slice none none none) (.list [-3, -2, -1]) = .ok (.many [3, 4, 5]) := by decide
example : getitem1 2 (.slice none none none) (.list [-3]) = .error .index := by decide
-- repeated equal entries are rejected (the defect repaired in /repo commit 35c2508)
example : getitem1 6 (.slice none none none) (.list [2, 2]) = .error .type := by decide
-- all-False mask is an empty selection (the defect repaired in /repo commit 51619a3)
example : getitem1 3 (.slice none none none) (.mask [false, false, false]) = .ok (.many []) := by decide
-- whole request on two parts with a tail axis: rows 0 and 2 of the concatenation, columns 2 and 0
example : (match concatFull [⟨[2, 3], fun js => js.foldl (· * 10 + ·) 1⟩, ⟨[1, 3], fun js => js.foldl (· * 10 + ·) 2⟩]
    (.list [0, 2]) [[2, 0]] with
    | .ok r => (r.shape, [r.get [0, 0], r.get [0, 1], r.get [1, 0], r.get [1, 1]])
    | .error _ => ([], [])) = ([2, 2], [102, 100, 202, 200]) := by decide
example : (match concatFullSpec [⟨[2, 3], fun js => js.foldl (· * 10 + ·) 1⟩, ⟨[1, 3], fun js => js.foldl (· * 10 + ·) 2⟩] [3]
    (.list [0, 2]) [[2, 0]] with
    | .ok r => (r.shape, [r.get [0, 0], r.get [0, 1], r.get [1, 0], r.get [1, 1]])
    | .error _ => ([], [])) = ([2, 2], [102, 100, 202, 200]) := by decide
-- a list head with an empty tail selection: shape (2, 0), no error (where a slice head raises, see above)
example : (match concatFull [⟨[2, 3], fun js => js.foldl (· * 10 + ·) 1⟩, ⟨[1, 3], fun js => js.foldl (· * 10 + ·) 2⟩]
    (.list [0, 2]) [[]] with
    | .ok r => r.shape
    | .error _ => [9]) = [2, 0] := by decide

end C05
