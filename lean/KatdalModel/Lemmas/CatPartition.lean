/-
  C11 lemmas, part 3: `partition` cuts the per-dump list into its segments, and concatenating the
  parts gives the list back.
-/
import KatdalModel.Lemmas.CatOps
open Np

namespace Categorical

set_option linter.unusedSimpArgs false
set_option linter.unusedSectionVars false

variable {V : Type} [DecidableEq V]

/-! ### slices of written-out segments -/

/-- value in effect at dump `s`: that of the last pair starting at or before `s` -/
def curAt {α : Type} : α → List (α × Nat) → Nat → α
  | cur, [], _ => cur
  | cur, (y, d) :: t, s => if d ≤ s then curAt y t s else cur

theorem filter_all {α : Type} (p : α → Bool) (l : List α) (h : ∀ x ∈ l, p x = true) : l.filter p = l :=
  List.filter_eq_self.mpr h

theorem filter_none {α : Type} (p : α → Bool) (l : List α) (h : ∀ x ∈ l, p x = false) : l.filter p = [] := by
  apply List.filter_eq_nil_iff.mpr
  intro x hx
  simp [h x hx]

theorem drop_expandFrom {α : Type} (N : Nat) : ∀ (Q : List (α × Nat)) (a : Nat) (cur : α) (s : Nat),
    (a :: Q.map (·.2)).Pairwise (· ≤ ·) → a ≤ s →
    (expandFrom N a cur Q).drop (s - a) =
      expandFrom N s (curAt cur Q s) (Q.filter (fun p => decide (s < p.2))) := by
  intro Q
  induction Q with
  | nil =>
    intro a cur s _ has
    simp only [expandFrom, curAt, List.filter_nil, List.drop_replicate]
    congr 1; omega
  | cons p t ih =>
    intro a cur s hs has
    obtain ⟨y, d⟩ := p
    have hs' := List.pairwise_cons.mp hs
    have had : a ≤ d := hs'.1 d (by simp)
    have hst : (d :: t.map (·.2)).Pairwise (· ≤ ·) := by simpa using hs'.2
    simp only [expandFrom, curAt]
    by_cases hds : d ≤ s
    · have hns : ¬ s < d := by omega
      simp only [hds, if_true, List.filter_cons, hns, decide_false, Bool.false_eq_true, if_false]
      rw [← ih d y s hst hds]
      have : s - a = (d - a) + (s - d) := by omega
      rw [this, ← List.drop_drop]
      congr 1
      rw [List.drop_left' (by simp)]
    · have hsd : s < d := by omega
      have hall : ∀ q ∈ t, decide (s < q.2) = true := by
        intro q hq
        have := (List.pairwise_cons.mp hst).1 q.2 (List.mem_map_of_mem hq)
        simp only [decide_eq_true_eq]; omega
      simp only [hds, if_false, List.filter_cons, hsd, decide_true, if_true, filter_all _ t hall, expandFrom]
      rw [List.drop_append_of_le_length (by simp; omega), List.drop_replicate]
      congr 2; omega

theorem take_expandFrom {α : Type} (N : Nat) : ∀ (Q : List (α × Nat)) (a : Nat) (cur : α) (e : Nat),
    (a :: Q.map (·.2)).Pairwise (· ≤ ·) → a ≤ e → e ≤ N →
    (expandFrom N a cur Q).take (e - a) = expandFrom e a cur (Q.filter (fun p => decide (p.2 < e))) := by
  intro Q
  induction Q with
  | nil =>
    intro a cur e _ hae heN
    simp only [expandFrom, List.filter_nil, List.take_replicate]
    congr 1; omega
  | cons p t ih =>
    intro a cur e hs hae heN
    obtain ⟨y, d⟩ := p
    have hs' := List.pairwise_cons.mp hs
    have had : a ≤ d := hs'.1 d (by simp)
    have hst : (d :: t.map (·.2)).Pairwise (· ≤ ·) := by simpa using hs'.2
    simp only [expandFrom]
    by_cases hde : d < e
    · simp only [List.filter_cons, hde, decide_true, if_true, expandFrom]
      rw [← ih d y e hst (by omega) heN]
      have : e - a = (d - a) + (e - d) := by omega
      rw [this, List.take_append]
      simp only [List.length_replicate, Nat.add_sub_cancel_left]
      congr 1
      rw [List.take_of_length_le (by simp)]
    · have hall : ∀ q ∈ t, decide (q.2 < e) = false := by
        intro q hq
        have := (List.pairwise_cons.mp hst).1 q.2 (List.mem_map_of_mem hq)
        simp only [decide_eq_false_iff_not]; omega
      simp only [List.filter_cons, hde, decide_false, Bool.false_eq_true, if_false, filter_none _ t hall, expandFrom]
      rw [List.take_append_of_le_length (by simp; omega), List.take_replicate]
      congr 1; omega

theorem shift_expandFrom {α : Type} (s : Nat) : ∀ (Q : List (α × Nat)) (N a : Nat) (cur : α),
    (∀ p ∈ Q, s ≤ p.2) → s ≤ a → s ≤ N →
    expandFrom (N - s) (a - s) cur (Q.map (fun p => (p.1, p.2 - s))) = expandFrom N a cur Q := by
  intro Q
  induction Q with
  | nil =>
    intro N a cur _ hsa hsN
    simp only [List.map_nil, expandFrom]
    congr 1; omega
  | cons p t ih =>
    intro N a cur h hsa hsN
    obtain ⟨y, d⟩ := p
    have hd : s ≤ d := h (y, d) (List.mem_cons_self ..)
    simp only [List.map_cons, expandFrom]
    rw [ih N d y (fun q hq => h q (List.mem_cons_of_mem _ hq)) hd hsN]
    congr 2; omega

end Categorical
