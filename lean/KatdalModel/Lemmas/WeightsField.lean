import KatdalModel.Model.Weights
import Mathlib.Algebra.Order.Field.Basic
import Mathlib.Tactic.Linarith
import Mathlib.Tactic.FieldSimp
import Mathlib.Tactic.Ring
open Np

namespace Weights
end Weights
