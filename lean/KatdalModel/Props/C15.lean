/-
  C15 — Weights, excision and averaging are reconstructed as documented.

  "Visibility weights of a v4 data set equal stored weight times per-channel weight, divided by the
   product of the two inputs' autocorrelation powers at the same dump and channel when the stream
   declares unscaled stored weights (and the unscaled weights are that product multiplied back when
   it does not), with a tiny positive weight substituted where an autocorrelation is zero or not
   finite; HDF5 v3 weights are the product of the two stored weight arrays and absent weights read
   as one. The excision fraction equals one minus the unscaled weight rounded to a whole number of
   correlator dumps over the accumulations per dump, the optional Van Vleck correction changes only
   the real autocorrelations, monotonically, and results do not depend on chunking along the
   baseline axis. Averaging in time and frequency returns the weight-averaged unflagged
   visibilities, the summed weights and the AND (or optionally OR) of the flags of each bin."

  Model: KatdalModel/Model/Weights.lean (mirror of vis_flags_weights.py, visdatav4.py excision
  transforms, van_vleck wiring, averager.py, h5datav3.py weights transform) next to the documented
  meaning (`kernelSpec`, `weightsRowSpec`, `vanVleckRowSpec`, `binSpec`).
  Floats: `Scalar K` classification over any linearly ordered field `K`; rounding is not modelled.
-/
import KatdalModel.Lemmas.WeightsList
import KatdalModel.Lemmas.WeightsField
open Np Weights

namespace C15

set_option linter.unusedSectionVars false

/-! ## 1. `corrprod_to_autocorr` -/

section lookup
variable {α : Type} [DecidableEq α]

/-- **autocorr_lookup**: for every correlation product `(x, y)` the two returned indices point
    (through `auto_indices`) at products `(x, x)` and `(y, y)`, wherever those sit in the ordering
    and whatever the polarisations of `x` and `y` are. -/
theorem autocorr_lookup (cps : List (α × α)) (ai i1 i2 : List Nat)
    (h : corrprodToAutocorr cps = .ok (ai, i1, i2)) :
    i1.length = cps.length ∧ i2.length = cps.length ∧
    ∀ (b : Nat) (x y : α), cps[b]? = some (x, y) →
      ∃ k1 k2 p1 p2, i1[b]? = some k1 ∧ i2[b]? = some k2 ∧ ai[k1]? = some p1 ∧ ai[k2]? = some p2 ∧
        cps[p1]? = some (x, x) ∧ cps[p2]? = some (y, y) := by
  unfold corrprodToAutocorr at h
  cases h1 : mapME (fun p => lookupKey (autosFrom 0 cps) p.1) cps with
  | error e => simp [h1] at h
  | ok r1 =>
    cases h2 : mapME (fun p => lookupKey (autosFrom 0 cps) p.2) cps with
    | error e => simp [h1, h2] at h
    | ok r2 =>
      simp [h1, h2] at h
      obtain ⟨rfl, rfl, rfl⟩ := h
      obtain ⟨hl1, hp1⟩ := mapME_ok h1
      obtain ⟨hl2, hp2⟩ := mapME_ok h2
      refine ⟨hl1, hl2, ?_⟩
      intro b x y hb
      obtain ⟨k1, hk1, hf1⟩ := hp1 b (x, y) hb
      obtain ⟨k2, hk2, hf2⟩ := hp2 b (x, y) hb
      obtain ⟨p1, hp1'⟩ := lookupKey_ok hf1
      obtain ⟨p2, hp2'⟩ := lookupKey_ok hf2
      have m1 := autosFrom_mem cps 0 x p1 (List.mem_of_getElem? hp1')
      have m2 := autosFrom_mem cps 0 y p2 (List.mem_of_getElem? hp2')
      refine ⟨k1, k2, p1, p2, hk1, hk2, ?_, ?_, by simpa using m1.2, by simpa using m2.2⟩
      · simp [List.getElem?_map, hp1']
      · simp [List.getElem?_map, hp2']

example : corrprodToAutocorr [("a", "bv"), ("bv", "bv"), ("a", "a"), ("bv", "a")]
    = .ok ([1, 2], [1, 0, 1, 0], [0, 0, 1, 1]) := by decide

/-- `auto_indices` is exactly the increasing list of positions of autocorrelation products -/
theorem autocorr_indices (cps : List (α × α)) (ai i1 i2 : List Nat)
    (h : corrprodToAutocorr cps = .ok (ai, i1, i2)) :
    List.Pairwise (· < ·) ai ∧ ∀ p : Nat, p ∈ ai ↔ ∃ a, cps[p]? = some (a, a) := by
  unfold corrprodToAutocorr at h
  cases h1 : mapME (fun p => lookupKey (autosFrom 0 cps) p.1) cps with
  | error e => simp [h1] at h
  | ok r1 =>
    cases h2 : mapME (fun p => lookupKey (autosFrom 0 cps) p.2) cps with
    | error e => simp [h1, h2] at h
    | ok r2 =>
      simp [h1, h2] at h
      obtain ⟨rfl, rfl, rfl⟩ := h
      refine ⟨autosFrom_sorted cps 0, ?_⟩
      intro p
      constructor
      · intro hp
        simp at hp
        obtain ⟨l, hl⟩ := hp
        exact ⟨l, by simpa using (autosFrom_mem cps 0 l p hl).2⟩
      · intro ⟨a, ha⟩
        have := autosFrom_complete cps 0 p a ha
        simp only [Nat.zero_add] at this
        simp
        exact ⟨a, this⟩

example : ∃ i1 i2, corrprodToAutocorr [("a", "b"), ("b", "b"), ("a", "a")] = .ok ([1, 2], i1, i2) :=
  ⟨[1, 0, 1], [0, 0, 1], by decide⟩

/-- a missing autocorrelation ⇒ `KeyError` (and nothing else ever fails) -/
theorem autocorr_lookup_keyerror (cps : List (α × α)) (e : Err) (h : corrprodToAutocorr cps = .error e) :
    e = .key ∧ ∃ x y, (x, y) ∈ cps ∧ ((∀ p : Nat, cps[p]? ≠ some (x, x)) ∨ (∀ p : Nat, cps[p]? ≠ some (y, y))) := by
  have key : ∀ (a : α), (∀ q ∈ autosFrom 0 cps, q.1 ≠ a) → ∀ p : Nat, cps[p]? ≠ some (a, a) := by
    intro a hq p hp
    have := autosFrom_complete cps 0 p a hp
    exact hq _ this rfl
  unfold corrprodToAutocorr at h
  cases h1 : mapME (fun p => lookupKey (autosFrom 0 cps) p.1) cps with
  | error e1 =>
    simp [h1] at h
    subst h
    obtain ⟨⟨x, y⟩, hm, hf⟩ := mapME_error h1
    obtain ⟨he, hq⟩ := lookupKey_error hf
    exact ⟨he, x, y, hm, Or.inl (key x hq)⟩
  | ok r1 =>
    cases h2 : mapME (fun p => lookupKey (autosFrom 0 cps) p.2) cps with
    | error e2 =>
      simp [h1, h2] at h
      subst h
      obtain ⟨⟨x, y⟩, hm, hf⟩ := mapME_error h2
      obtain ⟨he, hq⟩ := lookupKey_error hf
      exact ⟨he, x, y, hm, Or.inr (key y hq)⟩
    | ok r2 => simp [h1, h2] at h

example : corrprodToAutocorr [("a", "b"), ("a", "a")] = .error .key := by decide

/-- conversely: when every input that occurs has its autocorrelation, the lookup succeeds -/
theorem autocorr_lookup_total (cps : List (α × α))
    (hall : ∀ x y, (x, y) ∈ cps → (∃ p : Nat, cps[p]? = some (x, x)) ∧ (∃ p : Nat, cps[p]? = some (y, y))) :
    ∃ ai i1 i2, corrprodToAutocorr cps = .ok (ai, i1, i2) := by
  have tot : ∀ a, (∃ p : Nat, cps[p]? = some (a, a)) → ∃ k, lookupKey (autosFrom 0 cps) a = .ok k := by
    intro a ⟨p, hp⟩
    apply lookupKey_total
    exact ⟨(a, 0 + p), autosFrom_complete cps 0 p a hp, rfl⟩
  obtain ⟨r1, h1⟩ := mapME_total (f := fun p => lookupKey (autosFrom 0 cps) p.1) (l := cps)
    (fun ⟨x, y⟩ hm => tot x (hall x y hm).1)
  obtain ⟨r2, h2⟩ := mapME_total (f := fun p => lookupKey (autosFrom 0 cps) p.2) (l := cps)
    (fun ⟨x, y⟩ hm => tot y (hall x y hm).2)
  exact ⟨(autosFrom 0 cps).map (·.2), r1, r2, by simp [corrprodToAutocorr, h1, h2]⟩

end lookup

/-! ## 2. `weight_power_scale` -/

section wps
variable {K : Type} [Field K] [LinearOrder K] [IsStrictOrderedRing K]
variable {α : Type} [DecidableEq α]

/-- **c15_structure** (one time-frequency sample; `weight_power_scale` treats every sample alike,
    see `c15_structure_3d`): with the lookup arrays of `corrprod_to_autocorr`, the kernel never
    indexes out of range and
    `out[b] = k(re vis[auto₁ b], re vis[auto₂ b], w[b])` where `auto₁ b`, `auto₂ b` are positions
    of the products `(x, x)`, `(y, y)` for `corrprods[b] = (x, y)`, and `k` is the scalar kernel as
    coded (`kernelImpl`). -/
theorem c15_structure (bad : K) (divide : Bool) (cps : List (α × α)) (ai i1 i2 : List Nat)
    (visRe wRow : List (Scalar K)) (hc : corrprodToAutocorr cps = .ok (ai, i1, i2))
    (hB : visRe.length = cps.length) (hW : wRow.length = cps.length) :
    ∃ out, scaleRow bad divide ai i1 i2 visRe wRow = .ok out ∧ out.length = cps.length ∧
      ∀ (b : Nat) (x y : α), cps[b]? = some (x, y) →
        ∃ (p1 p2 : Nat) (a1 a2 w : Scalar K), cps[p1]? = some (x, x) ∧ cps[p2]? = some (y, y) ∧
          visRe[p1]? = some a1 ∧ visRe[p2]? = some a2 ∧ wRow[b]? = some w ∧
          out[b]? = some (kernelImpl bad divide a1 a2 w) := by
  obtain ⟨hl1, hl2, hlook⟩ := autocorr_lookup cps ai i1 i2 hc
  obtain ⟨_, hmem⟩ := autocorr_indices cps ai i1 i2 hc
  have hai : ∀ p ∈ ai, p < visRe.length := by
    intro p hp
    obtain ⟨a, ha⟩ := (hmem p).1 hp
    have := (List.getElem?_eq_some_iff.1 ha).1
    omega
  have hj : ∀ (il : List Nat), (∀ (b : Nat) k, il[b]? = some k → ∃ p, ai[k]? = some p) → ∀ j ∈ il, j < ai.length := by
    intro il hil j hjm
    obtain ⟨b, hb, hbj⟩ := List.getElem_of_mem hjm
    obtain ⟨p, hp⟩ := hil b j (by simp [List.getElem?_eq_getElem hb, hbj])
    exact (List.getElem?_eq_some_iff.1 hp).1
  have hget : ∀ (b : Nat), b < cps.length → ∃ x y, cps[b]? = some (x, y) := by
    intro b hb
    exact ⟨cps[b].1, cps[b].2, by simp [List.getElem?_eq_getElem hb]⟩
  have hj1 : ∀ j ∈ i1, j < ai.length := by
    apply hj
    intro b k hk
    have hb : b < cps.length := by
      have := (List.getElem?_eq_some_iff.1 hk).1; omega
    obtain ⟨x, y, hxy⟩ := hget b hb
    obtain ⟨k1, k2, p1, p2, e1, _, e3, _⟩ := hlook b x y hxy
    rw [hk] at e1
    cases e1
    exact ⟨p1, e3⟩
  have hj2 : ∀ j ∈ i2, j < ai.length := by
    apply hj
    intro b k hk
    have hb : b < cps.length := by
      have := (List.getElem?_eq_some_iff.1 hk).1; omega
    obtain ⟨x, y, hxy⟩ := hget b hb
    obtain ⟨k1, k2, p1, p2, _, e2, _, e4, _⟩ := hlook b x y hxy
    rw [hk] at e2
    cases e2
    exact ⟨p2, e4⟩
  obtain ⟨out, hout⟩ := scaleRow_total bad divide ai i1 i2 visRe wRow hai (by omega) (by omega) (by omega) hj1 hj2
  obtain ⟨hol, hstruct⟩ := scaleRow_structure bad divide ai i1 i2 visRe wRow out hout
  refine ⟨out, hout, by omega, ?_⟩
  intro b x y hxy
  have hb : b < cps.length := (List.getElem?_eq_some_iff.1 hxy).1
  obtain ⟨k1, k2, p1, p2, e1, e2, e3, e4, c1, c2⟩ := hlook b x y hxy
  have hp1 : p1 < visRe.length := by have := (List.getElem?_eq_some_iff.1 c1).1; omega
  have hp2 : p2 < visRe.length := by have := (List.getElem?_eq_some_iff.1 c2).1; omega
  have hbw : b < wRow.length := by omega
  refine ⟨p1, p2, visRe[p1], visRe[p2], wRow[b], c1, c2, by simp [hp1], by simp [hp2], by simp [hbw], ?_⟩
  exact hstruct b k1 k2 p1 p2 _ _ _ (by omega) e1 e2 e3 e4 (by simp [hp1]) (by simp [hp2]) (by simp [hbw])

/-- the `(T, F, B)` function applies the per-sample computation to every `(t, f)` with the same
    lookup arrays -/
theorem c15_structure_3d (bad : K) (divide : Bool) (ai i1 i2 : List Nat) (vis w out : Arr3 (Scalar K))
    (h : weightPowerScale bad divide ai i1 i2 vis w = .ok out) (t f : Nat) (vr wr : List (Scalar K))
    (hv : get2 vis t f = some vr) (hw : get2 w t f = some wr) :
    ∃ orow, get2 out t f = some orow ∧ scaleRow bad divide ai i1 i2 vr wr = .ok orow := by
  unfold weightPowerScale at h
  obtain ⟨_, _, hp⟩ := zipME_ok h
  unfold get2 at hv hw
  cases hvt : vis[t]? with
  | none => simp [hvt] at hv
  | some vt =>
    cases hwt : w[t]? with
    | none => simp [hwt] at hw
    | some wt =>
      simp only [hvt] at hv
      simp only [hwt] at hw
      obtain ⟨ot, hot, hz⟩ := hp t vt wt hvt hwt
      obtain ⟨_, _, hp2⟩ := zipME_ok hz
      obtain ⟨orow, hor, hs⟩ := hp2 f vr wr hv hw
      exact ⟨orow, by simp [get2, hot, hor], hs⟩

/-- **c15_kernel**: the kernel as coded equals the documented kernel
    (`w / (a₁·a₂)` when dividing, `w·a₁·a₂` when multiplying back, `bad·w` substituted where an
    autocorrelation is zero or not finite) for every input: finite, zero, NaN, ±inf.
    (Before the repair of C15-inf-autocorr in /repo this held only outside the family "dividing by an
    autocorrelation of ±inf whose partner is neither zero nor NaN".) -/
theorem c15_kernel (bad : K) (divide : Bool) (a1 a2 w : Scalar K) :
    kernelImpl bad divide a1 a2 w = kernelSpec bad divide a1 a2 w :=
  kernelImpl_eq_spec bad divide a1 a2 w

/-- the documented kernel, spelled out on finite values -/
theorem c15_kernel_documented (bad x y z : K) :
    (x ≠ 0 → y ≠ 0 → kernelSpec bad true (.val x) (.val y) (.val z) = .val (z / (x * y))) ∧
    (∀ a1 a2 : Scalar K, a1.isBadAuto = true ∨ a2.isBadAuto = true →
      kernelSpec bad true a1 a2 (.val z) = .val (bad * z)) ∧
    kernelSpec bad false (.val x) (.val y) (.val z) = .val (x * y * z) :=
  ⟨kernelSpec_divide_val bad x y z, fun a1 a2 h => kernelSpec_divide_bad bad z a1 a2 h,
   kernelSpec_multiply_val bad x y z⟩

/-- the spec side the harness compares against (`weightsRowSpec`), element by element: the
    documented kernel on the autocorrelations found *by label* -/
theorem c15_spec_row (bad : K) (divide : Bool) (cps : List (α × α)) (visRe wRow out : List (Scalar K))
    (h : weightsRowSpec bad divide cps visRe wRow = .ok out) :
    out.length = cps.length ∧ wRow.length = cps.length ∧
    ∀ (b : Nat) (x y : α) (w : Scalar K), cps[b]? = some (x, y) → wRow[b]? = some w →
      ∃ (p1 p2 : Nat) (a1 a2 : Scalar K), cps[p1]? = some (x, x) ∧ cps[p2]? = some (y, y) ∧
        visRe[p1]? = some a1 ∧ visRe[p2]? = some a2 ∧ out[b]? = some (kernelSpec bad divide a1 a2 w) :=
  weightsRowSpec_get bad divide cps visRe wRow out h

/-- **c15_row**: code = documentation on a whole sample.  When no autocorrelation product
    is listed twice, every element of `weight_power_scale`'s output equals the documented value. -/
theorem c15_row (bad : K) (divide : Bool) (cps : List (α × α)) (ai i1 i2 : List Nat)
    (visRe wRow out sout : List (Scalar K)) (hc : corrprodToAutocorr cps = .ok (ai, i1, i2))
    (hB : visRe.length = cps.length) (hW : wRow.length = cps.length)
    (hnd : ∀ (p q : Nat) (a : α), cps[p]? = some (a, a) → cps[q]? = some (a, a) → p = q)
    (ho : scaleRow bad divide ai i1 i2 visRe wRow = .ok out)
    (hs : weightsRowSpec bad divide cps visRe wRow = .ok sout)
    (b : Nat) (x y : α) (hb : cps[b]? = some (x, y)) :
    out[b]? = sout[b]? := by
  obtain ⟨out', ho', _, hst⟩ := c15_structure bad divide cps ai i1 i2 visRe wRow hc hB hW
  rw [ho] at ho'
  cases ho'
  obtain ⟨p1, p2, a1, a2, w, c1, c2, v1, v2, hw, hout⟩ := hst b x y hb
  obtain ⟨_, _, hsp⟩ := weightsRowSpec_get bad divide cps visRe wRow sout hs
  obtain ⟨q1, q2, b1, b2, d1, d2, u1, u2, hsout⟩ := hsp b x y w hb hw
  have e1 := hnd p1 q1 x c1 d1
  have e2 := hnd p2 q2 y c2 d2
  subst e1; subst e2
  rw [v1] at u1
  rw [v2] at u2
  cases u1; cases u2
  rw [hout, hsout, kernelImpl_eq_spec bad divide a1 a2 w]

end wps

example : kernelImpl badWeightRat true (.val 2) (.val 4) (.val 3) = .val (3 / 8) := by decide +kernel
example : kernelImpl badWeightRat true (.val 0) (.val 4) (.val 3) = .val (3 / 4294967296) := by decide +kernel
example : kernelImpl badWeightRat true .posInf (.val 4) (.val 3) = .val (3 / 4294967296) := by decide +kernel
example : kernelImpl badWeightRat true (.val 4) .negInf (.val 3) = .val (3 / 4294967296) := by decide +kernel
example : kernelImpl badWeightRat false (.val 0) (.val 4) (.val 3) = .val 0 := by decide +kernel
example : kernelSpec badWeightRat true .posInf (.val 4) (.val 3) = .val (3 / 4294967296) := by decide +kernel
example : ∃ out, scaleRow badWeightRat true [1, 2] [1, 0, 1, 0] [0, 0, 1, 1]
    [.val 5, .val 2, .val 4, .val 7] [.val 3, .val 3, .val 3, .val 3] = .ok out ∧
    out = [.val (3 / 8), .val (3 / 4), .val (3 / 16), .val (3 / 8)] := ⟨_, by decide +kernel, rfl⟩

/-! ## 3. stored, scaled and unscaled weights -/

section vfw
variable {K : Type} [Field K] [LinearOrder K] [IsStrictOrderedRing K]
variable {α : Type} [DecidableEq α]

/-- `stored[t,f,b] = weights[t,f,b] · weights_channel[t,f]` -/
theorem c15_stored_weights (w stored : Arr3 (Scalar K)) (wc : Arr2 (Scalar K))
    (h : storedWeights w wc = .ok stored) (t f b : Nat) (x c : Scalar K)
    (hx : get3 w t f b = some x) (hc : get2 wc t f = some c) :
    get3 stored t f b = some (x.mul c) := by
  unfold storedWeights at h
  obtain ⟨_, _, hp⟩ := zipME_ok h
  unfold get3 at hx
  unfold get2 at hc
  cases hwt : w[t]? with
  | none => simp [hwt] at hx
  | some wt =>
    cases hct : wc[t]? with
    | none => simp [hct] at hc
    | some ct =>
      simp only [hwt] at hx
      simp only [hct] at hc
      obtain ⟨st, hst, hz⟩ := hp t wt ct hwt hct
      obtain ⟨_, _, hp2⟩ := zipME_ok hz
      cases hwf : wt[f]? with
      | none => simp [hwf] at hx
      | some row =>
        simp only [hwf] at hx
        obtain ⟨srow, hsr, he⟩ := hp2 f row c hwf hc
        simp only [Except.ok.injEq] at he
        subst he
        simp [get3, hst, hsr, List.getElem?_map, hx]

/-- **c15_scaled_unscaled**: which array is which.  With `stored = weights·weights_channel`:
    * stream declares *unscaled* stored weights (`storedWeightsAreScaled = false`):
      `weights = weight_power_scale(vis, stored, divide=True)` (i.e. `stored / (a₁·a₂)`) and
      `unscaled_weights = stored`;
    * otherwise `weights = stored` and
      `unscaled_weights = weight_power_scale(vis, stored, divide=False)` (i.e. `stored·a₁·a₂`);
    in both cases `vis` is the visibility array the object exposes (Van Vleck corrected when the
    correction is on). -/
theorem c15_scaled_unscaled (bad : K) (vis : Arr3 (Cx (Scalar K))) (w : Arr3 (Scalar K)) (wc : Arr2 (Scalar K))
    (cps : List (α × α)) (scaled : Bool) (vv : Option (List (K × K))) (r : VFW K)
    (h : chunkStoreVFW bad vis w wc (some cps) scaled vv = .ok r) :
    ∃ stored, storedWeights w wc = .ok stored ∧
      (match vv with
        | none => r.vis = vis
        | some tbl => correctAutocorrQuantisation tbl cps vis = .ok r.vis) ∧
      (if scaled then
        r.weights = stored ∧ ∃ un, r.unscaled = some un ∧ scaleWeights bad false cps r.vis stored = .ok un
       else
        r.unscaled = some stored ∧ scaleWeights bad true cps r.vis stored = .ok r.weights) := by
  unfold chunkStoreVFW at h
  cases hs : storedWeights w wc with
  | error e => cases vv <;> simp [hs] at h; split at h <;> simp at h
  | ok stored =>
    refine ⟨stored, rfl, ?_⟩
    cases vv with
    | none =>
      cases scaled
      · simp only [hs] at h
        cases hsc : scaleWeights bad true cps vis stored with
        | error e => simp [hsc] at h
        | ok sc =>
          simp [hsc] at h
          subst h
          simp [hsc]
      · simp only [hs] at h
        cases hsc : scaleWeights bad false cps vis stored with
        | error e => simp [hsc] at h
        | ok un =>
          simp [hsc] at h
          subst h
          simp [hsc]
    | some tbl =>
      cases hv : correctAutocorrQuantisation tbl cps vis with
      | error e => simp [hv] at h
      | ok vis' =>
        cases scaled
        · simp only [hs, hv] at h
          cases hsc : scaleWeights bad true cps vis' stored with
          | error e => simp [hsc] at h
          | ok sc =>
            simp [hsc] at h
            subst h
            simp [hsc, hv]
        · simp only [hs, hv] at h
          cases hsc : scaleWeights bad false cps vis' stored with
          | error e => simp [hsc] at h
          | ok un =>
            simp [hsc] at h
            subst h
            simp [hsc, hv]

/-- `_scale_weights` is `weight_power_scale` on the real parts with the global lookup -/
theorem c15_scale_weights_unfold (bad : K) (divide : Bool) (cps : List (α × α)) (vis : Arr3 (Cx (Scalar K)))
    (w out : Arr3 (Scalar K)) (h : scaleWeights bad divide cps vis w = .ok out) :
    ∃ ai i1 i2, corrprodToAutocorr cps = .ok (ai, i1, i2) ∧
      weightPowerScale bad divide ai i1 i2 (reParts vis) w = .ok out := by
  unfold scaleWeights at h
  cases hc : corrprodToAutocorr cps with
  | error e => simp [hc] at h
  | ok t =>
    obtain ⟨ai, i1, i2⟩ := t
    simp only [hc] at h
    exact ⟨ai, i1, i2, rfl, h⟩

end vfw

/-! ## 4. chunking along the baseline axis -/

section chunk
variable {K : Type} [Field K] [LinearOrder K] [IsStrictOrderedRing K]
variable {α : Type} [DecidableEq α]

/-- **c15_baseline_chunk_invariant**: however the visibilities and the weights of a sample are cut
    into chunks along the baseline axis (independently of each other), `_scale_weights` computes
    what the unchunked computation with the global lookup computes. -/
theorem c15_baseline_chunk_invariant (bad : K) (divide : Bool) (cps : List (α × α))
    (visRe wRow : List (Scalar K)) (sv sw : List Nat) (hv : sv.sum = visRe.length) (hw : sw.sum = wRow.length) :
    scaleRowChunked bad divide cps (splitBy sv visRe) (splitBy sw wRow) =
      scaleRowChunked bad divide cps [visRe] [wRow] := by
  unfold scaleRowChunked rechunkRow
  rw [flatten_splitBy sv visRe hv, flatten_splitBy sw wRow hw]
  simp

example : splitBy [1, 2] [10, 20, 30] = [[10], [20, 30]] := by decide

end chunk

/-! ## 5. excision -/

/-- **c15_excision_formula**: the transform chain of `d.excision` is
    `1 − round_half_even(w / accs_per_cbf_dump)·accs_per_cbf_dump / accs_per_sdp_dump`
    with `accs_per_cbf_dump = accs_per_sdp_dump / cbf_dumps_per_sdp_dump` -/
theorem c15_excision_formula (A : Rat) (d : Int) (w : Rat) (hA : A ≠ 0) :
    excision A d w = 1 - ((roundHalfEven (w / (A / (d : Rat))) : Rat) * (A / (d : Rat))) / A :=
  excision_formula A d w hA

/-- `0 ≤ excision ≤ 1` whenever `0 ≤ w ≤ accs_per_sdp_dump` (and there is at least one CBF dump
    per SDP dump) -/
theorem c15_excision_bounds (A : Rat) (d : Int) (w : Rat) (hA : 0 < A) (hd : 1 ≤ d) (h0 : 0 ≤ w) (h1 : w ≤ A) :
    0 ≤ excision A d w ∧ excision A d w ≤ 1 :=
  excision_bounds A d w hA hd h0 h1

/-- the rounding used is "nearest integer, ties to even" (numpy / Python `round`), not Lean's
    `Float.round` -/
theorem c15_round_half_even (x : Rat) :
    x - 1 / 2 ≤ (roundHalfEven x : Rat) ∧ (roundHalfEven x : Rat) ≤ x + 1 / 2 ∧
    (((roundHalfEven x : Rat) = x + 1 / 2 ∨ (roundHalfEven x : Rat) = x - 1 / 2) → roundHalfEven x % 2 = 0) :=
  ⟨(roundHalfEven_bounds x).1, (roundHalfEven_bounds x).2, roundHalfEven_tie_even x⟩

example : roundHalfEven (1 / 2) = 0 ∧ roundHalfEven (3 / 2) = 2 ∧ roundHalfEven (5 / 2) = 2 ∧
    roundHalfEven (-1 / 2) = 0 ∧ roundHalfEven (7 / 4) = 2 := by decide +kernel
example : excision 256 4 96 = 1 / 2 ∧ excision 256 4 32 = 1 ∧ excision 256 4 256 = 0 := by decide +kernel

/-- `d.excision[t,f,b]` is the transform of the unscaled weight at the same coordinates, with
    `accs_per_sdp_dump = n_accs · round(dump_period / cbf_dump_period)`; without unscaled weights
    or CBF attributes the excision is unavailable -/
theorem c15_excision_pointwise (n : Nat) (dp cp : Rat) (u e : Arr3 Rat)
    (h : excisionOf (some n) dp cp (some u) = .ok e) (t f b : Nat) :
    get3 e t f b = (get3 u t f b).map
      (excision (((n : Int) * cbfDumpsPerSdpDump dp cp : Int) : Rat) (cbfDumpsPerSdpDump dp cp)) := by
  simp only [excisionOf, Except.ok.injEq] at h
  subst h
  unfold get3
  simp only [List.getElem?_map]
  cases u[t]? with
  | none => rfl
  | some r =>
    simp only [Option.map_some, List.getElem?_map]
    cases r[f]? with
    | none => rfl
    | some q => simp

theorem c15_excision_unavailable (n : Option Nat) (dp cp : Rat) (u : Option (Arr3 Rat)) :
    excisionOf none dp cp u = .error .value ∧ excisionOf n dp cp none = .error .value := by
  constructor
  · cases u <;> rfl
  · cases n <;> rfl

/-! ## 6. Van Vleck correction -/

section vv
variable {K : Type} [Field K] [LinearOrder K] [IsStrictOrderedRing K]
variable {α : Type} [DecidableEq α]

/-- **c15_vanvleck_only_autos**: on every sample the correction leaves every cross-correlation
    product (inputs differ: other antenna *or* other polarisation) untouched and replaces an
    autocorrelation by the table interpolation of its real part (the assignment makes the
    imaginary part zero, so only the real part changes for a real autocorrelation). -/
theorem c15_vanvleck_only_autos (tbl : List (K × K)) (cps : List (α × α)) (ai i1 i2 : List Nat)
    (row out : List (Cx (Scalar K))) (hc : corrprodToAutocorr cps = .ok (ai, i1, i2))
    (h : vanVleckRow tbl ai row = .ok out) :
    out.length = row.length ∧
    ∀ (b : Nat) (x y : α) (v : Cx (Scalar K)), cps[b]? = some (x, y) → row[b]? = some v →
      (x ≠ y → out[b]? = some v) ∧
      (x = y → ∃ r, interpS tbl v.re = .ok r ∧ out[b]? = some ⟨r, .val 0⟩ ∧
        (v.im = .val 0 → out[b]? = some ⟨r, v.im⟩)) := by
  obtain ⟨_, hmem⟩ := autocorr_indices cps ai i1 i2 hc
  obtain ⟨hl, hall⟩ := vanVleckApply_spec tbl row ai row out rfl h
  refine ⟨hl, ?_⟩
  intro b x y v hb hv
  constructor
  · intro hxy
    have : b ∉ ai := by
      intro hm
      obtain ⟨a, ha⟩ := (hmem b).1 hm
      rw [hb] at ha
      simp only [Option.some.injEq, Prod.mk.injEq] at ha
      exact hxy (ha.1.trans ha.2.symm)
    rw [(hall b).1 this, hv]
  · intro hxy
    subst hxy
    have : b ∈ ai := (hmem b).2 ⟨x, hb⟩
    obtain ⟨v', r, hv', hi, ho⟩ := (hall b).2 this
    rw [hv] at hv'
    cases hv'
    exact ⟨r, hi, ho, fun him => by rw [ho, him]⟩

/-- the dask-level function applies the per-sample correction to every sample with the global
    autocorrelation positions (it rechunks to a single baseline chunk first) -/
theorem c15_vanvleck_3d (tbl : List (K × K)) (cps : List (α × α)) (vis out : Arr3 (Cx (Scalar K)))
    (h : correctAutocorrQuantisation tbl cps vis = .ok out) :
    ∃ ai i1 i2, corrprodToAutocorr cps = .ok (ai, i1, i2) ∧
      ∀ (t f : Nat) (row : List (Cx (Scalar K))), get2 vis t f = some row →
        ∃ orow, get2 out t f = some orow ∧ vanVleckRow tbl ai row = .ok orow := by
  unfold correctAutocorrQuantisation at h
  cases hc : corrprodToAutocorr cps with
  | error e => simp [hc] at h
  | ok tr =>
    obtain ⟨ai, i1, i2⟩ := tr
    simp only [hc] at h
    refine ⟨ai, i1, i2, rfl, ?_⟩
    intro t f row hrow
    obtain ⟨_, hp⟩ := mapME_ok h
    unfold get2 at hrow
    cases hvt : vis[t]? with
    | none => simp [hvt] at hrow
    | some vt =>
      simp only [hvt] at hrow
      obtain ⟨ot, hot, hz⟩ := hp t vt hvt
      obtain ⟨_, hp2⟩ := mapME_ok hz
      obtain ⟨orow, hor, hs⟩ := hp2 f row hrow
      exact ⟨orow, by simp [get2, hot, hor], hs⟩

/-- **c15_vanvleck_monotone**: a larger (finite) autocorrelation never gets a smaller corrected
    value, provided the lookup table is monotone (run-time tested for the actual table) -/
theorem c15_vanvleck_monotone (tbl : List (K × K)) (hm : tableMonoList tbl) {x y vx vy : K} (hxy : x ≤ y)
    (hx : interpS tbl (.val x) = .ok (.val vx)) (hy : interpS tbl (.val y) = .ok (.val vy)) : vx ≤ vy := by
  unfold interpS at hx hy
  cases hix : interp x tbl with
  | error e => simp [hix] at hx
  | ok a =>
    cases hiy : interp y tbl with
    | error e => simp [hiy] at hy
    | ok b =>
      simp [hix] at hx
      simp [hiy] at hy
      subst hx; subst hy
      exact interp_monotone tbl hm hxy hix hiy

/-- −inf / +inf clip to the first / last table value, which bound every interpolated value -/
theorem c15_vanvleck_clip (p0 : K × K) (rest : List (K × K)) (hm : tableMono p0 rest) (x v : K)
    (hx : interpS (p0 :: rest) (.val x) = .ok (.val v)) :
    ∃ lo hi, interpS (p0 :: rest) .negInf = .ok (.val lo) ∧ interpS (p0 :: rest) .posInf = .ok (.val hi) ∧
      lo ≤ v ∧ v ≤ hi ∧ interpS (p0 :: rest) .nan = .ok .nan := by
  refine ⟨p0.2, lastFp p0 rest, rfl, rfl, ?_, ?_, rfl⟩
  all_goals
    unfold interpS at hx
    cases hix : interp x (p0 :: rest) with
    | error e => simp [hix] at hx
    | ok a =>
      simp [hix] at hx
      subst hx
      first
        | exact (interp_bounds p0 rest hm x a hix).1
        | exact (interp_bounds p0 rest hm x a hix).2

end vv

example : mapME (interpS [((0 : Rat), (0 : Rat)), (1, 10), (3, 20)])
    [.val (-1), .val 0, .val (1 / 2), .val 1, .val 2, .val 3, .val 4, .posInf, .nan, .negInf]
    = .ok [.val 0, .val 0, .val 5, .val 10, .val 15, .val 20, .val 20, .val 20, .nan, .val 0] := by
  decide +kernel

example : vanVleckRow [((0 : Rat), (0 : Rat)), (1, 10), (3, 20)] [1]
    [⟨.val 2, .val 7⟩, ⟨.val 2, .val 0⟩] = .ok [⟨.val 2, .val 7⟩, ⟨.val 15, .val 0⟩] := by decide +kernel

/-! ## 7. averaging -/

section avg
variable {K : Type} [Field K] [DecidableEq K]

/-- **c15_average**: `average_visibilities` returns `⌊nT / timeav'⌋ × ⌊nC / chanav⌋ × nB` bins
    (`timeav' = min(timeav, nT)`: the code clamps the time factor and — through a typo that clamps
    `flagav` instead — not the channel factor, so `chanav > nC` leaves no channel bin at all);
    the trailing remainder on either axis is dropped; every bin holds the documented value
    `binSpec`: weight-averaged unflagged visibilities (plain mean when the unflagged weights sum
    to zero), summed unflagged weights, AND (OR when `flagav`) of the flags. -/
theorem c15_average (nT nC nB : Nat) (inp : Nat → Nat → Nat → Sample K) (timeav chanav : Nat) (flagav : Bool)
    (r : AvResult K) (h : averageVisibilities nT nC nB inp timeav chanav flagav = .ok r) :
    r.nT = nT / min timeav nT ∧ r.nC = nC / chanav ∧ r.nB = nB ∧
    ∀ avT avC b : Nat, avC < r.nC →
      r.out avT avC b =
        binSpec flagav (binSamples inp (avT * min timeav nT) (avC * chanav) (min timeav nT) chanav b) := by
  unfold averageVisibilities at h
  simp only at h
  split at h
  · simp at h
  · rename_i hz
    have hta : 0 < min timeav nT := by omega
    have hca : 0 < chanav := by omega
    simp only [Except.ok.injEq] at h
    subst h
    refine ⟨Nat.mul_div_cancel _ hta, Nat.mul_div_cancel _ hca, rfl, ?_⟩
    intro avT avC b hC
    simp only at hC
    rw [Nat.mul_div_cancel _ hca] at hC
    have hnC : nC ≠ 0 := by
      intro h0
      subst h0
      simp at hC
    simp only [hnC, if_false]
    rw [binLoops_eq_foldl]
    have hlen := binSamples_length inp (avT * min timeav nT) (avC * chanav) (min timeav nT) chanav b
    rw [← hlen]
    exact bin_eq_spec flagav _

/-- every sample a bin reads lies inside the input: nothing beyond the last whole bin is used and
    nothing outside the array is touched ("trailing remainder dropped") -/
theorem c15_average_in_range (nT nC timeav chanav avT avC dt dc : Nat)
    (hT : avT < nT / min timeav nT) (hC : avC < nC / chanav) (hdt : dt < min timeav nT) (hdc : dc < chanav) :
    avT * min timeav nT + dt < nT ∧ avC * chanav + dc < nC := by
  constructor
  · have h1 : (avT + 1) * min timeav nT ≤ nT / min timeav nT * min timeav nT := Nat.mul_le_mul_right _ (by omega)
    have h2 := Nat.div_mul_le_self nT (min timeav nT)
    rw [Nat.succ_mul] at h1
    omega
  · have h1 : (avC + 1) * chanav ≤ nC / chanav * chanav := Nat.mul_le_mul_right _ (by omega)
    have h2 := Nat.div_mul_le_self nC chanav
    rw [Nat.succ_mul] at h1
    omega

/-- a zero averaging factor (or an empty time axis) is rejected (ZeroDivisionError) -/
theorem c15_average_zero_factor (nT nC nB : Nat) (inp : Nat → Nat → Nat → Sample K) (timeav chanav : Nat)
    (flagav : Bool) (hz : min timeav nT = 0 ∨ chanav = 0) :
    averageVisibilities nT nC nB inp timeav chanav flagav = .error .other := by
  unfold averageVisibilities
  simp only
  rw [if_pos hz]

/-- a bin whose samples are all flagged: plain mean of the visibilities, zero weight, flagged -/
theorem c15_average_all_flagged (flagav : Bool) (samples : List (Sample K)) (hne : samples ≠ [])
    (hall : ∀ s ∈ samples, s.2.2 = true) :
    binSpec flagav samples =
      (⟨sumK (samples.map (·.1.re)) * (1 / ((samples.length : Nat) : K)),
        sumK (samples.map (·.1.im)) * (1 / ((samples.length : Nat) : K))⟩, 0, true) := by
  have hf : samples.filter (fun s => !s.2.2) = [] := by
    rw [List.filter_eq_nil_iff]
    intro s hs
    simp [hall s hs]
  have hany : samples.any (·.2.2) = true := by
    cases samples with
    | nil => exact absurd rfl hne
    | cons s t => simp [hall s (List.mem_cons_self ..)]
  have hallb : samples.all (·.2.2) = true := by
    rw [List.all_eq_true]
    exact hall
  unfold binSpec
  simp only [hf, List.map_nil, sumK, List.foldl_nil, if_true, hany, hallb]
  cases flagav <;> rfl

/-- a bin without flagged samples and non-zero total weight: the weighted mean and total weight -/
theorem c15_average_unflagged (flagav : Bool) (samples : List (Sample K)) (hall : ∀ s ∈ samples, s.2.2 = false)
    (hw : sumK (samples.map (·.2.1)) ≠ 0) :
    (binSpec flagav samples).1 =
      ⟨sumK (samples.map (fun s => s.2.1 * s.1.re)) / sumK (samples.map (·.2.1)),
       sumK (samples.map (fun s => s.2.1 * s.1.im)) / sumK (samples.map (·.2.1))⟩ ∧
    (binSpec flagav samples).2.1 = sumK (samples.map (·.2.1)) := by
  have hf : samples.filter (fun s => !s.2.2) = samples := by
    rw [List.filter_eq_self]
    intro s hs
    simp [hall s hs]
  unfold binSpec
  simp [hf, hw]

end avg

example : (binSpec (K := Rat) false [(⟨1, 0⟩, 1, true), (⟨2, 0⟩, 1, false), (⟨3, 0⟩, 1, false), (⟨4, 0⟩, 1, false)])
    = (⟨3, 0⟩, 3, false) := by decide +kernel

example : ∃ r, averageVisibilities (K := Rat) 3 5 1 (fun t c _ => (⟨(t * 5 + c : Nat), 0⟩, 1, false)) 7 2 false = .ok r ∧
    r.nT = 1 ∧ r.nC = 2 ∧ r.out 0 1 0 = (⟨15 / 2, 0⟩, 6, false) := ⟨_, rfl, by decide +kernel⟩

/-! ## 8. HDF5 v3 weights -/

/-- **c15_v3_weights**: `weights[t,f,b] = weights[t,f,b] · weights_channel[t,f]`, an absent
    dataset reads as one, and with no weight type selected everything is one -/
theorem c15_v3_weights {K : Type} [Field K] (w : Nat → Nat → Nat → K) (wc : Nat → Nat → K) (t f b : Nat) :
    v3Weights (some w) (some wc) true t f b = w t f b * wc t f ∧
    v3Weights none (some wc) true t f b = wc t f ∧
    v3Weights (some w) none true t f b = w t f b ∧
    v3Weights (none : Option (Nat → Nat → Nat → K)) none true t f b = 1 ∧
    ∀ w' wc', v3Weights (K := K) w' wc' false t f b = 1 := by
  refine ⟨rfl, ?_, ?_, ?_, ?_⟩
  · simp [v3Weights]
  · simp [v3Weights]
  · simp [v3Weights]
  · intro w' wc'; simp [v3Weights]

example : v3Weights (K := Rat) (some fun t f b => (t + f + b : Nat)) (some fun _ _ => 1 / 2) true 1 2 3 = 3 := by
  decide +kernel

end C15
