"""Self-test of harness/h5synth.py:  /venv/bin/python /verif/harness/test_h5synth.py

For several rng seeds and parameter combinations build a synthetic v1 / v2 / v3 file in a temporary
directory, open it with katdal.open and assert that what katdal returns equals the expected values of the
H5Synth object.  Known katdal defects that a synthetic file runs into are REPORTED, not asserted:
  * non-contiguous correlation-product selections (lazy_indexer.py:441, list index on numpy 2),
  * H5DataV2.timestamps with a duplicate final dump (h5datav2.py:538),
  * H5DataV2.obs_params empty although MetaData/Configuration/Observation has script_* attributes (h5datav2.py:188).
Exit status 0 iff all assertions held.
"""
import logging
import os
import random
import shutil
import sys
import tempfile
import traceback

import numpy as np

sys.path.insert(0, os.path.dirname(os.path.abspath(__file__)))
import h5synth  # noqa: E402

logging.getLogger('katdal').setLevel(logging.ERROR)

CLASSES = {1: 'H5DataV1', 2: 'H5DataV2', 3: 'H5DataV3'}


class Stats:
    def __init__(self):
        self.files = 0
        self.contig = 0
        self.flagsel = 0
        self.nc_ok = 0
        self.nc_fail = 0
        self.nc_wrong = 0
        self.nc_errors = {}
        self.defects = {}

    def defect(self, key, example):
        self.defects.setdefault(key, [0, example])[0] += 1


def eq(name, got, want, ctx):
    got, want = np.asarray(got), np.asarray(want)
    assert got.shape == want.shape, f'{ctx}: {name} shape {got.shape} != expected {want.shape}'
    assert np.array_equal(got, want), f'{ctx}: {name} differs from expected'


def check_full(syn, st, ctx):
    d = syn.dataset
    T, F, B = syn.shape
    assert type(d).__name__ == CLASSES[syn.version], f'{ctx}: opened as {type(d).__name__}'
    assert tuple(int(n) for n in d.shape) == (T, F, B), f'{ctx}: shape {d.shape} != {(T, F, B)}'
    assert d.dump_period == syn.dump_period, f'{ctx}: dump_period {d.dump_period}'
    assert d.spectral_windows[d.spw].sideband == syn.sideband, f'{ctx}: sideband'
    eq('freqs', d.freqs, syn.freqs, ctx)
    eq('channel_freqs', d.channel_freqs, syn.freqs, ctx)
    eq('corr_products', d.corr_products, np.array(syn.corrprods), ctx)
    # timestamps (v2 + duplicate final dump is a katdal defect: report it, check the sensor cache's copy)
    try:
        ts = d.timestamps[:]
        ts_ok = ts.shape == syn.timestamps.shape and np.array_equal(ts, syn.timestamps)
        ts_msg = f'timestamps[:] has shape {ts.shape}, expected {syn.timestamps.shape}'
    except Exception as e:
        ts_ok, ts_msg = False, f'{type(e).__name__}: {e}'
    if not ts_ok and syn.version == 2 and syn.n_stored_dumps == T + 1:
        st.defect('h5datav2.py:538 timestamps with duplicate final dump', f'{ctx}: {ts_msg}')
        eq('sensor.timestamps', d.sensor.timestamps[:], syn.timestamps, ctx)
    else:
        assert ts_ok, f'{ctx}: {ts_msg}'
    vis = d.vis[:]
    assert vis.dtype == np.complex64, f'{ctx}: vis dtype {vis.dtype}'
    eq('vis', vis, syn.vis, ctx)
    flags = d.flags[:]
    assert flags.dtype == bool, f'{ctx}: flags dtype {flags.dtype}'
    eq('flags', flags, syn.expected_flags(), ctx)
    weights = d.weights[:]
    assert weights.dtype == np.float32, f'{ctx}: weights dtype {weights.dtype}'
    eq('weights', weights, syn.weights, ctx)
    # observation parameters (H5DataV2 iterates the members, not the attributes, of the Observation group)
    if dict(d.obs_params) != syn.obs_params and syn.version == 2:
        st.defect('h5datav2.py:188 obs_params ignores the Observation attributes',
                  f'{ctx}: obs_params = {dict(d.obs_params)}, observer = {d.observer!r}; expected {syn.obs_params}')
    else:
        assert dict(d.obs_params) == syn.obs_params, f'{ctx}: obs_params {d.obs_params} != {syn.obs_params}'
    # element access shows the coordinate code
    t, f, b = T - 1, F // 2, B - 1
    code = (t * F + f) * B + b
    v = d.vis[t, f, b]
    assert v.real == code and abs(v.imag) == 0.5 * code, f'{ctx}: vis[{t},{f},{b}] = {v}, code {code}'
    assert np.sign(v.imag) == (syn.sideband if code else 0), f'{ctx}: conjugation'
    st.files += 1


def check_flag_selection(syn, st, ctx):
    if syn.version == 1:
        return
    d = syn.dataset
    for names in ('cam,ingest_rfi', 'static', 'postproc,reserved0,data_lost'):
        d.select(flags=names)
        eq(f'flags[{names}]', d.flags[:], syn.expected_flags(names), ctx)
    d.select(flags='all')
    st.flagsel += 1


def check_contiguous(syn, st, ctx):
    T, F, B = syn.shape
    if T < 2 or F < 2:
        return
    d = syn.dataset
    dumps, chans = slice(1, 4), slice(1, 3)
    d.select(dumps=dumps, channels=chans)
    try:
        exp_shape = syn.vis[dumps, chans].shape
        assert tuple(int(n) for n in d.shape) == exp_shape, f'{ctx}: contiguous shape {d.shape} != {exp_shape}'
        eq('contig vis', d.vis[:], syn.vis[dumps, chans], ctx)
        eq('contig flags', d.flags[:], syn.expected_flags()[dumps, chans], ctx)
        eq('contig weights', d.weights[:], syn.weights[dumps, chans], ctx)
        eq('contig freqs', d.freqs, syn.freqs[chans], ctx)
        if not (syn.version == 2 and syn.n_stored_dumps == T + 1):
            eq('contig timestamps', d.timestamps[:], syn.timestamps[dumps], ctx)
        # second-stage indexing on top of the selection (H5DataV1 always keeps all three dimensions)
        first = slice(0, 1) if syn.version == 1 else 0
        eq('contig vis[0, :, 1:3]', d.vis[0, :, 1:3], syn.vis[dumps, chans][first, :, 1:3], ctx)
        st.contig += 1
    finally:
        d.select()


def check_noncontiguous(syn, st, ctx):
    """Reported only: these hit lazy_indexer.py:441 on numpy 2 until it is repaired."""
    T, F, B = syn.shape
    d = syn.dataset
    trials = []
    if len(syn.ants) >= 2:
        cross = [a[:-1] != b[:-1] for a, b in syn.corrprods]
        trials.append(("corrprods='cross'", dict(corrprods='cross'), cross))
    if B >= 4:
        mask = [(i % 3) != 1 for i in range(B)]
        trials.append(('corrprods=mask with gaps', dict(corrprods=mask), mask))
    for label, sel, mask in trials:
        mask = np.array(mask)
        try:
            d.select(**sel)
            got = (d.vis[:], d.flags[:], d.weights[:])
            want = (syn.vis[:, :, mask], syn.expected_flags()[:, :, mask], syn.weights[:, :, mask])
            if all(g.shape == w.shape and np.array_equal(g, w) for g, w in zip(got, want)):
                st.nc_ok += 1
            else:
                st.nc_wrong += 1
                st.nc_errors.setdefault(f'{label}: WRONG VALUES', ctx)
        except Exception as e:
            st.nc_fail += 1
            tb = traceback.extract_tb(e.__traceback__)[-1]
            where_ = f'{os.path.basename(tb.filename)}:{tb.lineno}'
            st.nc_errors.setdefault(f'{label}: {type(e).__name__} at {where_}: {str(e)[:90]}', ctx)
        finally:
            d.select()


def run_one(make, path, rng, st, ctx, **kw):
    syn = make(path, rng, **kw)
    try:
        check_full(syn, st, ctx)
        check_flag_selection(syn, st, ctx)
        check_contiguous(syn, st, ctx)
        check_noncontiguous(syn, st, ctx)
    finally:
        syn.close()
        os.remove(path)


def v3_cases(rng):
    # fixed corner cases, then random ones
    yield dict(T=1, F=1, n_ants=1)
    yield dict(T=1, F=2, n_ants=1, dup_final_dump=True)
    yield dict(T=2, F=6, n_ants=2, dup_final_dump=True, sideband=-1)
    yield dict(T=9, F=5, n_ants=3, shuffle_bls=False, with_flags=False, with_weights=False)
    yield dict(T=4, F=4, n_ants=2, band='u')                        # real UHF: sideband +1, 816 MHz
    yield dict(T=4, F=4, n_ants=2, centroid=False)                  # start times + half a CBF dump
    yield dict(T=5, F=3, n_ants=2, int_time=1.9, t0=1500000000.3)   # non-dyadic: exact through 2**30 scale
    yield dict(T=4, F=4, n_ants=2, open_kwargs=dict(time_offset=0.5, centre_freq=1e9))
    yield dict(T=6, F=4, n_ants=2, activity=[(-2.0, 'stop'), (0.6, 'slew'), (2.4, 'track'), (4.4, 'slew')],
               targets=[(-2.0, h5synth.TARGETS[1]), (0.5, h5synth.TARGETS[2])],
               labels=[(-1.0, 'cal'), (2.2, 'track')],
               extra_sensors={'m000/pos_actual_scan_azim': [(-3.0, 10.0), (8.0, 21.0)],
                              'anc/air_temperature': [(-3.0, 20.0), (9.0, 22.0)],
                              'TelescopeState/m000_rsc_rxl_serial_number': [(-3.0, 4007)]})
    for _ in range(12):
        yield dict(T=rng.randint(1, 9), F=rng.randint(1, 7), n_ants=rng.randint(1, 3),
                   shuffle_bls=rng.random() < 0.7, dup_final_dump=rng.random() < 0.4,
                   sideband=rng.choice([1, 1, -1]), with_flags=rng.random() < 0.8,
                   with_weights=rng.random() < 0.8)


def v2_cases(rng):
    yield dict(T=1, F=1, n_ants=1)
    yield dict(T=1, F=3, n_ants=1, dup_final_dump=True)
    yield dict(T=2, F=6, n_ants=2, dup_final_dump=True)
    yield dict(T=9, F=5, n_ants=3, shuffle_bls=False, with_flags=False)
    yield dict(T=5, F=4, n_ants=2, with_weights=True, int_time=0.5)
    yield dict(T=4, F=4, n_ants=2, open_kwargs=dict(time_offset=0.5))
    yield dict(T=6, F=4, n_ants=2, activity=[(-2.0, 'stop'), (0.6, 'slew'), (2.4, 'scan'), (4.4, 'slew')],
               targets=[(-2.0, h5synth.TARGETS[1]), (0.5, h5synth.TARGETS[2])],
               labels=[(-1.0, 'cal'), (2.2, 'raster')],
               extra_sensors={'Antennas/ant1/pos.actual-scan-azim': [(-3.0, 10.0), (8.0, 21.0)],
                              'Enviro/asc.air.temperature': [(-3.0, 20.0), (9.0, 22.0)]})
    for _ in range(12):
        yield dict(T=rng.randint(1, 9), F=rng.randint(1, 7), n_ants=rng.randint(1, 3),
                   shuffle_bls=rng.random() < 0.7, dup_final_dump=rng.random() < 0.4,
                   with_flags=rng.random() < 0.8, with_weights=rng.random() < 0.3)


def v1_cases(rng):
    yield dict(scans=None, F=6, n_ants=2)
    yield dict(scans=[('scan', h5synth.TARGETS[0], 1)], F=1, n_ants=1)
    yield dict(scans=[('slew', h5synth.TARGETS[2], 1), ('cal', h5synth.TARGETS[2], 2, 'cal'),
                      ('scan', h5synth.TARGETS[2], 3, 'raster'), ('', h5synth.TARGETS[3], 3, 'raster')],
               F=5, n_ants=3, shuffle_bls=False,
               extra_sensors={'ant1/pos_actual_scan_azim': [(-3.0, 10.0), (12.0, 25.0)]})
    for _ in range(8):
        n = rng.randint(1, 4)
        total = rng.randint(n, 9)
        cuts = sorted(rng.sample(range(1, total), n - 1)) if n > 1 else []
        sizes = [b - a for a, b in zip([0] + cuts, cuts + [total])]
        scans = [(rng.choice(['slew', 'scan', 'cal', '']), rng.choice(h5synth.TARGETS[:3]), m,
                  rng.choice(['track', 'raster'])) for m in sizes]
        yield dict(scans=scans, F=rng.randint(1, 7), n_ants=rng.randint(1, 3), shuffle_bls=rng.random() < 0.7)


def main():
    seeds = [int(s) for s in sys.argv[1:]] or [0, 1, 2, 3]
    tmp = tempfile.mkdtemp(prefix='h5synth_test_')
    failures = 0
    try:
        for version, make, cases in ((3, h5synth.make_v3, v3_cases), (2, h5synth.make_v2, v2_cases),
                                     (1, h5synth.make_v1, v1_cases)):
            st = Stats()
            errors = []
            for seed in seeds:
                rng = random.Random(seed * 1000 + version)
                for n, kw in enumerate(cases(rng)):
                    ctx = f'v{version} seed={seed} case={n} {kw}'
                    path = os.path.join(tmp, f'{1300000000 + n}.h5')
                    try:
                        run_one(make, path, rng, st, ctx, **kw)
                    except Exception as e:
                        tb = traceback.extract_tb(e.__traceback__)[-1]
                        errors.append(f'{ctx}\n      {type(e).__name__} at '
                                      f'{os.path.basename(tb.filename)}:{tb.lineno}: {e}')
            failures += len(errors)
            nc_total = st.nc_ok + st.nc_fail + st.nc_wrong
            print(f'v{version}: {"OK" if not errors else "FAILED"}  files={st.files} flag-subset-selections={st.flagsel} '
                  f'contiguous-selections={st.contig} assertion-failures={len(errors)} | non-contiguous corrprod '
                  f'selections (reported only): {st.nc_ok}/{nc_total} correct, {st.nc_fail} raised, '
                  f'{st.nc_wrong} wrong')
            for msg, ctx in st.nc_errors.items():
                print(f'    non-contiguous: {msg}\n      first seen: {ctx}')
            for key, (count, example) in st.defects.items():
                print(f'    katdal defect (reported only) x{count}: {key}\n      e.g. {example}')
            for e in errors[:10]:
                print(f'    FAIL {e}')
    finally:
        shutil.rmtree(tmp, ignore_errors=True)
    return 1 if failures else 0


if __name__ == '__main__':
    sys.exit(main())
