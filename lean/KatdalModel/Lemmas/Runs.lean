/-
  Contiguous-run decomposition used by LazyIndexer: expanding the runs of a strictly
  increasing list gives back the list.
-/
import KatdalModel.Lemmas.Range
import KatdalModel.Model.LazyIndexer
open Np Index LazyIx

namespace LazyIx

/-- expansion of a list of runs -/
def expandRuns (rs : List (Int × Int)) : List Int := rs.flatMap fun ab => rangeList ab.1 ab.2 1

theorem rangeList_unit_cons {a e : Int} (h : a < e) : rangeList a e 1 = a :: rangeList (a + 1) e 1 :=
  rangeList_pos_cons (by omega) h

theorem rangeList_unit_single (a : Int) : rangeList a (a + 1) 1 = [a] := by
  rw [rangeList_unit_cons (by omega), rangeList_pos_nil (by omega) (by omega)]

/-- everything we need about `runs` of a strictly increasing list, proved in one induction -/
theorem runs_spec : ∀ (l : List Int), strictInc l = true →
    expandRuns (runs l) = l ∧
    (∀ ab ∈ runs l, ab.1 < ab.2 ∧ ab.1 ∈ l ∧ (ab.2 - 1) ∈ l) ∧
    (∀ b t, l = b :: t → ∃ e rest, runs l = (b, e) :: rest) := by
  intro l
  induction l with
  | nil => intro _; simp [runs, expandRuns]
  | cons a t ih =>
    intro hinc
    cases t with
    | nil =>
      refine ⟨by simp [runs, expandRuns, rangeList_unit_single], ?_, ?_⟩
      · intro ab hab; simp [runs] at hab; subst hab; simp; omega
      · intro b t h; simp at h; obtain ⟨rfl, rfl⟩ := h; exact ⟨a + 1, [], rfl⟩
    | cons b t' =>
      simp only [strictInc, Bool.and_eq_true, decide_eq_true_eq] at hinc
      obtain ⟨hab, hinc'⟩ := hinc
      obtain ⟨hexp, hmem, hhead⟩ := ih hinc'
      obtain ⟨e, rest, hr⟩ := hhead b t' rfl
      by_cases hgap : b - a > 1
      · have hruns : runs (a :: b :: t') = (a, a + 1) :: runs (b :: t') := by simp [runs, hgap]
        refine ⟨?_, ?_, ?_⟩
        · rw [hruns]
          simp only [expandRuns, List.flatMap_cons, rangeList_unit_single] at hexp ⊢
          simp [hexp]
        · intro ab hab
          rw [hruns] at hab
          simp only [List.mem_cons] at hab
          rcases hab with rfl | hab
          · simp; omega
          · obtain ⟨h1, h2, h3⟩ := hmem ab hab
            exact ⟨h1, List.mem_cons_of_mem _ h2, List.mem_cons_of_mem _ h3⟩
        · intro b' t'' h; simp at h; obtain ⟨rfl, _⟩ := h; exact ⟨a + 1, _, hruns⟩
      · have hb : b = a + 1 := by omega
        have hruns : runs (a :: b :: t') = (a, e) :: rest := by simp [runs, hgap, hr]
        have hbe : b < e := (hmem (b, e) (by rw [hr]; simp)).1
        refine ⟨?_, ?_, ?_⟩
        · rw [hruns]
          rw [hr] at hexp
          simp only [expandRuns, List.flatMap_cons] at hexp ⊢
          rw [rangeList_unit_cons (by omega : a < e), ← hb]
          simp [hexp]
        · intro ab hab
          rw [hruns] at hab
          simp only [List.mem_cons] at hab
          rcases hab with rfl | hab
          · obtain ⟨h1, h2, h3⟩ := hmem (b, e) (by rw [hr]; simp)
            exact ⟨by simp; omega, by simp, List.mem_cons_of_mem _ h3⟩
          · obtain ⟨h1, h2, h3⟩ := hmem ab (by rw [hr]; exact List.mem_cons_of_mem _ hab)
            exact ⟨h1, List.mem_cons_of_mem _ h2, List.mem_cons_of_mem _ h3⟩
        · intro b' t'' h; simp at h; obtain ⟨rfl, _⟩ := h; exact ⟨e, rest, hruns⟩

end LazyIx

namespace LazyIx

theorem strictInc_tail {a : Int} {t : List Int} (h : strictInc (a :: t) = true) : strictInc t = true := by
  cases t with
  | nil => rfl
  | cons b t' => simp only [strictInc, Bool.and_eq_true] at h; exact h.2

theorem strictInc_head_lt {a : Int} {t : List Int} (h : strictInc (a :: t) = true) : ∀ x ∈ t, a < x := by
  induction t generalizing a with
  | nil => intro x hx; simp at hx
  | cons b t' ih =>
    simp only [strictInc, Bool.and_eq_true, decide_eq_true_eq] at h
    intro x hx
    simp at hx
    rcases hx with rfl | hx
    · exact h.1
    · have := ih h.2 x hx; omega

/-- the last run ends just past the last element -/
theorem runs_last : ∀ (l : List Int), strictInc l = true → ∀ ab, (runs l).getLast? = some ab →
    l.getLast? = some (ab.2 - 1) := by
  intro l
  induction l with
  | nil => intro _ ab h; simp [runs] at h
  | cons a t ih =>
    intro hinc ab h
    cases t with
    | nil => simp [runs] at h; subst h; simp
    | cons b t' =>
      have hinc' := strictInc_tail hinc
      obtain ⟨_, _, hhead⟩ := runs_spec (b :: t') hinc'
      obtain ⟨e, rest, hr⟩ := hhead b t' rfl
      by_cases hgap : b - a > 1
      · have hruns : runs (a :: b :: t') = (a, a + 1) :: runs (b :: t') := by simp [runs, hgap]
        rw [hruns, hr] at h
        have : (runs (b :: t')).getLast? = some ab := by rw [hr]; simpa [List.getLast?_cons_cons] using h
        have := ih hinc' ab this
        simpa [List.getLast?_cons_cons] using this
      · have hruns : runs (a :: b :: t') = (a, e) :: rest := by simp [runs, hgap, hr]
        rw [hruns] at h
        cases rest with
        | nil =>
          simp at h; subst h
          have := ih hinc' (b, e) (by rw [hr]; simp)
          simpa [List.getLast?_cons_cons] using this
        | cons r rest' =>
          have : (runs (b :: t')).getLast? = some ab := by
            rw [hr]; simpa [List.getLast?_cons_cons] using h
          have := ih hinc' ab this
          simpa [List.getLast?_cons_cons] using this

theorem rangeAux_length (st : Int) : ∀ (k : Nat) (x : Int), (rangeAux st k x).length = k := by
  intro k; induction k with
  | zero => intro x; rfl
  | succ k ih => intro x; simp [rangeAux, ih]

theorem rangeAux_get (st : Int) : ∀ (k : Nat) (x : Int) (i : Nat), i < k →
    (rangeAux st k x)[i]? = some (x + st * i) := by
  intro k; induction k with
  | zero => intro x i h; omega
  | succ k ih =>
    intro x i h
    cases i with
    | zero => simp [rangeAux]
    | succ i =>
      simp only [rangeAux, List.getElem?_cons_succ]
      rw [ih (x + st) i (by omega)]
      congr 1
      have : (↑(i + 1) : Int) = ↑i + 1 := by omega
      rw [this, Int.mul_add]; omega

theorem rangeLen_unit (a b : Int) : rangeLen a b 1 = (b - a).toNat := by
  unfold rangeLen
  simp only [show (0 : Int) < 1 by omega, if_true]
  have : (b - a + 1 - 1) / 1 = b - a := by simp
  rw [this]

theorem rangeList_unit_length (a b : Int) : (rangeList a b 1).length = (b - a).toNat := by
  unfold rangeList; rw [rangeAux_length, rangeLen_unit]

theorem rangeList_unit_get (a b : Int) (i : Nat) (h : (i : Int) < b - a) :
    (rangeList a b 1)[i]? = some (a + i) := by
  unfold rangeList
  rw [rangeAux_get 1 _ a i (by rw [rangeLen_unit]; omega)]
  simp

/-- `dataset[slice(a, b, 1)]` for in-range bounds reads positions a..b-1 -/
theorem readSlice_unit (n : Nat) (a b : Int) (ha : 0 ≤ a) (han : a ≤ n) (hb : 0 ≤ b) (hbn : b ≤ n) :
    readSlice n a b 1 = rangeList a b 1 := by
  unfold readSlice sliceList sliceIndices
  have h1 : ¬ ((1 : Int) = 0) := by omega
  have h2 : ¬ ((1 : Int) < 0) := by omega
  have h3 : ¬ (a < 0) := by omega
  have h4 : ¬ (a > (n : Int)) := by omega
  have h5 : ¬ (b < 0) := by omega
  have h6 : ¬ (b > (n : Int)) := by omega
  simp only [Option.getD_some, h1, h2, h3, h4, h5, h6, if_false, Option.map]

end LazyIx
