/-
  C14: `_normalise_cal_products` — the accumulating loop equals "expand every requested name and
  concatenate", and what that gives for the documented request forms.  Core Lean only.
-/
import KatdalModel.Model.ApplyCal
open Np

namespace ApplyCal

theorem expandName_error (streams : List String) (p : String) (e : Err)
    (h : expandName streams p = .error e) : e = .value := by
  unfold expandName at h
  split at h
  · simp at h
  · split at h
    · simp at h
    · split at h
      · simp at h
      · simp at h; exact h.symm

theorem normaliseLoop_step (streams : List String) (p : String) (rest acc : List String) :
    normaliseLoop streams (p :: rest) acc
      = match expandName streams p with
        | .ok l => normaliseLoop streams rest (acc ++ l)
        | .error _ => .error .value := by
  unfold expandName
  rw [normaliseLoop]
  split
  · rfl
  · split
    · rfl
    · split <;> rfl

/-- the loop (append / extend on an accumulator) is name-wise expansion followed by concatenation -/
theorem normaliseLoop_eq (streams : List String) : ∀ (req acc : List String),
    normaliseLoop streams req acc
      = (req.mapM (expandName streams)).map fun ls => acc ++ ls.flatten
  | [], acc => by simp [normaliseLoop, Except.map, pure, Except.pure]
  | p :: rest, acc => by
    rw [normaliseLoop_step, List.mapM_cons]
    cases hp : expandName streams p with
    | error e =>
      have := expandName_error streams p e hp
      subst this
      rfl
    | ok l =>
      simp only
      rw [normaliseLoop_eq streams rest]
      cases rest.mapM (expandName streams) <;>
        simp [Except.map, bind, Except.bind, pure, Except.pure, List.append_assoc]

/-- an unknown name anywhere in the request makes the whole request a `ValueError` -/
theorem mapM_expand_error (streams : List String) : ∀ (req : List String),
    (∃ p ∈ req, ∃ e, expandName streams p = .error e) → req.mapM (expandName streams) = .error .value
  | [], h => by simp at h
  | p :: rest, h => by
    rw [List.mapM_cons]
    cases hp : expandName streams p with
    | error e =>
      have := expandName_error streams p e hp
      subst this
      rfl
    | ok l =>
      obtain ⟨q, hq, e, he⟩ := h
      rcases List.mem_cons.mp hq with rfl | hq
      · rw [hp] at he; cases he
      · rw [mapM_expand_error streams rest ⟨q, hq, e, he⟩]
        rfl

/-- names with a dot expand to themselves -/
theorem mapM_expand_dotted (streams : List String) : ∀ (req : List String),
    (∀ p ∈ req, hasDot p = true) → req.mapM (expandName streams) = .ok (req.map fun p => [p])
  | [], _ => rfl
  | p :: rest, h => by
    rw [List.mapM_cons]
    have hp : expandName streams p = .ok [p] := by
      simp [expandName, h p (List.mem_cons_self ..)]
    rw [hp, mapM_expand_dotted streams rest (fun q hq => h q (List.mem_cons_of_mem _ hq))]
    rfl

theorem flatten_singletons (l : List String) : (l.map fun p => [p]).flatten = l := by
  induction l with
  | nil => rfl
  | cons a t ih => simp [ih]

/-- dot-less stream names (members of `streams`) expand to all product types of that stream -/
theorem mapM_expand_streams (streams : List String) : ∀ (req : List String),
    (∀ p ∈ req, hasDot p = false ∧ p ∈ streams) →
    req.mapM (expandName streams) = .ok (req.map fun s => Tables.calProductTypes.map (joinDot s))
  | [], _ => rfl
  | p :: rest, h => by
    rw [List.mapM_cons]
    obtain ⟨h1, h2⟩ := h p (List.mem_cons_self ..)
    have hp : expandName streams p = .ok (Tables.calProductTypes.map (joinDot p)) := by
      simp [expandName, h1, h2]
    rw [hp, mapM_expand_streams streams rest (fun q hq => h q (List.mem_cons_of_mem _ hq))]
    rfl

end ApplyCal
