"""C16 - flags: bit meanings, selection by name and derivation; independence of the flag / weight selection."""
import itertools
import json
import logging
import os
import shutil
import tempfile

import dask
import numpy as np

from harness import common
from harness.common import Broken

RULE = ('sel cases = (data set, one value for select(flags=...)): data sets are synthetic v4 (dict store; NPY store '
        'with missing chunks of every array; applycal with a NaN gain), v3 and v2 HDF5 files (default flag table, '
        'and a flags_description table of 8 random distinct names stored as fixed or variable length strings) whose '
        'stored flag array contains every byte value 0..255; the value is drawn from: "all", "", empty sequence, '
        'one name, comma string with Python-whitespace padding / empty pieces / duplicates / unknown names, '
        'near-misses of "all", list / tuple / numpy array / set / frozenset of names.  Compared: d.flags[:] against '
        'table[raw] where table is the model\'s 256-entry flag table for the model\'s mask of that value, '
        'd.raw_flags[:] (v4) against stored | data_lost | postproc, d.vis[:], dumps, channels, corr_products; a '
        'WARNING record is required when the value contains an unknown name.  hist cases = 1-7 select() calls with '
        'random reset=, dumps / timerange / channels / corrprods / pol / ants keys (masks, index lists, slices), '
        'flags= and weights= values and argument-less calls; after EVERY call all of the above are compared with '
        'the model state, and the final observables with those of the same history with all flags= / weights= '
        'keywords deleted, run on the real code.  non-trivial = the selected data are non-empty and the value is '
        'not "all"; distinct = hash of (data set spec, value / history).')
TRUSTED = ['Lean 4.33 kernel', 'axioms: propext, Classical.choice, Quot.sound only',
           'hand-written model KatdalModel/Model/Flags.lean tied to /repo by this differential run',
           'frozen documented flag table (Flags.documentedNames) = katdal/flags.py DESCRIPTIONS order',
           'criterion values of select() evaluate to masks independently of the flag / weight selection '
           '(by inspection of dataset.py 766-895; exercised for dumps, timerange, channels, corrprods, pol, ants)',
           'harness/v4synth.py, harness/h5synth.py synthetic data sets']
CHECKER = 'lake build KatdalModel.Props.C16 kd_c16 && lake env lean <#print axioms audit>'

DOCUMENTED = ['reserved0', 'static', 'cam', 'data_lost', 'ingest_rfi', 'predicted_rfi', 'cal_rfi', 'postproc']
WS = [' ', '  ', '\t', '\n', '\x0b', '\x0c', '\r', '\x1c', '\x1f', '\x85', '\xa0', '\u2003', '\u3000', '', '', '']
WORDS = ['alpha', 'beta', 'gamma', 'delta', 'eps', 'zeta', 'eta', 'theta', 'iota', 'kappa', 'rfi one', 'x.y',
         'Cam', 'lost-data', 'q7', 'reserved3', 'detected_rfi', 'reserved6', 'reserved7']


# ---------------------------------------------------------------- encoding for the driver

def enc_str(s):
    return 'e' if s == '' else '.'.join(str(ord(c)) for c in s)


def enc_list(items):
    return '-' if not items else ','.join(enc_str(s) for s in items)


def enc_sel(sel):
    if sel['k'] == 'str':
        return 's:' + enc_str(sel['v'])
    return 'l:' + enc_list(sel['v'])


def dec_list(s):
    if s == '-':
        return []
    return ['' if t == 'e' else ''.join(chr(int(c)) for c in t.split('.')) for t in s.split(',')]


def enc_mask(m):
    return '-' if len(m) == 0 else ''.join('1' if b else '0' for b in m)


def dec_mask(s):
    return np.zeros(0, dtype=bool) if s == '-' else np.array([c == '1' for c in s])


def sel_to_py(sel):
    k, v = sel['k'], sel['v']
    if k == 'str':
        return v
    if k == 'list':
        return list(v)
    if k == 'tuple':
        return tuple(v)
    if k == 'array':
        return np.array(v, dtype=str) if v else np.array([], dtype=str)
    if k == 'set':
        return set(v)
    if k == 'frozenset':
        return frozenset(v)
    raise Broken(f'unknown selection kind {k}')


# ---------------------------------------------------------------- data sets

class DS:
    pass


_DS_CACHE = {}
_TMPDIRS = []


def _tmpdir():
    d = tempfile.mkdtemp(prefix='c16_')
    _TMPDIRS.append(d)
    return d


def cleanup():
    for ds in list(_DS_CACHE.values()):
        try:
            if ds.syn is not None and hasattr(ds.syn, 'close'):
                ds.syn.close()
        except Exception:   # noqa: BLE001
            pass
    _DS_CACHE.clear()
    for d in _TMPDIRS:
        shutil.rmtree(d, ignore_errors=True)
    del _TMPDIRS[:]


def all_bytes_array(shape, seed):
    """uint8 array that contains every byte value (needs >= 256 elements), in seeded random positions"""
    n = int(np.prod(shape))
    if n < 256:
        raise Broken('flag array too small to hold every byte value')
    r = np.random.RandomState(seed)
    a = np.concatenate([np.arange(256), r.randint(0, 256, n - 256)]).astype(np.uint8)
    r.shuffle(a)
    return a.reshape(shape)


V4_CHUNKS = {
    # (T=4, F=8, B=12): a different grid for every array so that lost regions cut across flag chunks
    'correlator_data': ((2, 2), (4, 4)),
    'flags': ((1, 3), (8,)),
    'weights': ((4,), (3, 5)),
    'weights_channel': ((3, 1), (2, 6)),
}


def _v4_chunks(T, F, B):
    if (T, F) != (4, 8):
        raise Broken('v4 chunk table is for T=4, F=8')
    out = {}
    for k, (ct, cf) in V4_CHUNKS.items():
        out[k] = (ct, cf) if k == 'weights_channel' else (ct, cf, (B,))
    return out


def _chunk_slices(chunks, idx):
    starts = [np.cumsum((0,) + tuple(c)) for c in chunks]
    return tuple(slice(int(starts[k][i]), int(starts[k][i + 1])) for k, i in enumerate(idx))


def build_v4(spec, raw_table):
    import random
    from harness import v4synth
    T, F, na = spec['T'], spec['F'], spec['n_ants']
    rng = random.Random(spec['seed'])
    B = len(v4synth.default_corrprods(na))
    chunks = _v4_chunks(T, F, B)
    missing = {k: [tuple(i) for i in v] for k, v in (spec.get('missing') or {}).items()}
    kw = dict(T=T, F=F, n_ants=na, chunks=chunks, seed=spec['seed'])
    if missing:
        kw['store_dir'] = _tmpdir()
        kw['missing'] = missing
    ants = [f'm{i:03}' for i in range(na)]
    bad_input = None
    if spec.get('applycal'):
        G = np.ones((2, na), dtype=np.complex64)
        bad_ant = spec['seed'] % na
        bad_pol = (spec['seed'] // 7) % 2
        G[bad_pol, bad_ant] = np.nan
        bad_input = ants[bad_ant] + 'hv'[bad_pol]
        kw['extra_attrs'] = {'cal_antlist': ants, 'cal_pol_ordering': ['h', 'v'], 'cal_center_freq': 1284e6,
                             'cal_n_chans': F, 'cal_bandwidth': F * 1e6}
        kw['extra_sensors'] = {'cal_product_G': [(-1.0, G)]}
        kw['open_kwargs'] = {'applycal': 'l1.G'}
    syn = v4synth.make_v4(rng, **kw)
    # lay out every byte value in the stored flags (the builder clears bits 3 and 7)
    mine = all_bytes_array((T, F, B), spec['seed'] + 17)
    name = syn.store.join(syn.telstate.join(syn.cbid, syn.stream).replace('_', '-'), 'flags')
    fl_missing = set(missing.get('flags', []))
    for idx in itertools.product(*[range(len(c)) for c in chunks['flags']]):
        if idx in fl_missing:
            continue
        sl = _chunk_slices(chunks['flags'], idx)
        syn.store.put_chunk(name, sl, np.ascontiguousarray(mine[sl]))
    stored = mine.astype(np.int32)
    for idx in fl_missing:
        stored[_chunk_slices(chunks['flags'], idx)] = -1      # reads as the fill value
    lost = np.zeros((T, F, B), dtype=bool)
    vis = syn.stored['correlator_data'].copy()
    for arr, idxs in missing.items():
        if arr == 'flags':
            continue
        for idx in idxs:
            sl = _chunk_slices(chunks[arr], idx)
            lost[sl] = True
            if arr == 'correlator_data':
                vis[sl] = 0
    pp = np.zeros((T, F, B), dtype=bool)
    if bad_input is not None:
        pp[:, :, [bad_input in cp for cp in syn.corrprods]] = True
    ds = DS()
    ds.fmt, ds.kind, ds.ord = 'v4', 'v4', 'lsb'
    ds.syn, ds.d = syn, syn.dataset
    ds.names = list(DOCUMENTED)
    ds.raw_full = raw_table[stored + 1, lost.astype(int), pp.astype(int)].astype(np.uint8)
    ds.vis_full = vis
    ds.corrprods = [tuple(cp) for cp in syn.corrprods]
    ds.timestamps = syn.timestamps
    ds.dump_period = 2.0
    ds.has_raw = True
    ds.shape = (T, F, B)
    ds.n_lost, ds.n_pp, ds.n_fill = int(lost.sum()), int(pp.sum()), int((stored < 0).sum())
    return ds


def build_h5(spec):
    import random
    import h5py
    from harness import h5synth
    import katdal.flags as kf
    T, F, na = spec['T'], spec['F'], spec['n_ants']
    rng = random.Random(spec['seed'])
    ver = 3 if spec['fmt'] == 'v3' else 2
    path = os.path.join(_tmpdir(), f'c16_v{ver}.h5')
    mk = h5synth.make_v3 if ver == 3 else h5synth.make_v2
    syn = mk(path, rng, T=T, F=F, n_ants=na, open=False, seed=spec['seed'])
    B = syn.shape[2]
    mine = all_bytes_array((syn.n_stored_dumps, F, B), spec['seed'] + 17)
    table = spec.get('table')
    with h5py.File(path, 'r+') as f:
        grp = f['Data'] if ver == 3 else f['Markup']
        grp['flags'][...] = mine
        if table is not None:
            descr = [f'description of {n}' for n in table]
            if spec.get('desc') == 'vlen':
                grp.create_dataset('flags_description', data=np.array(list(zip(table, descr)), dtype=object),
                                   dtype=h5py.string_dtype())
            else:
                grp.create_dataset('flags_description', data=np.array(list(zip(table, descr)), dtype='S'))
    syn.flags_raw = mine[:T].copy()
    ds = DS()
    ds.fmt, ds.kind, ds.ord = spec['fmt'], 'h5', ('lsb' if ver == 3 else 'msb')
    ds.syn = syn
    ds.names = list(table) if table is not None else list(DOCUMENTED)
    ds.open_error = None
    try:
        syn.dataset = syn.open()
    except Exception as e:   # noqa: BLE001
        ds.open_error = type(e).__name__
    ds.d = syn.dataset
    ds.raw_full = syn.flags_raw
    ds.vis_full = syn.vis
    ds.corrprods = [tuple(cp) for cp in syn.corrprods]
    ds.timestamps = syn.timestamps
    ds.dump_period = syn.dump_period
    ds.has_raw = False
    ds.shape = (T, F, B)
    ds.n_lost = ds.n_pp = ds.n_fill = 0
    return ds


def get_ds(spec, raw_table):
    key = json.dumps(spec, sort_keys=True)
    if key not in _DS_CACHE:
        with dask.config.set(scheduler='synchronous'):
            _DS_CACHE[key] = build_v4(spec, raw_table) if spec['fmt'] == 'v4' else build_h5(spec)
    return _DS_CACHE[key]


def model_raw_table():
    """raw_table[stored + 1, lost, pp] by the model (index 0 = flags chunk missing)"""
    lines = []
    for s in range(-1, 256):
        for lost in (0, 1):
            for pp in (0, 1):
                lines.append(f"raw {'_' if s < 0 else s} {lost} {pp}")
    rep = common.run_model('C16', lines)
    return np.array([int(r) for r in rep], dtype=np.int64).reshape(257, 2, 2)


# ---------------------------------------------------------------- generators

def gen_selection(rng, names):
    r = rng.random()
    unknown = ['bogus', names[2].upper(), 'all', names[2] + ' ', ' ' + names[1], '', names[3].replace('_', ' ') + '?',
               'flags', names[2] + 'x', names[0][:-1], 'ALL']

    def pick(kmax):
        k = rng.randint(0, kmax)
        return [rng.choice(names) if rng.random() < 0.75 else rng.choice(unknown) for _ in range(k)]
    if r < 0.07:
        return {'k': 'str', 'v': 'all'}
    if r < 0.12:
        return {'k': 'str', 'v': ''}
    if r < 0.17:
        return {'k': rng.choice(['list', 'tuple', 'array', 'set']), 'v': []}
    if r < 0.27:
        return {'k': 'str', 'v': rng.choice(names)}
    if r < 0.58:
        items = pick(6) or [rng.choice(names)]
        pieces = [rng.choice(WS) + it + rng.choice(WS) for it in items]
        s = ','.join(pieces)
        if s in ('', 'all'):
            s = rng.choice(names)
        return {'k': 'str', 'v': s}
    if r < 0.70:
        # dense subsets: every name with probability 0.5 .. 0.95, in a random spelling and order
        p = rng.choice([0.5, 0.75, 0.9, 0.95])
        items = [n for n in names if rng.random() < p]
        rng.shuffle(items)
        kind = rng.choice(['str', 'str', 'list', 'tuple', 'array', 'set'])
        if kind == 'str':
            s = ','.join(rng.choice(WS) + it + rng.choice(WS) for it in items)
            return {'k': 'str', 'v': s if s not in ('all',) else ''}
        return {'k': kind, 'v': sorted(items) if kind == 'set' else items}
    if r < 0.76:
        return {'k': 'str', 'v': rng.choice([' all', 'all ', 'ALL', 'all,all', 'all,' + names[1], ',', ' ', ',,',
                                             names[4] + ',', ',' + names[5]])}
    kind = rng.choice(['list', 'list', 'tuple', 'array', 'set', 'frozenset'])
    items = pick(6)
    if kind in ('set', 'frozenset'):
        items = sorted(set(items))
    return {'k': kind, 'v': items}


def gen_weights(rng):
    return rng.choice([{'k': 'str', 'v': 'all'}, {'k': 'str', 'v': ''}, {'k': 'str', 'v': 'precision'},
                       {'k': 'str', 'v': 'bogus'}, {'k': 'list', 'v': ['precision']}, {'k': 'list', 'v': []},
                       {'k': 'tuple', 'v': ['precision', 'x']}])


def gen_table(rng):
    names = rng.sample(WORDS, 8)
    return names


def gen_axis_value(rng, n, contiguous=False):
    """value for dumps= / channels= / corrprods= on an axis of length n"""
    r = rng.random()
    if contiguous or r < 0.3:
        a = rng.randint(0, n - 1)
        b = rng.randint(a + 1, n)
        step = 1 if contiguous else rng.choice([1, 1, 2, 3])
        return {'t': 'slice', 'v': [a, b, step]}
    if r < 0.65:
        m = [rng.random() < 0.6 for _ in range(n)]
        if not any(m):
            m[rng.randrange(n)] = True
        return {'t': 'mask', 'v': m}
    k = rng.randint(1, n)
    return {'t': 'ints', 'v': sorted(rng.sample(range(n), k))}


def gen_call(rng, ds):
    T, F, B = ds.shape
    h5 = ds.kind == 'h5'
    r = rng.random()
    if r < 0.08:
        return {'reset': None, 'keys': [], 'flags': None, 'weights': None}      # select()
    call = {'reset': None, 'keys': [], 'flags': None, 'weights': None}
    if r < 0.40:
        # only flags / weights
        which = rng.random()
        if which < 0.6 or which > 0.85:
            call['flags'] = gen_selection(rng, ds.names)
        if which >= 0.6:
            call['weights'] = gen_weights(rng)
        return call
    if rng.random() < 0.3:
        call['reset'] = rng.choice(['', '', 'T', 'F', 'B', 'TF', 'TB', 'FB', 'TFB'])
    nkeys = rng.choice([0, 1, 1, 1, 2, 2, 3]) if call['reset'] is not None else rng.choice([1, 1, 1, 2, 2, 3])
    pool = ['dumps', 'timerange', 'channels', 'corrprods'] + ([] if h5 else ['pol', 'ants'])
    for key in rng.sample(pool, min(nkeys, len(pool))):
        if key == 'dumps':
            val = gen_axis_value(rng, T)
        elif key == 'timerange':
            i = rng.randint(0, T - 1)
            val = {'t': 'range', 'v': [i, rng.randint(i, T - 1)]}
        elif key == 'channels':
            val = gen_axis_value(rng, F)
        elif key == 'corrprods':
            val = gen_axis_value(rng, B, contiguous=h5)
        elif key == 'pol':
            val = {'t': 'pol', 'v': rng.choice(['hh', 'vv', 'hv', 'vh', 'h', 'v', 'HH', ['hh', 'vv'], 'hv,vh'])}
        else:
            ants = sorted({inp[:-1] for cp in ds.corrprods for inp in cp})
            val = {'t': 'ants', 'v': rng.choice([ants[0], ants[-1], ants[:1], ','.join(ants)])}
        call['keys'].append([key, val])
    if rng.random() < 0.45:
        call['flags'] = gen_selection(rng, ds.names)
    if rng.random() < 0.25:
        call['weights'] = gen_weights(rng)
    return call


KEYCODE = {'dumps': 'd', 'timerange': 't', 'channels': 'c', 'corrprods': 'p', 'ants': 'a', 'pol': 'o'}


def crit_mask(ds, key, val):
    """the boolean mask a criterion evaluates to (documented meaning of the keyword)"""
    T, F, B = ds.shape
    n = {'dumps': T, 'timerange': T, 'channels': F, 'corrprods': B, 'pol': B, 'ants': B}[key]
    m = np.zeros(n, dtype=bool)
    t, v = val['t'], val['v']
    if t == 'mask':
        m = np.array(v, dtype=bool)
    elif t == 'ints':
        m[v] = True
    elif t == 'slice':
        m[slice(*v)] = True
    elif t == 'range':
        m[v[0]:v[1] + 1] = True
    elif t == 'pol':
        pols = v if isinstance(v, list) else [p.strip() for p in v.split(',')]
        pols = [p.lower() for p in pols if p]
        pols = [p * 2 if p in ('h', 'v') else p for p in pols]
        m = np.array([any(a[-1] == p[0] and b[-1] == p[1] for p in pols) for a, b in ds.corrprods])
    elif t == 'ants':
        ants = v if isinstance(v, list) else [a.strip() for a in v.split(',')]
        m = np.array([a[:-1] in ants and b[:-1] in ants for a, b in ds.corrprods])
    return m


def crit_py(ds, key, val):
    t, v = val['t'], val['v']
    if t == 'mask':
        return np.array(v, dtype=bool)
    if t == 'ints':
        return list(v)
    if t == 'slice':
        return slice(*v)
    if t == 'range':
        dp = ds.dump_period
        return (float(ds.timestamps[v[0]]) - 0.75 * dp, float(ds.timestamps[v[1]]) + 0.75 * dp)
    return v


def call_kwargs(ds, call):
    kw = {}
    if call['reset'] is not None:
        kw['reset'] = call['reset']
    for key, val in call['keys']:
        kw[key] = crit_py(ds, key, val)
    if call['flags'] is not None:
        kw['flags'] = sel_to_py(call['flags'])
    if call['weights'] is not None:
        kw['weights'] = sel_to_py(call['weights'])
    return kw


def call_line(ds, call):
    items = ['r=' + ('_' if call['reset'] is None else (call['reset'] or '0'))]
    for key, val in call['keys']:
        items.append(f"{KEYCODE[key]}={enc_mask(crit_mask(ds, key, val))}")
    if call['flags'] is not None:
        items.append('f=' + enc_sel(call['flags']))
    if call['weights'] is not None:
        items.append('w=' + enc_sel(call['weights']))
    return ';'.join(items)


def is_fw_only(call):
    return call['reset'] is None and not call['keys'] and (call['flags'] is not None or call['weights'] is not None)


def erase_fw(calls):
    """the history with every flags= / weights= keyword deleted (mirrors Flags.eraseFW)"""
    return [dict(c, flags=None, weights=None) for c in calls if not is_fw_only(c)]


# ---------------------------------------------------------------- implementation side

class _Collector(logging.Handler):
    def __init__(self):
        super().__init__(level=logging.WARNING)
        self.records = []

    def emit(self, record):
        self.records.append(record)


def with_warnings(fn):
    h = _Collector()
    lg = logging.getLogger('katdal')
    old_level, old_prop = lg.level, lg.propagate
    old_handlers = list(lg.handlers)
    for oh in old_handlers:
        lg.removeHandler(oh)       # katdal installs a print-like handler of its own
    lg.addHandler(h)
    lg.setLevel(logging.WARNING)
    lg.propagate = False
    old_disable = logging.root.manager.disable
    logging.disable(logging.NOTSET)      # ./check silences warnings globally; the property mentions this one
    try:
        fn()
    finally:
        logging.disable(old_disable)
        lg.removeHandler(h)
        for oh in old_handlers:
            lg.addHandler(oh)
        lg.setLevel(old_level)
        lg.propagate = old_prop
    return h.records


def observe(ds, data=True):
    d = ds.d
    o = {'dumps': np.asarray(d.dumps).tolist(), 'channels': np.asarray(d.channels).tolist(),
         'corr_products': [tuple(str(x) for x in cp) for cp in np.asarray(d.corr_products).tolist()]}
    if data:
        with dask.config.set(scheduler='synchronous'):
            o['vis'] = np.asarray(d.vis[:])
            o['flags'] = np.asarray(d.flags[:])
            if ds.has_raw:
                o['raw'] = np.asarray(d.raw_flags[:])
    return o


def reset_ds(ds):
    """back to the state after opening; returns the error text if the real code raises"""
    try:
        ds.d.select()
        ds.d.select(flags='all', weights='all')
    except Exception as e:   # noqa: BLE001
        return f"select(); select(flags='all', weights='all') raised {type(e).__name__}: {str(e)[:100]}"
    return None


_TABLES = {}


def flag_table(ctx, kind, m):
    key = (kind, m)
    if key not in _TABLES:
        rep = common.run_model('C16', [f'flagtable {kind} {m}'])[0]
        mirror, spec = rep.split(' ')
        mt = np.array([c == '1' for c in mirror])
        st = np.array([c == '1' for c in spec])
        if not np.array_equal(mt, st):
            ctx.advise(f'flag table of the mirror differs from the spec for mask {m} ({kind})')
        _TABLES[key] = st
    return _TABLES[key]


def compare_state(ctx, ds, obs, tmask, fmask, bmask, m, label, check_flags=True):
    """implementation observables vs the model state; returns violation text or None"""
    exp_d = np.nonzero(tmask)[0].tolist()
    exp_c = np.nonzero(fmask)[0].tolist()
    exp_p = [ds.corrprods[i] for i in np.nonzero(bmask)[0]]
    if obs['dumps'] != exp_d:
        return f'{label}: dumps {obs["dumps"]} != {exp_d}'
    if obs['channels'] != exp_c:
        return f'{label}: channels {obs["channels"]} != {exp_c}'
    if obs['corr_products'] != exp_p:
        return f'{label}: corr_products differ: {obs["corr_products"][:4]}.. != {exp_p[:4]}..'
    if 'vis' not in obs:
        return None
    ix = np.ix_(tmask, fmask, bmask)
    if not np.array_equal(obs['vis'], ds.vis_full[ix], equal_nan=True):
        return f'{label}: vis differs from the stored visibilities of the selected dumps / channels / products'
    raw_sel = ds.raw_full[ix]
    if ds.has_raw and not np.array_equal(obs['raw'], raw_sel):
        bad = np.argwhere(obs['raw'] != raw_sel)[0] if obs['raw'].shape == raw_sel.shape else None
        detail = '' if bad is None else f' at {bad.tolist()}: got {int(obs["raw"][tuple(bad)])} expected {int(raw_sel[tuple(bad)])}'
        return f'{label}: raw_flags differ from stored | data_lost | postproc{detail}'
    if not check_flags:
        return None
    table = flag_table(ctx, ds.kind, m)
    exp = table[raw_sel]
    out = obs['flags']
    if out.shape != exp.shape:
        return f'{label}: flags shape {out.shape} != {exp.shape}'
    if out.dtype != np.dtype(bool):
        return f'{label}: flags dtype {out.dtype} is not bool'
    got = out.view(np.uint8) != 0
    if not np.array_equal(got, exp):
        bad = tuple(np.argwhere(got != exp)[0])
        if exp.any() and not got.any():
            return (f'{label}: flags are all False as if no name was selected, expected (raw & {m}) != 0 '
                    f'(e.g. raw byte {int(raw_sel[bad])})')
        return (f'{label}: flags differ from (raw & {m}) != 0 at {list(map(int, bad))}: raw byte '
                f'{int(raw_sel[bad])} gives {bool(got[bad])}')
    return None


def run_sel_case(ctx, case, raw_table):
    """one select(flags=value) on a freshly reset data set"""
    ds = get_ds(case['ds'], raw_table)
    sel = case['sel']
    names = enc_list(ds.names)
    rep = common.run_model('C16', [f'mask {ds.ord} {names} {enc_sel(sel)}', f'list {names} {enc_sel(sel)}'])
    if ds.d is None:
        # the file could not be opened: only meaningful when the model rejects the table too
        if rep[0].startswith('E:'):
            ctx.tag('table-rejected')
            return None, False
        return f'data set could not be opened ({ds.open_error}) although its flag table is valid', False
    if rep[0].startswith('E:'):
        ctx.tag('table-rejected-by-model-only')
        ctx.advise(f'model rejects the flag table {ds.names} but the file opened')
        return None, False
    m, mspec = (int(x) for x in rep[0].split(' '))
    if m != mspec:
        ctx.advise(f'mirror mask {m} != documented mask {mspec} for {sel} (table {ds.names})')
    chosen = dec_list(rep[1])
    has_unknown = any(c not in ds.names for c in chosen)
    rerr = reset_ds(ds)
    if rerr:
        return rerr, True
    err = []

    def doit():
        try:
            ds.d.select(flags=sel_to_py(sel))
        except Exception as e:   # noqa: BLE001
            err.append(type(e).__name__ + ': ' + str(e)[:100])
    recs = with_warnings(doit)
    ctx.tag('sel-' + sel['k'], 'fmt-' + ds.fmt, 'unknown-name' if has_unknown else 'known-names',
            f'maskbits-{bin(mspec).count("1")}')
    if err:
        return f'select(flags={sel_to_py(sel)!r}) raised {err[0]}', True
    obs = observe(ds)
    T, F, B = ds.shape
    v = compare_state(ctx, ds, obs, np.ones(T, bool), np.ones(F, bool), np.ones(B, bool), mspec,
                      f'select(flags={sel_to_py(sel)!r})')
    if v is None and has_unknown and not recs:
        v = f'select(flags={sel_to_py(sel)!r}) contains an unknown name but no warning was logged'
    if v is None and ds.fmt == 'v4' and 'cam' in ds.names:
        # the flags of this selection and of another one, fetched in ONE dask computation: each indexer still gives
        # the raw byte AND the mask of the names selected when it was obtained
        from katdal.lazy_indexer import DaskLazyIndexer
        try:
            first = ds.d.flags
            ds.d.select(flags='cam')
            second = ds.d.flags
            with dask.config.set(scheduler='synchronous'):
                joint = DaskLazyIndexer.get([first, second], np.s_[:, :, :])
                alone = np.asarray(second[:])
        except Exception as e:   # noqa: BLE001
            return f'joint fetch of the flags of two selections raised {type(e).__name__}: {str(e)[:100]}', True
        ctx.tag('two-flag-selections-one-graph')
        if not np.array_equal(np.asarray(joint[0]), obs['flags']) or not np.array_equal(np.asarray(joint[1]), alone):
            v = (f"flags selected with {sel_to_py(sel)!r} and with 'cam', fetched in one dask computation: one of them "
                 f'carries the mask of the other selection')
    return v, mspec not in (255,)


def run_hist_case(ctx, case, raw_table, data=True):
    ds = get_ds(case['ds'], raw_table)
    if ds.d is None:
        return f'data set could not be opened ({ds.open_error})', False
    calls = case['calls']
    T, F, B = ds.shape
    line = (f"hist {ds.ord} {enc_list(ds.names)} {T} {F} {B} "
            + ('|'.join(call_line(ds, c) for c in calls) if calls else '-'))
    rep = common.run_model('C16', [line])[0]
    steps, erased = rep.split(' # ')
    states = []
    for s in (steps.split('|') if steps else []):
        kv = dict(item.split('=', 1) for item in s.split(';'))
        states.append((dec_mask(kv['T']), dec_mask(kv['F']), dec_mask(kv['B']), int(kv['m'])))
    ekv = dict(item.split('=', 1) for item in erased.split(';'))
    rerr = reset_ds(ds)
    if rerr:
        return rerr, True
    nontrivial = False
    last = None
    for i, (call, st) in enumerate(zip(calls, states)):
        kw = call_kwargs(ds, call)
        try:
            ds.d.select(**kw)
        except Exception as e:   # noqa: BLE001
            return f'call {i} select({sorted(kw)}) raised {type(e).__name__}: {str(e)[:100]}', True
        tm, fm, bm, m = st
        empty = not (tm.any() and fm.any() and bm.any())
        if empty:
            ctx.tag('empty-selection')
        last = observe(ds, data=data and not empty)
        # select() without arguments "clears all selections": whether that includes the flag selection is not
        # fixed by the property (katdal keeps it); the generator re-states flags= right after such a call
        v = compare_state(ctx, ds, last, tm, fm, bm, m, f'after call {i} ({call_desc(call)})', check_flags=bool(kw))
        if v:
            return v, True
        nontrivial = nontrivial or not empty
        ctx.tag('call-fw-only' if is_fw_only(call) else ('call-noargs' if not kw else 'call-tfb'),
                'reset-' + ('auto' if call['reset'] is None else (call['reset'] or 'none')))
    # twin run: the same history with all flag / weight selections deleted, on the real code
    if calls:
        tm, fm, bm, _ = states[-1]
        if not (np.array_equal(dec_mask(ekv['T']), tm) and np.array_equal(dec_mask(ekv['F']), fm)
                and np.array_equal(dec_mask(ekv['B']), bm)):
            ctx.advise('model: erased history gives other masks (contradicts c16_independent)')
        rerr = reset_ds(ds)
        if rerr:
            return rerr, True
        for call in erase_fw(calls):
            try:
                ds.d.select(**call_kwargs(ds, call))
            except Exception as e:   # noqa: BLE001
                return (f'history without flags= / weights=: select({sorted(call_kwargs(ds, call))}) raised '
                        f'{type(e).__name__}: {str(e)[:100]}'), True
        empty = not (tm.any() and fm.any() and bm.any())
        twin = observe(ds, data=data and not empty)
        for k in ('dumps', 'channels', 'corr_products'):
            if twin[k] != last[k]:
                return f'{k} after the history differ from {k} after the history without flags= / weights=', True
        for k in ('vis', 'raw'):
            if k in twin and not np.array_equal(twin[k], last[k], equal_nan=True):
                return (f'{"raw_flags" if k == "raw" else k} after the history differ from those after the '
                        f'history without flags= / weights='), True
        ctx.traces_validated += 1
    return None, nontrivial


def call_desc(call):
    parts = []
    if call['reset'] is not None:
        parts.append(f"reset={call['reset']!r}")
    parts += [k for k, _ in call['keys']]
    if call['flags'] is not None:
        parts.append(f"flags={sel_to_py(call['flags'])!r}")
    if call['weights'] is not None:
        parts.append(f"weights={sel_to_py(call['weights'])!r}")
    return ', '.join(parts) or 'no arguments'


def run_case(ctx, case, raw_table):
    if case['kind'] == 'sel':
        return run_sel_case(ctx, case, raw_table)
    return run_hist_case(ctx, case, raw_table)


# ---------------------------------------------------------------- case lists

def ds_specs(rng, tier_extra):
    base = dict(T=4, F=8, n_ants=2)
    specs = {
        'v4': dict(base, fmt='v4', seed=rng.randrange(10 ** 6)),
        'v4cal': dict(base, fmt='v4', seed=rng.randrange(10 ** 6), applycal=True),
        'v3': dict(base, fmt='v3', seed=rng.randrange(10 ** 6)),
        'v2': dict(base, fmt='v2', seed=rng.randrange(10 ** 6)),
        'v2tab': dict(base, fmt='v2', seed=rng.randrange(10 ** 6), table=gen_table(rng),
                      desc=rng.choice(['S', 'vlen'])),
        'v3tab': dict(base, fmt='v3', seed=rng.randrange(10 ** 6), table=gen_table(rng),
                      desc=rng.choice(['S', 'vlen'])),
        'v3doc': dict(base, fmt='v3', seed=rng.randrange(10 ** 6), table=list(DOCUMENTED), desc='S'),
    }
    # missing chunks: at least one of every array, random others
    grids = {k: [len(c) for c in (v if k != 'weights_channel' else v)] for k, v in V4_CHUNKS.items()}
    for j in range(1 + tier_extra):
        missing = {}
        for arr, g in grids.items():
            idxs = list(itertools.product(*[range(n) for n in g]))
            k = rng.randint(1, 2) if j == 0 else rng.randint(0, 2)
            chosen = rng.sample(idxs, min(k, len(idxs)))
            if chosen:
                missing[arr] = [list(i) + ([0] if arr != 'weights_channel' else []) for i in chosen]
        if 'flags' in missing and len(missing['flags']) == 2:
            missing['flags'] = missing['flags'][:1]      # keep most byte values readable
        specs[f'v4lost{j}'] = dict(base, fmt='v4', seed=rng.randrange(10 ** 6), missing=missing)
    return specs


def fixed_selections(names):
    out = [{'k': 'str', 'v': 'all'}, {'k': 'str', 'v': ''}, {'k': 'list', 'v': []}, {'k': 'tuple', 'v': []}]
    out += [{'k': 'str', 'v': n} for n in names]
    out += [{'k': 'list', 'v': [n]} for n in names[:2]]
    out += [{'k': 'str', 'v': ','.join(x for x in names if x != n)} for n in names]      # all but one
    out += [{'k': 'str', 'v': ','.join(names)}, {'k': 'str', 'v': f' {names[2]} ,\t{names[3]}'},
            {'k': 'list', 'v': ['all']}, {'k': 'str', 'v': 'bogus'}, {'k': 'tuple', 'v': [names[7], 'bogus', names[7]]}]
    return out


def make_cases(ctx, specs):
    rng = ctx.rng
    cases = []
    n_sel = ctx.q(60, 1000)
    weights = {'v4': 1.0, 'v4cal': 0.3, 'v3': 0.6, 'v2': 0.8, 'v2tab': 0.5, 'v3tab': 0.2, 'v3doc': 0.2}
    for name, spec in specs.items():
        names = spec.get('table') or DOCUMENTED
        w = weights.get(name, 0.35)
        fixed = fixed_selections(names)
        if w < 0.5:
            fixed = fixed[:2] + rng.sample(fixed[2:], 7) + ([{'k': 'str', 'v': 'data_lost'}, {'k': 'str', 'v': 'postproc'}]
                                                            if spec['fmt'] == 'v4' else [])
        for sel in fixed:
            cases.append({'kind': 'sel', 'ds': spec, 'sel': sel})
        for _ in range(int(n_sel * w)):
            cases.append({'kind': 'sel', 'ds': spec, 'sel': gen_selection(rng, names)})
    n_hist = ctx.q(60, 1500)
    hist_specs = [('v4', 0.45), ('v4lost0', 0.15), ('v4cal', 0.1), ('v3', 0.12), ('v2', 0.12), ('v2tab', 0.06)]
    return cases, n_hist, hist_specs


def gen_hist_cases(ctx, specs, n_hist, hist_specs, raw_table):
    rng = ctx.rng
    out = []
    for name, w in hist_specs:
        spec = specs[name]
        ds = get_ds(spec, raw_table)
        if ds.d is None:
            continue
        for _ in range(max(1, int(round(n_hist * w)))):
            n = rng.randint(1, 7)
            calls = []
            for _ in range(n):
                c = gen_call(rng, ds)
                calls.append(c)
                if not call_kwargs(ds, c):
                    calls.append({'reset': None, 'keys': [], 'flags': gen_selection(rng, ds.names),
                                  'weights': gen_weights(rng) if rng.random() < 0.3 else None})
            if not any(c['flags'] is not None or c['weights'] is not None for c in calls):
                calls.insert(rng.randint(0, len(calls)), {'reset': None, 'keys': [], 'flags': gen_selection(rng, ds.names),
                                                          'weights': None})
            out.append({'kind': 'hist', 'ds': spec, 'calls': calls})
    return out


# ---------------------------------------------------------------- known findings, shrinking

def m_v3_description_bytes(case, what):
    """v3 file WITH a flags_description dataset: h5datav3 keeps the names as bytes, so every name given as str is
    'not a legitimate flag type' and the mask is 0 (only 'all' works)"""
    ds = case.get('ds', {})
    return (case.get('kind') == 'sel' and ds.get('fmt') == 'v3' and ds.get('table') is not None
            and 'flags are all False as if no name was selected' in what)


MATCHERS = {'c16_v3_flags_description_bytes': m_v3_description_bytes}


def shrink(ctx, case, what, raw_table):
    if case['kind'] != 'hist':
        return case, what

    def fails(calls):
        c2 = common.Ctx(ctx.prop, ctx.tier, ctx.seed)
        try:
            v, _ = run_hist_case(c2, dict(case, calls=calls), raw_table)
        except Exception:   # noqa: BLE001
            return False
        return bool(v)
    calls = common.ddmin(case['calls'], fails)
    small = dict(case, calls=calls)
    v, _ = run_hist_case(common.Ctx(ctx.prop, ctx.tier, ctx.seed), small, raw_table)
    return (small, v) if v else (case, what)


def corpus_cases():
    d = os.path.join(common.VERIF, 'corpus', 'C16')
    out = []
    if os.path.isdir(d):
        for nm in sorted(os.listdir(d)):
            out.append(json.load(open(os.path.join(d, nm)))['case'])
    return out


def evaluate(ctx, cases, raw_table):
    for case in cases:
        v, nontrivial = run_case(ctx, case, raw_table)
        key = json.dumps(case, sort_keys=True, default=str)
        sample = None
        if len(ctx.samples) < 8:
            sample = {'kind': case['kind'], 'fmt': case['ds']['fmt'],
                      'input': case.get('sel') or [call_desc(c) for c in case.get('calls', [])]}
        ctx.count(key, nontrivial, sample=sample)
        if v:
            ctx.violation(case, v)


def concat_flags_cases(ctx):
    """flag selection by name pushed through a ConcatenatedDataSet (v2 and v3 files opened together): the
    selection reaches each part through a single _set_keep call, without the getter/setter round trip of
    DataSet.select, so a bit-order slip in a setter shows only here"""
    import random
    import h5py
    import katdal
    from harness import h5synth
    out = []
    for ver in (2, 3):
        mk = h5synth.make_v3 if ver == 3 else h5synth.make_v2
        paths, raws = [], []
        try:
            for k in range(2):
                rng = random.Random(1000 * ver + k)
                path = os.path.join(_tmpdir(), f'c16_concat_v{ver}_{k}.h5')
                t0 = (1500000000.0 if ver == 3 else 1300000000.0) + 1000.0 * k
                syn = mk(path, rng, T=6, F=6, n_ants=2, shuffle_bls=False, t0=t0, open=False, seed=7 + k)
                B = syn.shape[2]
                mine = all_bytes_array((syn.n_stored_dumps, 6, B), 99 + k)
                with h5py.File(path, 'r+') as f:
                    (f['Data'] if ver == 3 else f['Markup'])['flags'][...] = mine
                paths.append(path)
                raws.append(mine[:6])
            d = katdal.open(paths)
        except Exception as e:   # noqa: BLE001
            ctx.advise(f'concatenated v{ver} flag case could not be built: {type(e).__name__}: {str(e)[:80]}')
            continue
        raw = np.concatenate(raws)
        names = enc_list(DOCUMENTED)
        order = 'lsb' if ver == 3 else 'msb'
        # (an EMPTY selection after a non-empty one must reach the parts as well)
        sels = [{'k': 'str', 'v': 'cam'}, {'k': 'str', 'v': ''}, {'k': 'str', 'v': 'static,predicted_rfi'},
                {'k': 'list', 'v': []}, {'k': 'list', 'v': ['ingest_rfi']}, {'k': 'str', 'v': 'all'},
                {'k': 'str', 'v': ''}, {'k': 'str', 'v': 'data_lost, cal_rfi,cam'}]
        for sel in sels:
            rep = common.run_model('C16', [f'mask {order} {names} {enc_sel(sel)}'])[0]
            m, mspec = (int(x) for x in rep.split(' '))
            case = {'kind': 'concat', 'ds': {'fmt': f'v{ver}-concat'}, 'sel': sel}
            try:
                d.select(flags=sel_to_py(sel))
                got = np.asarray(d.flags[:])
            except Exception as e:   # noqa: BLE001
                out.append((case, f'select(flags={sel_to_py(sel)!r}) on concatenated v{ver} files raised {type(e).__name__}'))
                continue
            want = (raw & np.uint8(mspec)) != 0
            ctx.tag(f'concat-v{ver}')
            ctx.count(json.dumps(case, sort_keys=True), True)
            if got.shape != want.shape or not np.array_equal(got, want):
                w = np.argwhere(got != want)[0].tolist() if got.shape == want.shape else []
                out.append((case, f'concatenated v{ver} files, select(flags={sel_to_py(sel)!r}): flags differ from '
                                  f'(raw & {mspec}) != 0 at {w}'))
    return out


def static_table_check(ctx):
    """flags.py against the documented table: a concrete input for every inconsistency (replayable as a sel case
    on v4 is not needed: the inconsistency itself is the failing input)"""
    import katdal.flags as kf
    bad = []
    if list(kf.NAMES) != DOCUMENTED:
        bad.append(f'flags.NAMES {list(kf.NAMES)} is not the documented table')
    for i, n in enumerate(DOCUMENTED):
        const = n.upper()
        if hasattr(kf, const) and getattr(kf, const) != 1 << i:
            bad.append(f'flags.{const} = {getattr(kf, const)} but {n!r} is documented as bit {i}')
        if hasattr(kf, const + '_BIT') and getattr(kf, const + '_BIT') != i:
            bad.append(f'flags.{const}_BIT = {getattr(kf, const + "_BIT")} but {n!r} is documented as bit {i}')
    return bad


def _run(ctx, cases_fn):
    ctx.matchers.update(MATCHERS)
    logging.getLogger('katdal').setLevel(logging.ERROR)
    build = common.build_and_audit('C16', ctx.tier)
    try:
        raw_table = model_raw_table()
        cases_fn(build, raw_table)
    finally:
        cleanup()
    ctx.assumptions = ['one spectral window and one subarray (spw= / subarray= keywords are not modelled)',
                       'criterion masks have the length of their axis (numpy would raise otherwise)',
                       'flag tables have pairwise distinct names (theorems); the setters are mirrored for any table',
                       'one-shot iterators as flags= value are outside the quantified spellings']
    return build, raw_table


def run(ctx):
    def body(build, raw_table):
        specs = ds_specs(ctx.rng, ctx.q(0, 3))
        cases, n_hist, hist_specs = make_cases(ctx, specs)
        evaluate(ctx, corpus_cases() + cases, raw_table)
        hist = gen_hist_cases(ctx, specs, n_hist, hist_specs, raw_table)
        evaluate(ctx, hist, raw_table)
        if not build['build_ok'] and not ctx.violations:
            # a proof obligation broke (e.g. the regenerated table): search harder
            more = []
            for name, spec in specs.items():
                names = spec.get('table') or DOCUMENTED
                more += [{'kind': 'sel', 'ds': spec, 'sel': gen_selection(ctx.rng, names)} for _ in range(60)]
            evaluate(ctx, more, raw_table)
            evaluate(ctx, gen_hist_cases(ctx, specs, 3 * n_hist, hist_specs, raw_table), raw_table)
        for msg in static_table_check(ctx):
            ctx.violation({'kind': 'table', 'ds': {'fmt': 'flags.py'}}, msg)
        for case, msg in concat_flags_cases(ctx):
            ctx.violation(case, msg)
        for ds in _DS_CACHE.values():
            if ds.n_lost:
                ctx.tag('ds-data-lost')
            if ds.n_fill:
                ctx.tag('ds-flags-chunk-missing')
            if ds.n_pp:
                ctx.tag('ds-postproc')
    holder = {}

    def wrapped(build, raw_table):
        holder['rt'] = raw_table
        body(build, raw_table)
    build, raw_table = _run(ctx, wrapped)

    def do_shrink(c, w):
        try:
            return shrink(ctx, c, w, raw_table)
        finally:
            cleanup()
    return common.finish(ctx, build, RULE, CHECKER, TRUSTED, shrink=do_shrink)


def replay(ctx, rep):
    case = rep['case']

    def body(build, raw_table):
        if case.get('kind') == 'table':
            for msg in static_table_check(ctx):
                ctx.violation(case, msg)
            return
        if case.get('kind') == 'concat':
            for c, msg in concat_flags_cases(ctx):
                ctx.violation(c, msg)
            return
        evaluate(ctx, [case], raw_table)
    build, _ = _run(ctx, body)
    return common.finish(ctx, build, RULE, CHECKER, TRUSTED)
