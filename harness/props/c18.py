"""C18 - telstate stream resolution and flag-stream upgrade."""
import itertools
import json
import logging
import os
import shutil
import tempfile
import urllib.parse

import numpy as np

from harness import common

RULE = ('place cases = real in-memory katsdptelstate with an inherit chain of length 0-3 (random stream / capture '
        'block names, some containing or ending in the separator) and an immutable key placed in a subset of the '
        '2L+4 namespaces: every subset for L<=2 (16+64+256), a random sample for L=3; view built by '
        'view_capture_stream or view_l0_capture_stream; compared: prefixes with the documented order, the value '
        'with the first namespace of that order that defines it, `in`.  sensor cases = the same with a mutable key '
        'read through TelstateDataSource(...).metadata.sensors (every subset for L<=1, samples beyond).  order cases '
        '= odd names (trailing separator, capture block == stream, dotted) + _shorten_key on keys built from every '
        'prefix and on unrelated keys; cyclic inherit chains are only given to the model (the implementation loops '
        'forever).  url cases = RDB files written with RDBWriter for every combination of recorded defaults '
        '(capture_block_id present/absent, stream_name absent / vis stream / flags stream), opened through '
        'TelstateDataSource.from_url with URL query x keyword grid (absent / None / empty / each known capture block '
        'and stream incl. non-vis and untyped streams, inherit chain on one stream); compared: chosen capture block, '
        'stream, prefixes or refusal.  flags cases = L0 stream in an NPY chunk store plus 0-2 other archived streams '
        'with type sdp.flags/sdp.vis/sdp.cal/none, src_streams naming the opened stream or not (or missing), dump '
        'counts T-2..T+2, matching or mismatching channel/baseline counts, random time chunking, upgrade_flags '
        'on/off, sdp_archived_streams present/absent (plus _upgrade_chunk_info / _align_chunk_info called directly on random chunk infos): compared chunk info (prefix, shape, chunks) with the model, and '
        'timestamps / vis / flags / weights with the stored arrays padded by lost data (flags.DATA_LOST) to the '
        'longest array.  notfound cases = missing file, directory, missing extension, garbage bytes, truncated RDB, '
        'unknown scheme through open_data_source.  non-trivial = key defined in >=1 namespace / >=1 override / >=1 '
        'extra archived stream; distinct = hash of the model request line.')
TRUSTED = ['Lean 4.33 kernel', 'axioms: propext, Classical.choice, Quot.sound only',
           'hand-written model KatdalModel/Model/Telstate.lean tied to /repo by this differential run',
           'katsdptelstate views are prefix tuples searched first to last (checked against the real library on every case)',
           'NpyFileChunkStore reports absent chunk files as missing chunks (C08)']
CHECKER = 'lake build KatdalModel.Props.C18 kd_c18 && lake env lean <#print axioms audit>'

logging.getLogger('katdal').setLevel(logging.ERROR)
FUEL = 12
NAMES = ['l0', 'sdp_l0', 'wide', 'narrow1', 'base', 'sdp', 'i0', 'x.y', 'b-c', 'cal']
CBS = ['cb', '1556574656', 'c1', '1234567890_2']
ODD = ['a_', 'sdp_l0_', 'cb', 'l0', 'sdp_l0', 'sdp', 'x_', 'a', 'a_b', '15']


# ---------------------------------------------------------------- encoding

def ek(s):
    return '^' if s == '' else s


def enc_keys(l):
    return '-' if not l else ','.join(ek(x) for x in l)


def enc_ci(ci):
    out = []
    for name, info in ci.items():
        sh = 'x'.join(str(int(x)) for x in info['shape'])
        ch = '/'.join('.'.join(str(int(c)) for c in dim) for dim in info['chunks'])
        out.append(f"{name}@{info['prefix']}@{sh}@{ch}")
    return '+'.join(out)


def enc_val(v):
    t = v[0]
    if t == 'S':
        return 'S:' + ek(v[1])
    if t == 'L':
        return 'L:' + ','.join(ek(x) for x in v[1])
    if t == 'N':
        return f'N:{v[1]}'
    return 'C:' + enc_ci(v[1])


def enc_store(entries):
    if not entries:
        return '-'
    return '|'.join(f'{k}~{enc_val(v)}' for k, v in entries.items())


def spec_order(cb, streams, base=('',)):
    def sep(n):
        return n + '_' if (n != '' and not n.endswith('_')) else n
    return [sep(cb + '_' + s) for s in streams] + [sep(cb)] + [sep(s) for s in streams] + list(base)


def spec_get(entries, prefixes, key):
    for p in prefixes:
        if p + key in entries:
            return entries[p + key]
    return None


# ---------------------------------------------------------------- place / sensor cases

def chain_entries(streams):
    e = {}
    for a, b in zip(streams[:-1], streams[1:]):
        e[a + '_inherit'] = ('S', b)
    return e


def gen_names(rng, L, pool=NAMES):
    streams = rng.sample(pool, L + 1)
    cb = rng.choice(CBS)
    return cb, streams


def prefix_free(order):
    """no namespace prefix is a proper string prefix of a later one (except the root): otherwise a full key
    belongs to two namespaces under different short names and "the sensor's namespace" is ambiguous"""
    for i, a in enumerate(order):
        for b in order[i + 1:]:
            if a != '' and b != a and b.startswith(a):
                return False
    return True


def place_case(rng, L, mask, kind):
    cb, streams = gen_names(rng, L)
    while kind == 'sensor' and not prefix_free(spec_order(cb, streams)):
        cb, streams = gen_names(rng, L)
    return dict(kind=kind, cb=cb, streams=streams, mask=[bool(b) for b in mask], wrap=rng.random() < 0.5)


def build_telstate(entries, mutable=()):
    import katsdptelstate
    ts = katsdptelstate.TelescopeState()
    for k, v in entries.items():
        val = v[1]
        if v[0] == 'L':
            val = list(val)
        if k in mutable:
            ts.add(k, float(val), ts=1000.0 + val)
        else:
            ts[k] = val
    return ts


def run_place(ctx, case):
    from katdal.datasources import TelstateDataSource, view_capture_stream, view_l0_capture_stream
    cb, streams = case['cb'], case['streams']
    order = spec_order(cb, streams)
    entries = chain_entries(streams)
    entries[streams[0] + '_stream_type'] = ('S', 'sdp.vis')
    probes = {}
    for i, b in enumerate(case['mask']):
        if b:
            probes[order[i] + 'probe'] = ('N', i)
    clash = set(probes) & set(entries)
    entries.update(probes)
    sensor = case['kind'] == 'sensor'
    ts = build_telstate(entries, mutable=set(probes) if sensor else ())
    lines = [f"vcs {FUEL} {enc_store(entries)} ^ {cb} {streams[0]}", f"order {cb} {enc_keys(streams)} ^"]
    if sensor:
        lines.append(f"sensor {enc_store(entries)} {enc_keys(order)} {enc_keys(sorted(probes))} probe")
    else:
        lines.append(f"get {enc_store(entries)} {enc_keys(order)} probe")
    want = spec_get(entries, order, 'probe')
    want = None if want is None else want[1]
    res = dict(lines=lines, err=None)
    try:
        if case['wrap']:
            view, cb2, sn2 = view_l0_capture_stream(ts, cb, streams[0])
        else:
            view = view_capture_stream(ts, cb, streams[0])
        res['prefixes'] = list(view.prefixes)
        if sensor:
            src = TelstateDataSource(view, cb, streams[0], chunk_store=None, timestamps=np.arange(3.0))
            sens = src.metadata.sensors
            res['names'] = sorted(sens)
            if 'probe' in sens:
                sd = sens['probe'].get()
                res['value'] = int(sd.value[0])
                res['key'] = sens['probe'].name
            else:
                res['value'] = None
        else:
            got = view.get('probe')
            res['value'] = None if got is None else int(got)
            res['contains'] = 'probe' in view
            res['viasrc'] = None
            if case['wrap']:
                src = TelstateDataSource(view, cb, streams[0], chunk_store=None, timestamps=np.arange(3.0))
                try:
                    res['viasrc'] = int(src.telstate['probe'])
                except KeyError:
                    res['viasrc'] = None
    except Exception as e:   # noqa: BLE001
        res['err'] = f'{type(e).__name__}: {e}'
    res.update(order=order, want=want, clash=bool(clash), n_placed=len(probes))
    return res


def judge_place(ctx, case, res, replies):
    sensor = case['kind'] == 'sensor'
    ctx.tag(f"{case['kind']}-L{len(case['streams']) - 1}", 'wrap' if case['wrap'] else 'direct')
    if res['err']:
        return f"raised {res['err']}"
    if res['prefixes'] != res['order']:
        return f"prefixes {res['prefixes']} != documented order {res['order']}"
    m_pre = replies[0].split(',')
    m_pre = ['' if x == '^' else x for x in m_pre]
    if m_pre != res['prefixes'] or replies[1] != replies[0]:
        ctx.advise(f'mirror model prefix order differs: {replies[0]} vs {res["prefixes"]}')
    m_val = None if replies[2] == 'NONE' else int(replies[2][2:])
    what = 'sensor' if sensor else 'key'
    if res['value'] != res['want']:
        src = 'none' if res['value'] is None else res['order'][res['value']] + '*'
        exp = 'none' if res['want'] is None else res['order'][res['want']] + '*'
        placed = [res['order'][i] for i, b in enumerate(case['mask']) if b]
        return (f"{what} defined in namespaces {placed} was taken from {src!r} instead of the most specific {exp!r}"
                + (f" (sensor dict maps it to key {res.get('key')!r})" if sensor else ''))
    if not sensor:
        if res['contains'] != (res['want'] is not None):
            return f"`in` says {res['contains']} for a key with value {res['want']}"
        if case['wrap'] and res['viasrc'] != res['want']:
            return f"TelstateDataSource.telstate[key] gives {res['viasrc']} != {res['want']}"
    else:
        if (res['want'] is not None) != ('probe' in res['names']):
            return f"sensor names {res['names']} vs defined={res['want'] is not None}"
    if m_val != res['value']:
        ctx.advise(f'mirror model {what} value {m_val} != implementation {res["value"]} on {res["lines"][2][:200]}')
    return None


# ---------------------------------------------------------------- order / shorten cases

def gen_order_case(rng):
    L = rng.choice([0, 1, 1, 2, 3])
    r = rng.random()
    if r < 0.12:
        # cyclic chain: model only
        streams = rng.sample(NAMES, rng.randint(1, 3))
        return dict(kind='order', cb=rng.choice(CBS), streams=streams, cycle=True, keys=[])
    pool = ODD if r < 0.6 else NAMES + ODD
    streams = rng.sample(pool, L + 1)
    cb = rng.choice(CBS + ODD)
    order = spec_order(cb, streams)
    keys = []
    for _ in range(6):
        rr = rng.random()
        suffix = rng.choice(['x', 'obs_params', 'a_b', '', 'l0_x', 'inherit'])
        if rr < 0.6:
            keys.append(rng.choice(order) + suffix)
        elif rr < 0.8:
            keys.append(rng.choice(['zz_', 'other_', 'q']) + suffix)
        else:
            keys.append(rng.choice(order)[:-1] if rng.random() < 0.5 else rng.choice(order))
    keys = [k_ for k_ in keys if k_ != '']
    return dict(kind='order', cb=cb, streams=streams, cycle=False, keys=keys)


def run_order(ctx, case):
    from katdal.datasources import _shorten_key, view_capture_stream
    from katdal.sensordata import TelstateToStr
    cb, streams = case['cb'], case['streams']
    entries = chain_entries(streams)
    if case['cycle']:
        entries[streams[-1] + '_inherit'] = ('S', streams[0])
        lines = [f"vcs {FUEL} {enc_store(entries)} ^ {cb} {streams[0]}"]
        return dict(lines=lines, cycle=True)
    # names that normalise to the same namespace (`a` and `a_`) make the chain ambiguous: recompute it
    # the way the documentation describes (follow <stream>_inherit through exclusive views)
    def sep(n):
        return n + '_' if (n != '' and not n.endswith('_')) else n
    chain, seen = [streams[0]], 0
    while seen < 20:
        nxt = entries.get(sep(chain[-1]) + 'inherit')
        if nxt is None:
            break
        chain.append(nxt[1])
        seen += 1
    if seen >= 20:
        lines = [f"vcs {FUEL} {enc_store(entries)} ^ {cb} {streams[0]}"]
        return dict(lines=lines, cycle=True)
    order = spec_order(cb, chain)
    ts = build_telstate(entries)
    lines = [f"vcs {FUEL} {enc_store(entries)} ^ {cb} {streams[0]}", f"order {cb} {enc_keys(chain)} ^"]
    lines += [f"shorten {enc_keys(order)} {ek(k_)}" for k_ in case['keys']]
    res = dict(lines=lines, cycle=False, err=None, order=order)
    try:
        view = view_capture_stream(TelstateToStr(ts), cb, streams[0])
        res['prefixes'] = list(view.prefixes)
        res['short'] = [_shorten_key(view, k_) for k_ in case['keys']]
    except Exception as e:   # noqa: BLE001
        res['err'] = f'{type(e).__name__}: {e}'
    return res


def judge_order(ctx, case, res, replies):
    if res['cycle']:
        ctx.tag('order-cycle-model-only')
        if replies[0] != 'DIVERGE':
            raise common.Broken(f'model does not diverge on a cyclic inherit chain: {res["lines"][0]}')
        return None
    ctx.tag(f"order-L{len(case['streams']) - 1}")
    if res['err']:
        return f"raised {res['err']}"
    if res['prefixes'] != res['order']:
        return f"prefixes {res['prefixes']} != documented order {res['order']}"
    if replies[0] != replies[1] or ['' if x == '^' else x for x in replies[0].split(',')] != res['prefixes']:
        ctx.advise(f'mirror model prefix order differs: {replies[0]} / {replies[1]} vs {res["prefixes"]}')
    for k_, got, mrep in zip(case['keys'], res['short'], replies[2:]):
        want = ''
        for p in res['order']:
            if k_.startswith(p):
                want = k_[len(p):]
                break
        if got != want:
            return f"_shorten_key({k_!r}) = {got!r}, expected {want!r} (first fitting prefix of {res['order']})"
        if ('' if mrep == '^' else mrep) != got:
            ctx.advise(f'mirror model shorten({k_}) = {mrep} != {got}')
    return None


# ---------------------------------------------------------------- url cases

URL_CBS = ['cba', 'cbb']
URL_STREAMS = {'l0': 'sdp.vis', 'l0b': 'sdp.vis', 'fl': 'sdp.flags', 'cal': None}


def url_entries(default_cb, default_stream):
    e = {}
    for s, t in URL_STREAMS.items():
        if t is not None:
            e[s + '_stream_type'] = ('S', t)
    e['l0b_inherit'] = ('S', 'l0')
    # the type of a stream is a key like any other: it may come through the inherit chain (l0c has none of its own)
    # or from the capture block + stream namespace, which outranks the plain stream namespace (l0d, fx)
    e['l0c_inherit'] = ('S', 'l0')
    e['l0d_stream_type'] = ('S', 'sdp.vis')
    e['cbb_l0d_stream_type'] = ('S', 'sdp.flags')
    e['fx_stream_type'] = ('S', 'sdp.flags')
    e['cba_fx_stream_type'] = ('S', 'sdp.vis')
    if default_cb:
        e['capture_block_id'] = ('S', default_cb)
    if default_stream:
        e['stream_name'] = ('S', default_stream)
    return e


def make_url_files(tmpdir):
    """one RDB file per combination of recorded defaults"""
    from katsdptelstate.rdb_writer import RDBWriter
    files = {}
    for dcb in (None, 'cba'):
        for ds in (None, 'l0', 'fl'):
            entries = url_entries(dcb, ds)
            ts = build_telstate(entries)
            # what TelstateDataSource needs to synthesise timestamps without a chunk store
            ts['chunk_info'] = {'correlator_data': {'prefix': 'x', 'chunks': ((1, 1), (2,), (4,)), 'dtype': '<c8',
                                                    'shape': (2, 2, 4)}}
            ts['sync_time'] = 1000.0
            ts['first_timestamp'] = 1.0
            ts['int_time'] = 2.0
            path = os.path.join(tmpdir, f'f_{dcb}_{ds}.rdb')
            with RDBWriter(path) as w:
                w.save(ts)
            files[(dcb, ds)] = path
            # the same file as an older writer would have produced it: the recorded defaults, the stream types and
            # the inherit links are byte strings
            tsb = build_telstate(entries)
            for k_ in list(entries):
                if entries[k_][0] == 'S':
                    tsb.delete(k_)
                    tsb[k_] = entries[k_][1].encode()
            for k_ in ('chunk_info', 'sync_time', 'first_timestamp', 'int_time'):
                tsb[k_] = ts[k_]
            pathb = os.path.join(tmpdir, f'fb_{dcb}_{ds}.rdb')
            with RDBWriter(pathb) as w:
                w.save(tsb)
            files[(dcb, ds, 'bytes')] = pathb
    return files


def gen_url_case(rng):
    def pick(opts):
        return rng.choice(opts)
    return dict(kind='url', dcb=pick([None, 'cba', 'cba']), ds=pick([None, 'l0', 'l0', 'fl']),
                qcb=pick([None, None, 'cba', 'cbb']), kcb=pick(['-', '-', None, '', 'cba', 'cbb']),
                qs=pick([None, None, 'l0', 'l0b', 'fl', 'cal', 'l0c', 'l0d', 'fx']),
                ks=pick(['-', '-', '-', None, '', 'l0', 'l0b', 'fl', 'l0c', 'l0d', 'fx']),
                dup=rng.random() < 0.15, style=pick(['path', 'file']), bytes=rng.random() < 0.25)


def run_url(ctx, case, files):
    from katdal.datasources import TelstateDataSource
    path = files[(case['dcb'], case['ds'], 'bytes')] if case.get('bytes') else files[(case['dcb'], case['ds'])]
    q = []
    if case['qcb'] is not None:
        q.append(('capture_block_id', case['qcb']))
    if case['qs'] is not None:
        if case['dup']:
            q.append(('stream_name', 'fl'))     # duplicates in the query: the last one wins (dict semantics)
        q.append(('stream_name', case['qs']))
    kw = {}
    if case['kcb'] != '-':
        kw['capture_block_id'] = case['kcb']
    if case['ks'] != '-':
        kw['stream_name'] = case['ks']
    query = urllib.parse.urlencode(q)
    if case['style'] == 'file':
        url = urllib.parse.urlunparse(('file', '', path, '', query, ''))
    else:
        url = path + ('?' + query if query else '')
    entries = url_entries(case['dcb'], case['ds'])
    qline = '&'.join(f'{a}={b}' for a, b in q) or '-'
    kline = '&'.join(f"{a}={'~' if b is None else ek(b)}" for a, b in kw.items()) or '-'
    lines = [f"l0 {FUEL} {enc_store(entries)} {qline} {kline}"]
    res = dict(lines=lines, err=None, url=url, kw=kw)
    try:
        src = TelstateDataSource.from_url(url, chunk_store=None, **kw)
        res['cb'], res['sn'], res['prefixes'] = src.capture_block_id, src.stream_name, list(src.telstate.prefixes)
        res['name'] = src.name
    except Exception as e:   # noqa: BLE001
        res['err'] = type(e).__name__
        res['msg'] = str(e)[:100]
    # independent spec of the choice
    eff_cb = case['kcb'] if case['kcb'] != '-' else case['qcb']
    eff_s = case['ks'] if case['ks'] != '-' else case['qs']
    cb = eff_cb or case['dcb']
    sn = eff_s or case['ds']
    if not cb or not sn:
        res['want'] = ('E', 'no capture block / stream given or recorded')
    else:
        streams = [sn, 'l0'] if sn in ('l0b', 'l0c') else [sn]
        # the stream type by the documented order of namespaces
        keys = [f'{cb}_{x}' for x in streams] + [cb] + streams + ['']
        typ = None
        for k_ in keys:
            v = entries.get((k_ + '_' if k_ else '') + 'stream_type')
            if v is not None:
                typ = v[1]
                break
        if typ != 'sdp.vis':
            res['want'] = ('E', f'stream {sn} of capture block {cb} has type {typ}, not sdp.vis')
        else:
            res['want'] = (cb, sn, spec_order(cb, streams))
    return res


def judge_url(ctx, case, res, replies):
    want = res['want']
    ctx.tag('url-refused' if want[0] == 'E' else 'url-ok',
            'url-kw-over-query' if (case['kcb'] != '-' and case['qcb'] is not None) or
            (case['ks'] != '-' and case['qs'] is not None) else 'url-plain')
    m = replies[0]
    if want[0] == 'E':
        if res['err'] is None:
            return f"from_url({res['url']!r}, **{res['kw']}) opened {res['cb']}/{res['sn']} although {want[1]}"
        if not m.startswith('E:'):
            ctx.advise(f'mirror model accepts {res["lines"][0][:200]}')
        return None
    if res['err'] is not None:
        return f"from_url({res['url']!r}, **{res['kw']}) raised {res['err']}: {res.get('msg')}; expected {want[0]}/{want[1]}"
    if (res['cb'], res['sn']) != (want[0], want[1]):
        return (f"from_url({res['url']!r}, **{res['kw']}) chose {res['cb']}/{res['sn']}, expected {want[0]}/{want[1]} "
                f"(keyword over query over recorded default)")
    if res['prefixes'] != want[2]:
        return f"prefixes {res['prefixes']} != {want[2]}"
    if res['name'] != f'{want[0]}_{want[1]}':
        return f"source name {res['name']}"
    mm = f"{enc_keys(want[2])} {want[0]} {want[1]}"
    if m != mm:
        ctx.advise(f'mirror model says {m} where implementation and spec say {mm}')
    return None


# ---------------------------------------------------------------- flags upgrade cases

def rand_chunks(rng, n, maxc=3):
    if n == 0:
        return (0,)
    k_ = rng.randint(1, min(maxc, n))
    cuts = sorted(rng.sample(range(1, n), k_ - 1)) if k_ > 1 else []
    edges = [0] + cuts + [n]
    return tuple(b - a for a, b in zip(edges[:-1], edges[1:]))


def gen_flags_case(rng):
    T = rng.randint(2, 6)
    F = rng.choice([2, 4])
    B = 4
    extra = []
    n_extra = rng.choice([0, 1, 1, 1, 2, 2])
    names = rng.sample(['l1_flags', 'l1b', 'cont', 'fx'], n_extra)
    for nm in names:
        r = rng.random()
        typ = 'sdp.flags' if r < 0.7 else rng.choice(['sdp.vis', 'sdp.cal', None])
        r = rng.random()
        # a source whose name merely contains the opened stream's name (l0_continuum for l0) is another stream
        src = ['l0'] if r < 0.5 else rng.choice([['other'], ['other', 'l0'], None, [], ['l0_continuum'], ['xl0', 'other'],
                                                 ['l0_continuum']])
        r = rng.random()
        if r < 0.72:
            f2, b2 = F, B
        elif r < 0.86:
            f2, b2 = F // 2, B
        else:
            f2, b2 = F, B - 2
        t2 = max(1, T + rng.choice([0, 0, -2, -1, 1, 2]))
        extra.append(dict(name=nm, type=typ, src=src, T=t2, F=f2, B=b2, seed=rng.randrange(2 ** 30),
                          tchunks=list(rand_chunks(rng, t2)), own_ci=rng.random() < 0.93))
    archived = ['l0'] + names
    rng.shuffle(archived)
    if rng.random() < 0.1:
        archived = [a for a in archived if a != 'l0']
    # older layout: chunk_info without 'prefix' items, the prefix is the stream's own <cbid>_<stream>_chunk_name key
    legacy = [nm for nm in ['l0'] + names if rng.random() < 0.3]
    return dict(kind='flags', T=T, F=F, B=B, seed=rng.randrange(2 ** 30), extra=extra, legacy=legacy,
                archived=archived if rng.random() < 0.9 else None, upgrade=rng.random() < 0.8,
                l0_src=rng.choice([None, ['i0_bcp']]),
                tchunks={k_: list(rand_chunks(rng, T)) for k_ in ('correlator_data', 'flags', 'weights', 'weights_channel')})


def run_flags(ctx, case, tmpdir):
    import dask
    import dask.array as da
    import katsdptelstate
    from katdal.chunkstore_npy import NpyFileChunkStore
    from katdal.datasources import TelstateDataSource, view_l0_capture_stream
    d = tempfile.mkdtemp(dir=tmpdir)
    store = NpyFileChunkStore(d)
    ts = katsdptelstate.TelescopeState()
    cb = 'cb'
    entries = {}
    stored = {}

    def put(stream, arrays, chunks):
        pre = f'{cb}-{stream}'.replace('_', '-')
        ci = {}
        push = []
        for k_, a in arrays.items():
            darr = da.from_array(a, chunks=chunks[k_])
            name = store.join(pre, k_)
            store.create_array(name)
            ci[k_] = {'prefix': pre, 'chunks': darr.chunks, 'dtype': np.lib.format.dtype_to_descr(darr.dtype),
                      'shape': darr.shape}
            push.append(store.put_dask_array(name, darr))
        with dask.config.set(scheduler='synchronous'):
            da.compute(*push)
        return ci
    T, F, B = case['T'], case['F'], case['B']
    rs = np.random.RandomState(case['seed'])
    code = np.arange(T * F * B).reshape(T, F, B)
    l0 = {'correlator_data': (code + 1 + 0.5j * code).astype(np.complex64),
          'flags': (rs.randint(0, 256, (T, F, B)) & 0x77).astype(np.uint8),
          'weights': rs.randint(1, 256, (T, F, B)).astype(np.uint8),
          'weights_channel': rs.choice([0.5, 1.0, 2.0], size=(T, F)).astype(np.float32)}
    chunks = {k_: (tuple(case['tchunks'][k_]),) + tuple((n,) for n in a.shape[1:]) for k_, a in l0.items()}
    def to_telstate(stream, ci):
        """what is written to telstate: the current layout, or the older one without prefix items"""
        if stream not in case.get('legacy', []):
            return ci
        ts.view(f'{cb}_{stream}')['chunk_name'] = next(iter(ci.values()))['prefix']
        return {k_: {kk: vv for kk, vv in info.items() if kk != 'prefix'} for k_, info in ci.items()}
    ci0 = put('l0', l0, chunks)
    stored['l0'] = l0
    ts.view(f'{cb}_l0')['chunk_info'] = to_telstate('l0', ci0)
    entries[f'{cb}_l0_chunk_info'] = ('C', ci0)
    v = ts.view('l0')
    v['stream_type'] = 'sdp.vis'
    entries['l0_stream_type'] = ('S', 'sdp.vis')
    v['sync_time'] = 1000.0
    v['int_time'] = 2.0
    v['bls_ordering'] = np.array([('m000h', 'm000h'), ('m000v', 'm000v'), ('m000h', 'm000v'), ('m000v', 'm000h')][:B])
    v['need_weights_power_scale'] = False
    ts.view(f'{cb}_l0')['first_timestamp'] = 3.0
    if case['l0_src'] is not None:
        v['src_streams'] = list(case['l0_src'])
        entries['l0_src_streams'] = ('L', list(case['l0_src']))
    for ex in case['extra']:
        rs2 = np.random.RandomState(ex['seed'])
        arr = {'flags': (rs2.randint(0, 256, (ex['T'], ex['F'], ex['B'])) & 0x77).astype(np.uint8)}
        ci = put(ex['name'], arr, {'flags': (tuple(ex['tchunks']), (ex['F'],), (ex['B'],))})
        stored[ex['name']] = arr
        sv = ts.view(ex['name'])
        if ex['own_ci']:
            ts.view(f"{cb}_{ex['name']}")['chunk_info'] = to_telstate(ex['name'], ci)
            entries[f"{cb}_{ex['name']}_chunk_info"] = ('C', ci)
        if ex['type'] is not None:
            sv['stream_type'] = ex['type']
            entries[f"{ex['name']}_stream_type"] = ('S', ex['type'])
        if ex['src'] is not None:
            sv['src_streams'] = list(ex['src'])
            entries[f"{ex['name']}_src_streams"] = ('L', list(ex['src']))
    if case['archived'] is not None:
        ts['sdp_archived_streams'] = list(case['archived'])
        entries['sdp_archived_streams'] = ('L', list(case['archived']))
    order = spec_order(cb, ['l0'])
    lines = [f"chunkinfo {FUEL} {enc_store(entries)} {enc_keys(order)} {cb} l0 {1 if case['upgrade'] else 0}"]
    for ex in case['extra']:
        lines.append(f"qual {FUEL} {enc_store(entries)} {enc_keys(order)} {cb} l0 {ex['name']}")
    res = dict(lines=lines, err=None, stored=stored)
    try:
        view, cb2, sn = view_l0_capture_stream(ts, cb, 'l0')
        src = TelstateDataSource(view, cb2, sn, chunk_store=store, upgrade_flags=case['upgrade'])
        res['ci'] = {k_: {'prefix': i['prefix'], 'shape': tuple(i['shape']), 'chunks': i['chunks']}
                     for k_, i in src.data.chunk_info.items()}
        res['timestamps'] = np.asarray(src.timestamps)
        with dask.config.set(scheduler='synchronous'):
            res['vis'] = src.data.vis.compute()
            res['flags'] = src.data.flags.compute()
            res['weights'] = src.data.weights.compute()
    except Exception as e:   # noqa: BLE001
        res['err'] = type(e).__name__
        res['msg'] = str(e)[:120]
    # the same data set opened without a chunk store (metadata only) must span the same dumps and refuse the
    # same incompatible flag streams
    try:
        view, cb2, sn = view_l0_capture_stream(ts, cb, 'l0')
        meta = TelstateDataSource(view, cb2, sn, chunk_store=None, upgrade_flags=case['upgrade'])
        res['meta_T'] = len(meta.timestamps)
        res['meta_err'] = None
    except Exception as e:   # noqa: BLE001
        res['meta_T'] = None
        res['meta_err'] = type(e).__name__
    return res


def judge_flags(ctx, case, res, replies):
    from katdal.flags import DATA_LOST
    T, F, B = case['T'], case['F'], case['B']
    m = replies[0]
    # spec: which archived streams qualify, independently of the model
    arch = case['archived'] or []
    by_name = {ex['name']: ex for ex in case['extra']}
    qual = []
    for nm in arch:
        ex = by_name.get(nm)
        if ex is None:
            continue
        src = ex['src'] if ex['src'] is not None else (case['l0_src'] or None)
        typ = ex['type'] if ex['type'] is not None else 'sdp.vis'     # falls through to the L0 stream type
        if typ == 'sdp.flags' and src is None:
            qual.append((nm, 'nosrc'))
        elif typ == 'sdp.flags' and 'l0' in src:
            qual.append((nm, 'ok'))
    if not case['upgrade']:
        qual = []
    for ex, rep in zip(case['extra'], replies[1:]):
        s_q = any(n == ex['name'] and how == 'ok' for n, how in qual) or \
            (not case['upgrade'] and case['archived'] is not None and False)
        if case['upgrade'] and ex['name'] in arch and (rep == '1') != s_q:
            ctx.advise(f"model qualifies({ex['name']})={rep} but the harness spec says {s_q}")
    if case.get('legacy'):
        ctx.tag('flags-legacy-layout-' + ('l0' if case['legacy'] == ['l0'] else 'extra' if 'l0' not in case['legacy'] else 'both'))
    ctx.tag(f'flags-extra-{len(case["extra"])}', 'flags-upgrade-on' if case['upgrade'] else 'flags-upgrade-off',
            f'flags-qualifying-{len(qual)}', 'flags-archived-absent' if case['archived'] is None else 'flags-archived')
    if any(how == 'nosrc' for _, how in qual):
        # an sdp.flags stream without any src_streams: KeyError in the code; the property is silent
        ctx.tag('flags-nosrc')
        if res['err'] is None and m.startswith('E:'):
            ctx.advise('model errors on missing src_streams but the implementation does not')
        return None
    # expected outcome
    mismatch = False
    chosen = 'l0'
    for nm, _ in qual:
        ex = by_name[nm]
        if not ex['own_ci']:
            # no chunk_info of its own for this capture block: the lookup falls through to the L0 stream's
            # (property silent; the code re-installs the L0 arrays) - follow the mirror model
            ctx.tag('flags-no-own-chunk-info')
            chosen = 'l0'
            continue
        if (ex['F'], ex['B']) != (F, B):
            mismatch = True
            break
        chosen = nm
    if mismatch:
        ctx.tag('flags-shape-mismatch')
        if res['err'] is None:
            return f"flags stream with incompatible channel/baseline shape was accepted (qualifying: {qual})"
        if res.get('meta_err') is None and 'meta_T' in res:
            return (f"flags stream with incompatible channel/baseline shape was accepted when the data set is opened "
                    f"without a chunk store (qualifying: {qual})")
        if not m.startswith('E:'):
            ctx.advise('mirror model accepts a shape mismatch')
        return None
    if res['err'] is not None:
        return f"TelstateDataSource raised {res['err']}: {res.get('msg')} (qualifying flag streams: {qual})"
    ctx.tag('flags-from-' + ('l0' if chosen == 'l0' else 'upgrade'))
    fl_src = res['stored'][chosen]['flags']
    Tf = fl_src.shape[0]
    Tall = max(T, Tf)
    if 'meta_T' in res and res.get('meta_err') is None and res['meta_T'] != Tall:
        return (f"opened without a chunk store the data set spans {res['meta_T']} dumps, with data it spans {Tall} "
                f"(L0 has {T}, the flags stream {Tf})")
    ctx.tag('flags-dumps-' + ('equal' if Tf == T else 'flags-longer' if Tf > T else 'flags-shorter'))
    exp_flags = np.zeros((Tall, F, B), np.uint8)
    exp_flags[:Tf] = fl_src
    exp_flags[Tf:] = DATA_LOST
    exp_flags[T:] |= DATA_LOST
    exp_vis = np.zeros((Tall, F, B), np.complex64)
    exp_vis[:T] = res['stored']['l0']['correlator_data']
    exp_w = np.zeros((Tall, F, B), np.float32)
    exp_w[:T] = res['stored']['l0']['weights'] * res['stored']['l0']['weights_channel'][..., None]
    exp_ts = 1003.0 + 2.0 * np.arange(Tall)
    if len(res['timestamps']) != Tall or not np.array_equal(res['timestamps'], exp_ts):
        return f"data set has {len(res['timestamps'])} dumps, the longer of L0 ({T}) and flags ({Tf}) is {Tall}"
    if res['flags'].shape != exp_flags.shape or not np.array_equal(res['flags'], exp_flags):
        bad = 'shape' if res['flags'].shape != exp_flags.shape else \
            f"first differing dump {int(np.argwhere(res['flags'] != exp_flags)[0][0])}"
        return (f"flags are not those of stream {chosen!r} padded with DATA_LOST ({bad}); "
                f"got dump-0 row {res['flags'][0, 0].tolist()} want {exp_flags[0, 0].tolist()}")
    if not np.array_equal(res['vis'], exp_vis):
        return 'visibilities are not the L0 visibilities padded with zeros for the absent dumps'
    if not np.array_equal(res['weights'], exp_w):
        return 'weights are not the L0 weights padded with zeros for the absent dumps'
    want_ci = enc_ci(res['ci'])
    if m != want_ci:
        ctx.advise(f'mirror model chunk info {m[:200]} != implementation {want_ci[:200]}')
    return None


# ---------------------------------------------------------------- _upgrade_chunk_info / _align_chunk_info directly

ARRS = ['correlator_data', 'flags', 'weights', 'weights_channel']


def gen_ci(rng, names, T=None, F=None, B=None, prefix='cb-l0'):
    ci = {}
    for nm in names:
        t = T if T is not None else rng.randint(1, 6)
        f = F if F is not None else rng.choice([2, 4])
        b = B if B is not None else rng.choice([2, 4])
        shape = (t, f) if nm == 'weights_channel' else (t, f, b)
        chunks = (rand_chunks(rng, t),) + tuple((n,) for n in shape[1:])
        ci[nm] = {'prefix': prefix, 'shape': list(shape), 'chunks': [list(c) for c in chunks]}
    return ci


def gen_ci_case(rng):
    F, B = rng.choice([2, 4]), rng.choice([2, 4])
    base = gen_ci(rng, rng.sample(ARRS, rng.randint(1, 4)), None if rng.random() < 0.7 else 3, F, B)
    r = rng.random()
    f2 = F if r < 0.7 else rng.choice([1, 2, 4])
    b2 = B if r < 0.85 else rng.choice([1, 2, 4])
    imp = gen_ci(rng, rng.sample(['flags', 'flags', 'weights', 'extra_array'], rng.randint(1, 2)), None, f2, b2, 'cb-l1')
    return dict(kind='ci', base=base, imp=imp)


def _py_ci(ci):
    return {k_: {'prefix': v['prefix'], 'shape': tuple(v['shape']), 'chunks': tuple(tuple(c) for c in v['chunks'])}
            for k_, v in ci.items()}


def run_ci(ctx, case):
    from katdal.datasources import _align_chunk_info, _upgrade_chunk_info
    lines = [f"upci {enc_ci(case['base']) or '-'} {enc_ci(case['imp']) or '-'}", f"align {enc_ci(case['base']) or '-'}"]
    res = dict(lines=lines, err=None)
    try:
        res['up'] = _upgrade_chunk_info(_py_ci(case['base']), _py_ci(case['imp']))
    except ValueError as e:
        res['up'] = ('E', str(e)[:80])
    except Exception as e:   # noqa: BLE001
        res['up'] = ('X', f'{type(e).__name__}: {e}')
    try:
        res['al'] = _align_chunk_info(_py_ci(case['base']))
    except Exception as e:   # noqa: BLE001
        res['al'] = ('X', f'{type(e).__name__}: {e}')
    return res


def judge_ci(ctx, case, res, replies):
    base, imp = case['base'], case['imp']
    mismatch = [k_ for k_, v in imp.items() if k_ in base and list(v['shape'][1:]) != list(base[k_]['shape'][1:])]
    ctx.tag('ci-mismatch' if mismatch else 'ci-compatible')
    up = res['up']
    if isinstance(up, tuple) and up[0] == 'X':
        return f'_upgrade_chunk_info raised {up[1]}'
    if mismatch:
        if not isinstance(up, tuple):
            return f"_upgrade_chunk_info accepted array(s) {mismatch} whose channel/baseline shape differs from the original"
    else:
        if isinstance(up, tuple):
            return f'_upgrade_chunk_info refused compatible arrays: {up[1]}'
        for k_ in set(base) | set(imp):
            want = imp[k_] if k_ in imp else base[k_]
            got = up.get(k_)
            if got is None or got['prefix'] != want['prefix'] or list(got['shape']) != list(want['shape']):
                return f'_upgrade_chunk_info: array {k_} is {got}, expected the {"improved" if k_ in imp else "original"} one'
        if enc_ci(up) != replies[0]:
            ctx.advise(f'mirror model upgradeChunkInfo {replies[0][:150]} != {enc_ci(up)[:150]}')
    al = res['al']
    if isinstance(al, tuple):
        return f'_align_chunk_info raised {al[1]}'
    mx = max(v['shape'][0] for v in base.values())
    for k_, v in base.items():
        got = al[k_]
        if got['shape'][0] != mx or list(got['shape'][1:]) != list(v['shape'][1:]):
            return f'_align_chunk_info: array {k_} has shape {got["shape"]}, expected {mx} dumps and an unchanged tail'
        tc = list(got['chunks'][0])
        if sum(tc) != mx or tc[:len(v['chunks'][0])] != list(v['chunks'][0]):
            return (f'_align_chunk_info: array {k_} time chunks {tc} do not keep the original chunks '
                    f'{v["chunks"][0]} and add up to {mx}')
        if [list(c) for c in got['chunks'][1:]] != [list(c) for c in v['chunks'][1:]]:
            return f'_align_chunk_info changed the non-time chunks of {k_}'
    if enc_ci(al) != replies[1]:
        ctx.advise(f'mirror model alignChunkInfo {replies[1][:150]} != {enc_ci(al)[:150]}')
    return None


# ---------------------------------------------------------------- not found

def run_notfound(ctx, tmpdir, files):
    from katdal.datasources import DataSourceNotFound, open_data_source
    good = files[('cba', 'l0')]
    garbage = os.path.join(tmpdir, 'garbage.rdb')
    open(garbage, 'wb').write(b'this is not an rdb file' * 4)
    trunc = os.path.join(tmpdir, 'trunc.rdb')
    open(trunc, 'wb').write(open(good, 'rb').read()[:25])
    empty = os.path.join(tmpdir, 'empty.rdb')
    open(empty, 'wb').close()
    cands = [('missing file', os.path.join(tmpdir, 'nope.rdb')), ('missing dir', os.path.join(tmpdir, 'no', 'such.rdb')),
             ('directory', tmpdir), ('without extension', good[:-4]), ('garbage bytes', garbage),
             ('truncated rdb', trunc), ('empty file', empty), ('unknown scheme', 'ftp://host/x.rdb'),
             ('file url missing', 'file://' + os.path.join(tmpdir, 'nope2.rdb')),
             ('missing with query', os.path.join(tmpdir, 'nope3.rdb') + '?stream_name=l0')]
    # a telstate server that refuses the connection (a loopback port that is bound but not listening)
    import socket
    sock = socket.socket()
    sock.bind(('127.0.0.1', 0))
    cands.append(('redis server refusing the connection', f'redis://127.0.0.1:{sock.getsockname()[1]}'))
    cands.append(('redis server refusing, with query', f'redis://127.0.0.1:{sock.getsockname()[1]}/?capture_block_id=cba&db=1'))
    bad = []
    for what, url in cands:
        ctx.tag('notfound')
        ctx.count(('notfound', what), True, sample={'request': f'open_data_source({what})'})
        try:
            open_data_source(url, chunk_store=None)
            v = f'open_data_source on {what} ({url}) succeeded'
        except DataSourceNotFound:
            v = None
        except Exception as e:   # noqa: BLE001
            v = f'open_data_source on {what} raised {type(e).__name__} ({e}) instead of DataSourceNotFound'
        if v:
            bad.append((dict(kind='notfound', what=what), v))
    sock.close()
    # and the readable one opens
    try:
        src = open_data_source(good, chunk_store=None)
        if (src.capture_block_id, src.stream_name) != ('cba', 'l0'):
            bad.append((dict(kind='notfound', what='good'), 'readable file opened with wrong defaults'))
    except Exception as e:   # noqa: BLE001
        bad.append((dict(kind='notfound', what='good'), f'readable file not opened: {type(e).__name__} {e}'))
    return bad


# ---------------------------------------------------------------- driver

def evaluate(ctx, cases, tmpdir, files):
    """Two passes: run the implementation (collecting model request lines), then one model batch, then judge."""
    runs = []
    for c in cases:
        k_ = c['kind']
        if k_ in ('place', 'sensor'):
            r = run_place(ctx, c)
        elif k_ == 'order':
            r = run_order(ctx, c)
        elif k_ == 'url':
            r = run_url(ctx, c, files)
        elif k_ == 'flags':
            r = run_flags(ctx, c, tmpdir)
        elif k_ == 'ci':
            r = run_ci(ctx, c)
        else:
            r = dict(lines=[])
        runs.append(r)
    lines = [ln for r in runs for ln in r['lines']]
    replies = common.run_model('C18', lines)
    if 'bad-op' in replies:
        raise common.Broken(f'model driver rejected {lines[replies.index("bad-op")][:300]}')
    pos = 0
    bad = []
    for c, r in zip(cases, runs):
        n = len(r['lines'])
        rep = replies[pos:pos + n]
        pos += n
        k_ = c['kind']
        if k_ in ('place', 'sensor'):
            v = judge_place(ctx, c, r, rep)
            nontriv = any(c['mask'])
        elif k_ == 'order':
            v = judge_order(ctx, c, r, rep)
            nontriv = True
        elif k_ == 'url':
            v = judge_url(ctx, c, r, rep)
            nontriv = any(c[x] not in (None, '-') for x in ('qcb', 'kcb', 'qs', 'ks'))
        elif k_ == 'flags':
            v = judge_flags(ctx, c, r, rep)
            nontriv = bool(c['extra'])
            if r['err'] is None:
                ctx.traces_validated += 1
        elif k_ == 'ci':
            v = judge_ci(ctx, c, r, rep)
            nontriv = True
        else:
            v, nontriv = None, False
        if n:
            ctx.count(r['lines'][-1], nontriv, sample={'request': r['lines'][-1][:220], 'model': rep[-1][:120]})
        if v:
            bad.append((c, v))
    return bad


def gen_cases(ctx):
    rng = ctx.rng
    cases = []
    for L in (0, 1, 2):
        n = 2 * L + 4
        for mask in itertools.product([0, 1], repeat=n):
            cases.append(place_case(rng, L, mask, 'place'))
    for _ in range(ctx.q(120, 1024 * 3)):
        cases.append(place_case(rng, 3, [rng.random() < 0.4 for _ in range(10)], 'place'))
    for L in (0, 1):
        for mask in itertools.product([0, 1], repeat=2 * L + 4):
            cases.append(place_case(rng, L, mask, 'sensor'))
    for _ in range(ctx.q(120, 3000)):
        L = rng.choice([1, 2, 2, 3])
        p = rng.choice([0.2, 0.4])
        cases.append(place_case(rng, L, [rng.random() < p for _ in range(2 * L + 4)], 'sensor'))
    cases += [gen_order_case(rng) for _ in range(ctx.q(150, 5000))]
    cases += [gen_url_case(rng) for _ in range(ctx.q(220, 6000))]
    cases += [gen_flags_case(rng) for _ in range(ctx.q(220, 4000))]
    cases += [gen_ci_case(rng) for _ in range(ctx.q(300, 10000))]
    return cases


def still_fails(ctx_proto, case, tmpdir, files):
    ctx = common.Ctx(ctx_proto.prop, ctx_proto.tier, ctx_proto.seed)
    try:
        return bool(evaluate(ctx, [case], tmpdir, files))
    except Exception:   # noqa: BLE001
        return False


def shrink(ctx, case, what, tmpdir, files):
    cur = json.loads(json.dumps(case))
    changed = True
    while changed:
        changed = False
        cands = []
        if cur['kind'] in ('place', 'sensor'):
            for i, b in enumerate(cur['mask']):
                if b:
                    m2 = list(cur['mask'])
                    m2[i] = False
                    cands.append(dict(cur, mask=m2))
        elif cur['kind'] == 'flags':
            for i in range(len(cur['extra'])):
                nm = cur['extra'][i]['name']
                cands.append(dict(cur, extra=cur['extra'][:i] + cur['extra'][i + 1:],
                                  archived=None if cur['archived'] is None else [a for a in cur['archived'] if a != nm]))
        elif cur['kind'] == 'url':
            for key, neutral in (('qcb', None), ('qs', None), ('kcb', '-'), ('ks', '-'), ('dup', False)):
                if cur[key] != neutral:
                    cands.append(dict(cur, **{key: neutral}))
        elif cur['kind'] == 'order':
            if len(cur['keys']) > 1:
                for i in range(len(cur['keys'])):
                    cands.append(dict(cur, keys=cur['keys'][:i] + cur['keys'][i + 1:]))
        for cand in cands:
            if still_fails(ctx, cand, tmpdir, files):
                cur, changed = cand, True
                break
    bad = evaluate(common.Ctx(ctx.prop, ctx.tier, ctx.seed), [cur], tmpdir, files)
    return cur, (bad[0][1] if bad else what)


# ---------------------------------------------------------------- known-finding matcher

def m_sensor_last_key(case, what):
    """a *sensor* (mutable key) defined in two or more namespaces of the view: the sensor dict of
    TelstateDataSource keeps the lexicographically last full key per short name, so the value may come from
    a less specific namespace"""
    if case.get('kind') != 'sensor' or sum(bool(b) for b in case['mask']) < 2:
        return False
    if 'sensor defined in namespaces' not in what or 'instead of the most specific' not in what:
        return False
    # predict the implementation's choice: last key in sorted order, then looked up through the view again
    order = spec_order(case['cb'], case['streams'])
    keys = {order[i] + 'probe': i for i, b in enumerate(case['mask']) if b}
    last = sorted(keys)[-1]
    got = None
    for p in order:
        if p + last in keys:
            got = keys[p + last]
            break
    want = min(keys.values())
    return got is not None and got != want and f"taken from {order[got] + '*'!r}" in what


MATCHERS = {'c18_sensor_dict_keeps_last_sorted_key': m_sensor_last_key}


def corpus_cases():
    d = os.path.join(common.VERIF, 'corpus', 'C18')
    out = []
    if os.path.isdir(d):
        for nm in sorted(os.listdir(d)):
            out.append(json.load(open(os.path.join(d, nm)))['case'])
    return out


def run(ctx):
    ctx.matchers.update(MATCHERS)
    build = common.build_and_audit('C18', ctx.tier)
    tmpdir = tempfile.mkdtemp(prefix='c18_')
    try:
        files = make_url_files(tmpdir)
        cases = corpus_cases() + gen_cases(ctx)
        bad = evaluate(ctx, cases, tmpdir, files)
        bad += run_notfound(ctx, tmpdir, files)
        if not bad and not build['build_ok']:
            more = [gen_order_case(ctx.rng) for _ in range(600)] + [gen_url_case(ctx.rng) for _ in range(800)] + \
                   [gen_flags_case(ctx.rng) for _ in range(400)]
            bad = evaluate(ctx, more, tmpdir, files)
        for c, v in bad:
            ctx.violation(c, v)
        ctx.assumptions = ['katsdptelstate views are ordered prefix tuples; get() returns the first hit',
                           'strings are restricted to [A-Za-z0-9_.-] (no effect on the code paths exercised)',
                           'cyclic inherit chains are outside the property (the implementation does not terminate)']
        return common.finish(ctx, build, RULE, CHECKER, TRUSTED,
                             shrink=lambda c, w: shrink(ctx, c, w, tmpdir, files) if c.get('kind') != 'notfound' else (c, w))
    finally:
        shutil.rmtree(tmpdir, ignore_errors=True)


def replay(ctx, rep):
    ctx.matchers.update(MATCHERS)
    build = common.build_and_audit('C18', 'quick')
    tmpdir = tempfile.mkdtemp(prefix='c18r_')
    try:
        files = make_url_files(tmpdir)
        c = rep['case']
        if c.get('kind') == 'notfound':
            bad = [b for b in run_notfound(ctx, tmpdir, files) if b[0]['what'] == c['what']]
        else:
            bad = evaluate(ctx, [c], tmpdir, files)
        for cc, v in bad:
            ctx.violation(cc, v)
        return common.finish(ctx, build, RULE, CHECKER, TRUSTED)
    finally:
        shutil.rmtree(tmpdir, ignore_errors=True)
