/-
  Float instantiation of the ApplyCal model for the correspondence drivers `kd_c13` / `kd_c14`,
  and the S-expression line protocol they share.  Mathlib-free.

  `CF` is a pair of IEEE doubles plus a *taint* bit.  The implementation works in complex64; a
  double-precision model can only be compared with it where no intermediate leaves the float32
  range, so every operation marks its result tainted when an operand or the result is infinite or
  has a magnitude outside [1e-18, 1e18] (0 excepted).  The harness compares untainted results
  numerically and exactly by class (NaN / number); tainted ones are outside what the properties
  state (overflow / underflow) and are only counted.
-/
import KatdalModel.Model.ApplyCal
open Np

namespace ApplyCal

structure CF where
  re : Float
  im : Float
  taint : Bool := false
  deriving Inhabited

namespace CF

def isNan (z : CF) : Bool := z.re.isNaN || z.im.isNaN
def isFinite (z : CF) : Bool := z.re.isFinite && z.im.isFinite
def mag (z : CF) : Float := if z.re.abs < z.im.abs then z.im.abs else z.re.abs

/-- outside the range where float32 and double arithmetic agree to rounding -/
def wild (z : CF) : Bool :=
  z.re.isInf || z.im.isInf || (!z.isNan && z.mag != 0 && (z.mag > 1e18 || z.mag < 1e-18))

def mk' (re im : Float) (t : Bool) : CF :=
  let z : CF := { re := re, im := im }
  { z with taint := t || z.wild }

def ofFloats (re im : Float) : CF := mk' re im false

def mul (a b : CF) : CF :=
  mk' (a.re * b.re - a.im * b.im) (a.re * b.im + a.im * b.re) (a.taint || b.taint)

def conj (a : CF) : CF := { a with im := -a.im }

def nanv : CF := { re := 0.0 / 0.0, im := 0.0 / 0.0 }

def inv (a : CF) : CF :=
  let n := a.re * a.re + a.im * a.im
  if a.isNan then { nanv with taint := a.taint }
  else if n == 0 then { nanv with taint := a.taint || (a.re != 0 || a.im != 0) }
  else mk' (a.re / n) (-a.im / n) a.taint

def normSq (a : CF) : Option Float :=
  let n := a.re * a.re + a.im * a.im
  if n.isNaN then none else some n

def abs (a : CF) : Float := Float.sqrt (a.re * a.re + a.im * a.im)
def angle (a : CF) : Float := Float.atan2 a.im a.re
def polar (m p : Float) : CF := mk' (m * Float.cos p) (m * Float.sin p) false
def divReal (a : CF) (r : Float) : CF := mk' (a.re / r) (a.im / r) a.taint
def cis (t : Float) : CF := mk' (Float.cos t) (Float.sin t) false

end CF

def floatAlg : CAlg CF Float where
  one := { re := 1, im := 0 }
  nan := CF.nanv
  mul := CF.mul
  conj := CF.conj
  inv := CF.inv
  isNan := CF.isNan
  isFinite := CF.isFinite
  normSq := CF.normSq
  abs := CF.abs
  angle := CF.angle
  polar := CF.polar
  divReal := CF.divReal
  cis := CF.cis

def floatOps : ROps Float where
  pi := 3.141592653589793
  fmod := fun a b => a - Float.floor (a / b) * b
  sqrt := Float.sqrt
  ofNat := Nat.toFloat

/-! ## S-expression protocol

  A request is one line of space-separated tokens; `(` and `)` are tokens of their own.
  Atoms: integers `12`, `-3`; floats `f:<u64 bit pattern>`; complex `c:<u64>:<u64>`;
  strings `s:<dot-separated code points>`; `_` for None. -/

inductive SX where
  | atom (s : String)
  | list (l : List SX)
  deriving Inhabited

def parseToks : List String → List (List SX) → Option (List SX)
  | [], [top] => some top.reverse
  | [], _ => none
  | tok :: t, stack =>
    if tok = "" then parseToks t stack
    else if tok = "(" then parseToks t ([] :: stack)
    else if tok = ")" then
      match stack with
      | cur :: parent :: rest => parseToks t ((SX.list cur.reverse :: parent) :: rest)
      | _ => none
    else match stack with
      | cur :: rest => parseToks t ((SX.atom tok :: cur) :: rest)
      | [] => none

def parseLine (line : String) : Option (List SX) := parseToks (line.splitOn " ") [[]]

namespace SX

def nat? : SX → Option Nat
  | atom s => s.toNat?
  | _ => none

def int? : SX → Option Int
  | atom s => s.toInt?
  | _ => none

def bool? : SX → Option Bool
  | atom "1" => some true
  | atom "0" => some false
  | _ => none

def float? : SX → Option Float
  | atom s => match s.splitOn ":" with
    | ["f", b] => b.toNat?.map fun n => Float.ofBits (UInt64.ofNat n)
    | _ => none
  | _ => none

/-- `_` (None / NaN) ↦ `none` -/
def optFloat? : SX → Option (Option Float)
  | atom "_" => some none
  | x => x.float?.map some

def cf? : SX → Option CF
  | atom s => match s.splitOn ":" with
    | ["c", a, b] => do
      let a ← a.toNat?
      let b ← b.toNat?
      pure (CF.ofFloats (Float.ofBits (UInt64.ofNat a)) (Float.ofBits (UInt64.ofNat b)))
    | _ => none
  | _ => none

def str? : SX → Option String
  | atom s =>
    if s = "s:" then some "" else
    match s.splitOn ":" with
    | ["s", b] => (b.splitOn ".").mapM String.toNat? |>.map fun cs => String.ofList (cs.map Char.ofNat)
    | _ => none
  | _ => none

def listOf? {α : Type} (f : SX → Option α) : SX → Option (List α)
  | list l => l.mapM f
  | _ => none

def optOf? {α : Type} (f : SX → Option α) : SX → Option (Option α)
  | atom "_" => some none
  | x => (f x).map some

end SX

def showFloat (x : Float) : String := s!"f:{x.toBits.toNat}"
def showCF (z : CF) : String := s!"c:{z.re.toBits.toNat}:{z.im.toBits.toNat}:{if z.taint then 1 else 0}"
def showStr (s : String) : String := "s:" ++ ".".intercalate (s.toList.map fun c => toString c.toNat)
def showList {α : Type} (f : α → String) (l : List α) : String := "( " ++ " ".intercalate (l.map f) ++ " )"

end ApplyCal
