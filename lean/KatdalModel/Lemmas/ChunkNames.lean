/-
  Lemmas about chunk names: zero-padded decimals, separator-joined lists, path suffixes.
-/
import KatdalModel.Model.ChunkStore
open Np

namespace ChunkStore

/-! ### padded decimals -/

theorem ofDigitChars_padDec (w n : Nat) : Nat.ofDigitChars 10 (padDec w n) 0 = n := by
  unfold padDec
  rw [Nat.ofDigitChars_append, Nat.ofDigitChars_replicate_zero]
  simp

theorem padDec_inj {w n m : Nat} (h : padDec w n = padDec w m) : n = m := by
  have := congrArg (fun l => Nat.ofDigitChars 10 l 0) h
  simpa [ofDigitChars_padDec] using this

theorem padDec_isDigit {w n : Nat} {c : Char} (h : c ∈ padDec w n) : c.isDigit = true := by
  unfold padDec at h
  rw [List.mem_append] at h
  rcases h with h | h
  · rw [List.mem_replicate] at h
    rw [h.2]; decide
  · exact Nat.isDigit_of_mem_toDigits (by decide) (by decide) h

theorem padDec_ne_nil (w n : Nat) : padDec w n ≠ [] := by
  unfold padDec
  intro h
  have := List.append_eq_nil_iff.mp h
  exact Nat.toDigits_ne_nil this.2

theorem padDec_length (w n : Nat) :
    (padDec w n).length = max w (Nat.toDigits 10 n).length := by
  unfold padDec
  simp only [List.length_append, List.length_replicate]
  omega

/-- the field is exactly `w` wide iff the number fits, wider otherwise -/
theorem padDec_length_eq_iff {w n : Nat} (hw : 0 < w) : (padDec w n).length = w ↔ n < 10 ^ w := by
  rw [padDec_length, ← Nat.length_toDigits_le_iff (by decide : 1 < 10) hw]
  omega

theorem fmtInt_ofNat (w n : Nat) : fmtInt w (n : Int) = padDec w n := by
  unfold fmtInt
  have : ¬ ((n : Int) < 0) := by omega
  simp [this]

/-! ### separator-joined lists -/

/-- two separator-free words followed by "nothing or a separator" can only agree if the words
    agree -/
theorem sepfree_append_eq {sep : Char} :
    ∀ (a a' r r' : List Char), (∀ c ∈ a, c ≠ sep) → (∀ c ∈ a', c ≠ sep) →
      (r = [] ∨ ∃ t, r = sep :: t) → (r' = [] ∨ ∃ t, r' = sep :: t) →
      a ++ r = a' ++ r' → a = a' ∧ r = r' := by
  intro a
  induction a with
  | nil =>
    intro a' r r' _ ha' hr _ h
    cases a' with
    | nil => exact ⟨rfl, by simpa using h⟩
    | cons x xs =>
      exfalso
      simp only [List.nil_append, List.cons_append] at h
      rcases hr with hr | ⟨t, hr⟩
      · rw [hr] at h; cases h
      · rw [hr] at h
        injection h with h1 _
        exact ha' x (List.mem_cons_self ..) h1.symm
  | cons x xs ih =>
    intro a' r r' ha ha' hr hr' h
    cases a' with
    | nil =>
      exfalso
      simp only [List.nil_append, List.cons_append] at h
      rcases hr' with hr' | ⟨t, hr'⟩
      · rw [hr'] at h; cases h
      · rw [hr'] at h
        injection h with h1 _
        exact ha x (List.mem_cons_self ..) h1
    | cons y ys =>
      simp only [List.cons_append] at h
      injection h with h1 h2
      have := ih ys r r' (fun c hc => ha c (List.mem_cons_of_mem _ hc))
        (fun c hc => ha' c (List.mem_cons_of_mem _ hc)) hr hr' h2
      exact ⟨by rw [h1, this.1], this.2⟩

/-- what follows the first word of a join -/
def joinTail (sep : Char) : List (List Char) → List Char
  | [] => []
  | b :: t => sep :: joinWith sep (b :: t)

theorem joinWith_cons (sep : Char) (a : List Char) (t : List (List Char)) :
    joinWith sep (a :: t) = a ++ joinTail sep t := by
  cases t with
  | nil => simp [joinWith, joinTail]
  | cons b t => simp [joinWith, joinTail]

theorem joinTail_shape (sep : Char) (t : List (List Char)) :
    joinTail sep t = [] ∨ ∃ u, joinTail sep t = sep :: u := by
  cases t with
  | nil => left; rfl
  | cons b t => right; exact ⟨_, rfl⟩

/-- `sep.join` is injective on lists of non-empty separator-free words -/
theorem joinWith_inj {sep : Char} :
    ∀ (l l' : List (List Char)), (∀ a ∈ l, a ≠ [] ∧ ∀ c ∈ a, c ≠ sep) →
      (∀ a ∈ l', a ≠ [] ∧ ∀ c ∈ a, c ≠ sep) → joinWith sep l = joinWith sep l' → l = l' := by
  intro l
  induction l with
  | nil =>
    intro l' _ hl' h
    cases l' with
    | nil => rfl
    | cons a t =>
      exfalso
      rw [joinWith_cons] at h
      have : a = [] := by
        have := (List.append_eq_nil_iff.mp h.symm).1
        exact this
      exact (hl' a (List.mem_cons_self ..)).1 this
  | cons a t ih =>
    intro l' hl hl' h
    cases l' with
    | nil =>
      exfalso
      rw [joinWith_cons] at h
      have : a = [] := (List.append_eq_nil_iff.mp h).1
      exact (hl a (List.mem_cons_self ..)).1 this
    | cons a' t' =>
      rw [joinWith_cons, joinWith_cons] at h
      have hs := sepfree_append_eq a a' _ _ (hl a (List.mem_cons_self ..)).2
        (hl' a' (List.mem_cons_self ..)).2 (joinTail_shape sep t) (joinTail_shape sep t') h
      have hta : t = t' := by
        have h2 := hs.2
        cases t with
        | nil =>
          cases t' with
          | nil => rfl
          | cons b' u' => simp [joinTail] at h2
        | cons b u =>
          cases t' with
          | nil => simp [joinTail] at h2
          | cons b' u' =>
            simp only [joinTail, List.cons.injEq, true_and] at h2
            exact ih (b' :: u') (fun x hx => hl x (List.mem_cons_of_mem _ hx))
              (fun x hx => hl' x (List.mem_cons_of_mem _ hx)) h2
      rw [hs.1, hta]

theorem mem_joinWith {sep : Char} :
    ∀ (l : List (List Char)) (c : Char), c ∈ joinWith sep l → c = sep ∨ ∃ a ∈ l, c ∈ a := by
  intro l
  induction l with
  | nil => intro c h; simp [joinWith] at h
  | cons a t ih =>
    intro c h
    rw [joinWith_cons] at h
    rw [List.mem_append] at h
    rcases h with h | h
    · right; exact ⟨a, List.mem_cons_self .., h⟩
    · cases t with
      | nil => simp [joinTail] at h
      | cons b u =>
        simp only [joinTail, List.mem_cons] at h
        rcases h with h | h
        · left; exact h
        · have := ih c h
          rcases this with h1 | ⟨x, hx, hc⟩
          · left; exact h1
          · right; exact ⟨x, List.mem_cons_of_mem _ hx, hc⟩

/-! ### chunk identifiers and names -/

theorem chunkIdStrW_chars {w : Nat} {starts : List Nat} {c : Char}
    (h : c ∈ chunkIdStrW w starts) : c = '_' ∨ c.isDigit = true := by
  unfold chunkIdStrW at h
  rcases mem_joinWith _ c h with h | ⟨a, ha, hc⟩
  · left; exact h
  · right
    rw [List.mem_map] at ha
    obtain ⟨n, _, rfl⟩ := ha
    exact padDec_isDigit hc

theorem map_padDec_inj {w : Nat} :
    ∀ (s s' : List Nat), s.map (padDec w) = s'.map (padDec w) → s = s' := by
  intro s
  induction s with
  | nil =>
    intro s' h
    cases s' with
    | nil => rfl
    | cons _ _ => simp at h
  | cons x xs ih =>
    intro s' h
    cases s' with
    | nil => simp at h
    | cons y ys =>
      simp only [List.map_cons, List.cons.injEq] at h
      rw [padDec_inj h.1, ih ys h.2]

theorem chunkIdStrW_inj {w : Nat} {s s' : List Nat} (h : chunkIdStrW w s = chunkIdStrW w s') :
    s = s' := by
  unfold chunkIdStrW at h
  have hw : ∀ (l : List Nat), ∀ a ∈ l.map (padDec w), a ≠ [] ∧ ∀ c ∈ a, c ≠ '_' := by
    intro l a ha
    rw [List.mem_map] at ha
    obtain ⟨n, _, rfl⟩ := ha
    refine ⟨padDec_ne_nil w n, ?_⟩
    intro c hc hcu
    have := padDec_isDigit hc
    rw [hcu] at this
    exact absurd this (by decide)
  exact map_padDec_inj s s' (joinWith_inj _ _ (hw s) (hw s') h)

/-- splitting at the last separator: the part after it is separator-free -/
theorem split_last_sep {sep : Char} {a a' i i' : List Char} (hi : ∀ c ∈ i, c ≠ sep)
    (hi' : ∀ c ∈ i', c ≠ sep) (h : a ++ sep :: i = a' ++ sep :: i') : a = a' ∧ i = i' := by
  have hr := congrArg List.reverse h
  simp only [List.reverse_append, List.reverse_cons, List.append_assoc, List.singleton_append] at hr
  have := sepfree_append_eq i.reverse i'.reverse (sep :: a.reverse) (sep :: a'.reverse)
    (fun c hc => hi c (List.mem_reverse.mp hc)) (fun c hc => hi' c (List.mem_reverse.mp hc))
    (Or.inr ⟨_, rfl⟩) (Or.inr ⟨_, rfl⟩) hr
  refine ⟨?_, List.reverse_inj.mp this.1⟩
  have h2 := this.2
  injection h2 with _ h3
  exact List.reverse_inj.mp h3

theorem nameSep_eq : nameSep = ['/'] := by
  unfold nameSep; decide

theorem chunkIdStr_no_slash {starts : List Nat} : ∀ c ∈ chunkIdStr starts, c ≠ '/' := by
  intro c hc hs
  rcases chunkIdStrW_chars hc with h | h
  · rw [hs] at h; exact absurd h (by decide)
  · rw [hs] at h; exact absurd h (by decide)

theorem chunkIdStr_no_dot {starts : List Nat} : ∀ c ∈ chunkIdStr starts, c ≠ '.' := by
  intro c hc hs
  rcases chunkIdStrW_chars hc with h | h
  · rw [hs] at h; exact absurd h (by decide)
  · rw [hs] at h; exact absurd h (by decide)

theorem chunkName_eq (array : Name) (starts : List Nat) :
    chunkName array starts = array ++ '/' :: chunkIdStr starts := by
  unfold chunkName; rw [nameSep_eq]; simp

theorem chunkName_inj {a a' : Name} {s s' : List Nat} (h : chunkName a s = chunkName a' s') :
    a = a' ∧ s = s' := by
  rw [chunkName_eq, chunkName_eq] at h
  have := split_last_sep chunkIdStr_no_slash chunkIdStr_no_slash h
  exact ⟨this.1, chunkIdStrW_inj this.2⟩

/-! ### file locations of the NPY store -/

theorem npyLoc_inj {root n n' : Name} (h : npyLoc root n = npyLoc root n') : n = n' := by
  unfold npyLoc at h
  have h0 : root ++ ('/' :: (n ++ npySuffix)) = root ++ ('/' :: (n' ++ npySuffix)) := by
    simpa [List.append_assoc] using h
  have h1 := List.append_cancel_left h0
  injection h1 with _ h2
  exact List.append_cancel_right h2

/-- a temporary file name is never the name of a chunk file -/
theorem npyTmp_ne_final (root a a' : Name) (s s' : List Nat) :
    npyTmpLoc root (chunkName a s) ≠ npyLoc root (chunkName a' s') := by
  intro h
  unfold npyTmpLoc npyLoc at h
  have h0 : root ++ ('/' :: ((chunkName a s ++ writingSuffix) ++ npySuffix))
      = root ++ ('/' :: (chunkName a' s' ++ npySuffix)) := by
    simpa [List.append_assoc] using h
  have h1 := List.append_cancel_left h0
  injection h1 with _ h2
  have h3 := List.append_cancel_right h2
  rw [chunkName_eq, chunkName_eq] at h3
  have h4 : a ++ '/' :: (chunkIdStr s ++ writingSuffix) = a' ++ '/' :: chunkIdStr s' := by
    simpa using h3
  have hfree : ∀ c ∈ chunkIdStr s ++ writingSuffix, c ≠ '/' := by
    intro c hc
    rw [List.mem_append] at hc
    rcases hc with hc | hc
    · exact chunkIdStr_no_slash c hc
    · intro hs; rw [hs] at hc; revert hc; unfold writingSuffix; decide
  have := (split_last_sep hfree chunkIdStr_no_slash h4).2
  have hdot : '.' ∈ chunkIdStr s' := by
    rw [← this, List.mem_append]; right; unfold writingSuffix; decide
  exact chunkIdStr_no_dot '.' hdot rfl

/-- the completion marker of an array is never the name of a chunk file -/
theorem npyMarker_ne_final (root a a' : Name) (s' : List Nat) :
    npyMarkerLoc root a ≠ npyLoc root (chunkName a' s') := by
  intro h
  unfold npyMarkerLoc npyLoc at h
  have h0 : root ++ ('/' :: (a ++ '/' :: completeName))
      = root ++ ('/' :: (chunkName a' s' ++ npySuffix)) := by
    simpa [List.append_assoc] using h
  have h1 := List.append_cancel_left h0
  injection h1 with _ h2
  rw [chunkName_eq] at h2
  have h4 : a ++ '/' :: completeName = a' ++ '/' :: (chunkIdStr s' ++ npySuffix) := by
    simpa using h2
  have hfree : ∀ c ∈ chunkIdStr s' ++ npySuffix, c ≠ '/' := by
    intro c hc
    rw [List.mem_append] at hc
    rcases hc with hc | hc
    · exact chunkIdStr_no_slash c hc
    · intro hs; rw [hs] at hc; revert hc; unfold npySuffix; decide
  have hfree' : ∀ c ∈ completeName, c ≠ '/' := by
    intro c hc hs; rw [hs] at hc; revert hc; unfold completeName; decide
  have := (split_last_sep hfree' hfree h4).2
  have hdot : '.' ∈ completeName := by
    rw [this, List.mem_append]; right; unfold npySuffix; decide
  revert hdot; unfold completeName; decide

/-! ### chunk_metadata on the slices katdal builds -/

theorem map_fmtInt_ofNat (w : Nat) (s : List Nat) :
    (s.map Int.ofNat).map (fmtInt w) = s.map (padDec w) := by
  induction s with
  | nil => rfl
  | cons a t ih =>
    simp only [List.map_cons, ih]
    congr 1

theorem chunkIdStrInt_ofNat (s : List Nat) : chunkIdStrInt (s.map Int.ofNat) = chunkIdStr s := by
  unfold chunkIdStrInt chunkIdStr chunkIdStrW
  rw [map_fmtInt_ofNat]

theorem sliceShape_natSlices : ∀ (starts shape : List Nat), starts.length = shape.length →
    sliceShape (natSlices starts shape) = some (shape.map Int.ofNat) := by
  intro starts
  induction starts with
  | nil => intro shape h; cases shape with
    | nil => rfl
    | cons _ _ => simp at h
  | cons a t ih =>
    intro shape h
    cases shape with
    | nil => simp at h
    | cons n ns =>
      simp only [List.length_cons] at h
      have := ih ns (by omega)
      simp only [natSlices, List.zip_cons_cons, List.map_cons, sliceShape] at this ⊢
      rw [this]
      simp only [Option.some.injEq, List.cons.injEq, and_true, Int.ofNat_eq_natCast]
      omega

theorem sliceStarts_natSlices : ∀ (starts shape : List Nat), starts.length = shape.length →
    sliceStarts (natSlices starts shape) = starts.map Int.ofNat := by
  intro starts
  induction starts with
  | nil => intro shape _; cases shape <;> rfl
  | cons a t ih =>
    intro shape h
    cases shape with
    | nil => simp at h
    | cons n ns =>
      simp only [List.length_cons] at h
      have := ih ns (by omega)
      simp only [natSlices, List.zip_cons_cons, List.map_cons, sliceStarts] at this ⊢
      rw [this]
      simp

theorem steps_natSlices (starts shape : List Nat) :
    (natSlices starts shape).all (fun s => s.step = none ∨ s.step = some 1) = true := by
  rw [List.all_eq_true]
  intro s hs
  simp only [natSlices, List.mem_map] at hs
  obtain ⟨p, _, rfl⟩ := hs
  simp

theorem chunkMetadata_natSlices (array : Name) (starts shape : List Nat)
    (h : starts.length = shape.length) :
    chunkMetadata array (natSlices starts shape) (some shape) false false
      = .ok (chunkName array starts, shape.map Int.ofNat) ∧
    chunkMetadata array (natSlices starts shape) none false false
      = .ok (chunkName array starts, shape.map Int.ofNat) := by
  have hname : chunkNameInt array (starts.map Int.ofNat) = chunkName array starts := by
    unfold chunkNameInt chunkName; rw [chunkIdStrInt_ofNat]
  have hsteps := steps_natSlices starts shape
  constructor <;>
    simp only [chunkMetadata, sliceShape_natSlices starts shape h,
      sliceStarts_natSlices starts shape h, hsteps, hname] <;> simp

theorem map_ofNat_inj : ∀ (l l' : List Nat), l.map Int.ofNat = l'.map Int.ofNat → l = l' := by
  intro l
  induction l with
  | nil => intro l' h; cases l' <;> simp at h ⊢
  | cons x xs ih =>
    intro l' h
    cases l' with
    | nil => simp at h
    | cons y ys =>
      simp only [List.map_cons, List.cons.injEq] at h
      rw [ih ys h.2, Int.ofNat.inj h.1]

end ChunkStore
