/-
  C12 lemmas about `np.interp` (Sensor.interp) over the rationals: exact at knots, linear between
  neighbours (a convex combination), constant outside the knots, monotone for monotone data.
-/
import KatdalModel.Model.Sensor
open Sensor

namespace Sensor

/-- strictly increasing abscissae -/
def StrictX (ks : List (Rat × Rat)) : Prop := ks.Pairwise (fun a b => a.1 < b.1)
/-- non-decreasing ordinates -/
def MonoY (ks : List (Rat × Rat)) : Prop := ks.Pairwise (fun a b => a.2 ≤ b.2)

/-! ### a little ordered-field arithmetic that `grind` does not do by itself -/

theorem rat_div_nonneg {a d : Rat} (ha : 0 ≤ a) (hd : 0 < d) : 0 ≤ a / d := by
  rw [Rat.div_def]
  have : 0 < d⁻¹ := Rat.inv_pos.2 hd
  exact Rat.mul_nonneg ha (Rat.le_of_lt this)

theorem rat_div_le_div {a b d : Rat} (hab : a ≤ b) (hd : 0 < d) : a / d ≤ b / d := by
  rw [Rat.div_def, Rat.div_def]
  have h : 0 ≤ d⁻¹ := Rat.le_of_lt (Rat.inv_pos.2 hd)
  have := Rat.mul_le_mul_of_nonneg_left hab h
  rw [Rat.mul_comm d⁻¹ a, Rat.mul_comm d⁻¹ b] at this
  exact this

theorem rat_div_self {d : Rat} (hd : 0 < d) : d / d = 1 := by
  have : d ≠ 0 := by grind
  grind

/-- the interpolation weight lies in [0, 1] -/
theorem weight_bounds {x x0 x1 : Rat} (h0 : x0 ≤ x) (h1 : x ≤ x1) (h : x0 < x1) :
    0 ≤ (x - x0) / (x1 - x0) ∧ (x - x0) / (x1 - x0) ≤ 1 := by
  have hd : 0 < x1 - x0 := by grind
  constructor
  · exact rat_div_nonneg (by grind) hd
  · have := rat_div_le_div (a := x - x0) (b := x1 - x0) (by grind) hd
    rw [rat_div_self hd] at this
    exact this

theorem seg_eq (y0 y1 x x0 x1 : Rat) :
    y0 + (y1 - y0) * (x - x0) / (x1 - x0) = y0 + (y1 - y0) * ((x - x0) / (x1 - x0)) := by
  rw [Rat.div_def, Rat.div_def, Rat.mul_assoc]

/-- the value on a segment with rising data is monotone in `x` -/
theorem seg_mono {y0 y1 x x' x0 x1 : Rat} (hy : y0 ≤ y1) (h : x0 < x1) (hxx : x ≤ x') :
    y0 + (y1 - y0) * (x - x0) / (x1 - x0) ≤ y0 + (y1 - y0) * (x' - x0) / (x1 - x0) := by
  rw [seg_eq, seg_eq]
  have hd : 0 < x1 - x0 := by grind
  have hw := rat_div_le_div (a := x - x0) (b := x' - x0) (by grind) hd
  have := Rat.mul_le_mul_of_nonneg_left hw (show 0 ≤ y1 - y0 by grind)
  grind

theorem seg_ge {y0 y1 x x0 x1 : Rat} (hy : y0 ≤ y1) (h : x0 < x1) (h0 : x0 ≤ x) :
    y0 ≤ y0 + (y1 - y0) * (x - x0) / (x1 - x0) := by
  rw [seg_eq]
  have hd : 0 < x1 - x0 := by grind
  have hw := rat_div_nonneg (a := x - x0) (by grind) hd
  have := Rat.mul_nonneg (show 0 ≤ y1 - y0 by grind) hw
  grind

theorem seg_le {y0 y1 x x0 x1 : Rat} (hy : y0 ≤ y1) (h : x0 < x1) (h0 : x0 ≤ x) (h1 : x ≤ x1) :
    y0 + (y1 - y0) * (x - x0) / (x1 - x0) ≤ y1 := by
  rw [seg_eq]
  have hw := (weight_bounds h0 h1 h).2
  have := Rat.mul_le_mul_of_nonneg_left hw (show 0 ≤ y1 - y0 by grind)
  grind

/-! ### np.interp -/

theorem interp_hold_left (x0 y0 : Rat) (r : List (Rat × Rat)) (x : Rat) (h : x ≤ x0) :
    interp ((x0, y0) :: r) x = y0 := by
  cases r with
  | nil => simp [interp]
  | cons b rest => obtain ⟨x1, y1⟩ := b; simp [interp, h]

theorem interp_at_knot : ∀ (ks : List (Rat × Rat)), StrictX ks →
    ∀ xk yk, (xk, yk) ∈ ks → interp ks xk = yk := by
  intro ks
  induction ks with
  | nil => intro _ xk yk h; simp at h
  | cons a r ih =>
    intro hs xk yk hm
    obtain ⟨x0, y0⟩ := a
    have hs' := List.pairwise_cons.1 hs
    rcases List.mem_cons.1 hm with heq | hr
    · have h1 : xk = x0 := by simpa using (congrArg Prod.fst heq)
      have h2 : yk = y0 := by simpa using (congrArg Prod.snd heq)
      subst h1; subst h2
      exact interp_hold_left _ _ _ _ Rat.le_refl
    · cases r with
      | nil => simp at hr
      | cons b rest =>
        obtain ⟨x1, y1⟩ := b
        have hlt : x0 < xk := hs'.1 (xk, yk) hr
        have hx1 : x0 < x1 := hs'.1 (x1, y1) (by simp)
        have hge : x1 ≤ xk := by
          rcases List.mem_cons.1 hr with heq | hr'
          · have : xk = x1 := by simpa using (congrArg Prod.fst heq)
            rw [this]; exact Rat.le_refl
          · exact Rat.le_of_lt ((List.pairwise_cons.1 hs'.2).1 (xk, yk) hr')
        have hn1 : ¬ xk ≤ x0 := by grind
        have hn2 : ¬ xk < x1 := by grind
        simp only [interp, hn1, hn2, if_false]
        exact ih hs'.2 xk yk hr

theorem interp_hold_right : ∀ (ks : List (Rat × Rat)), StrictX ks →
    ∀ xl yl, ks.getLast? = some (xl, yl) → ∀ x, xl ≤ x → interp ks x = yl := by
  intro ks
  induction ks with
  | nil => intro _ xl yl h; simp at h
  | cons a r ih =>
    intro hs xl yl hl x hx
    obtain ⟨x0, y0⟩ := a
    cases r with
    | nil =>
      simp at hl
      simp [interp, hl.2]
    | cons b rest =>
      obtain ⟨x1, y1⟩ := b
      have hs' := List.pairwise_cons.1 hs
      rw [List.getLast?_cons_cons] at hl
      have hmem : (xl, yl) ∈ (x1, y1) :: rest := List.mem_of_getLast? hl
      have hx1 : x0 < x1 := hs'.1 (x1, y1) (by simp)
      have hge : x1 ≤ xl := by
        rcases List.mem_cons.1 hmem with heq | hr'
        · have : xl = x1 := by simpa using (congrArg Prod.fst heq)
          rw [this]; exact Rat.le_refl
        · exact Rat.le_of_lt ((List.pairwise_cons.1 hs'.2).1 (xl, yl) hr')
      have hn1 : ¬ x ≤ x0 := by grind
      have hn2 : ¬ x < x1 := by grind
      simp only [interp, hn1, hn2, if_false]
      exact ih hs'.2 xl yl hl x hx

/-- between two neighbouring knots the value is the straight line through them -/
theorem interp_between : ∀ (pre : List (Rat × Rat)) (x0 y0 x1 y1 : Rat) (post : List (Rat × Rat)),
    StrictX (pre ++ (x0, y0) :: (x1, y1) :: post) → ∀ x, x0 ≤ x → x ≤ x1 →
    interp (pre ++ (x0, y0) :: (x1, y1) :: post) x = y0 + (y1 - y0) * (x - x0) / (x1 - x0) := by
  intro pre
  induction pre with
  | nil =>
    intro x0 y0 x1 y1 post hs x h0 h1
    have hs' := List.pairwise_cons.1 hs
    have hx1 : x0 < x1 := hs'.1 (x1, y1) (by simp)
    simp only [List.nil_append, interp]
    by_cases hle : x ≤ x0
    · have : x = x0 := Rat.le_antisymm hle h0
      subst this
      simp only [hle, if_true]
      have : x - x = 0 := by grind
      rw [this, Rat.mul_zero, Rat.div_def, Rat.zero_mul, Rat.add_zero]
    · simp only [hle, if_false]
      by_cases hlt : x < x1
      · simp [hlt]
      · have : x = x1 := by grind
        subst this
        simp only [hlt, if_false]
        rw [interp_hold_left _ _ _ _ Rat.le_refl]
        have hd : x - x0 ≠ 0 := by grind
        grind
  | cons p pre' ih =>
    intro x0 y0 x1 y1 post hs x h0 h1
    obtain ⟨px, py⟩ := p
    have hs' := List.pairwise_cons.1 hs
    have hpx0 : px < x0 := hs'.1 (x0, y0) (by simp)
    have hx01 : x0 < x1 := by
      have := List.pairwise_append.1 hs'.2
      exact (List.pairwise_cons.1 this.2.1).1 (x1, y1) (by simp)
    cases pre' with
    | nil =>
      have hn1 : ¬ x ≤ px := by grind
      have hn2 : ¬ x < x0 := by grind
      simp only [List.cons_append, List.nil_append, interp, hn1, hn2, if_false]
      exact ih x0 y0 x1 y1 post hs'.2 x h0 h1
    | cons q pre'' =>
      obtain ⟨qx, qy⟩ := q
      have hq : qx < x0 := by
        have := List.pairwise_cons.1 hs'.2
        exact this.1 (x0, y0) (by simp)
      have hn1 : ¬ x ≤ px := by grind
      have hn2 : ¬ x < qx := by grind
      simp only [List.cons_append, interp, hn1, hn2, if_false]
      exact ih x0 y0 x1 y1 post hs'.2 x h0 h1

/-- with rising data the interpolant never falls below the first value -/
theorem interp_ge_first : ∀ (r : List (Rat × Rat)) (x0 y0 : Rat), StrictX ((x0, y0) :: r) →
    MonoY ((x0, y0) :: r) → ∀ x, y0 ≤ interp ((x0, y0) :: r) x := by
  intro r
  induction r with
  | nil => intro x0 y0 _ _ x; simp [interp]
  | cons b rest ih =>
    intro x0 y0 hs hm x
    obtain ⟨x1, y1⟩ := b
    have hs' := List.pairwise_cons.1 hs
    have hm' := List.pairwise_cons.1 hm
    have hx : x0 < x1 := hs'.1 (x1, y1) (by simp)
    have hy : y0 ≤ y1 := hm'.1 (x1, y1) (by simp)
    simp only [interp]
    split
    · exact Rat.le_refl
    · rename_i h1
      split
      · exact seg_ge hy hx (by grind)
      · exact Rat.le_trans hy (ih x1 y1 hs'.2 hm'.2 x)

/-- monotone data give a monotone interpolant -/
theorem interp_mono : ∀ (ks : List (Rat × Rat)), StrictX ks → MonoY ks →
    ∀ x x', x ≤ x' → interp ks x ≤ interp ks x' := by
  intro ks
  induction ks with
  | nil => intro _ _ x x' _; simp [interp]
  | cons a r ih =>
    intro hs hm x x' hxx
    obtain ⟨x0, y0⟩ := a
    cases r with
    | nil => simp [interp]
    | cons b rest =>
      obtain ⟨x1, y1⟩ := b
      have hs' := List.pairwise_cons.1 hs
      have hm' := List.pairwise_cons.1 hm
      have hx : x0 < x1 := hs'.1 (x1, y1) (by simp)
      have hy : y0 ≤ y1 := hm'.1 (x1, y1) (by simp)
      by_cases h1 : x ≤ x0
      · have : interp ((x0, y0) :: (x1, y1) :: rest) x = y0 := interp_hold_left _ _ _ _ h1
        rw [this]
        exact interp_ge_first _ _ _ hs hm x'
      · by_cases h2 : x < x1
        · have hn1' : ¬ x' ≤ x0 := by grind
          by_cases h2' : x' < x1
          · simp only [interp, h1, h2, hn1', h2', if_true, if_false]
            exact seg_mono hy hx hxx
          · simp only [interp, h1, h2, hn1', h2', if_true, if_false]
            have hA := seg_le (y0 := y0) (y1 := y1) (x := x) hy hx (by grind) (by grind)
            have hB := interp_ge_first rest x1 y1 hs'.2 hm'.2 x'
            exact Rat.le_trans hA hB
        · have hn1' : ¬ x' ≤ x0 := by grind
          have hn2' : ¬ x' < x1 := by grind
          simp only [interp, h1, h2, hn1', hn2', if_false]
          exact ih hs'.2 hm'.2 x x' hxx

end Sensor
