/-
  C06 model: chunk grids, their intersection (what dask's `intersect_chunks` gives katdal),
  the lost-data map of ChunkStoreVisFlagsWeights and phantom-chunk alignment.
-/
import KatdalModel.Np.Basic
open Np

namespace Chunks

/-- index of the chunk containing position `p` (chunks given by their sizes) -/
def chunkOf : List Nat → Nat → Nat
  | [], _ => 0
  | s :: t, p => if p < s then 0 else 1 + chunkOf t (p - s)

def total (sizes : List Nat) : Nat := sizes.sum

/-- a piece of the common refinement of two chunkings of the same axis -/
structure Piece where
  start : Nat
  len : Nat
  dst : Nat      -- chunk index in the first (flags) chunking
  src : Nat      -- chunk index in the second chunking
  deriving DecidableEq, Repr, Inhabited

/-- merge the breakpoints of two chunkings: consecutive pieces, each inside exactly one chunk of
    either side.  `fuel` bounds the number of pieces (≤ |c1| + |c2|). -/
def piecesAux : Nat → Nat → List Nat → Nat → List Nat → Nat → List Piece
  | 0, _, _, _, _, _ => []
  | _, _, [], _, _, _ => []
  | _, _, _, _, [], _ => []
  | fuel + 1, pos, a :: as, i, b :: bs, j =>
    if a = 0 then piecesAux fuel pos as (i + 1) (b :: bs) j
    else if b = 0 then piecesAux fuel pos (a :: as) i bs (j + 1)
    else if a < b then ⟨pos, a, i, j⟩ :: piecesAux fuel (pos + a) as (i + 1) ((b - a) :: bs) j
    else if b < a then ⟨pos, b, i, j⟩ :: piecesAux fuel (pos + b) ((a - b) :: as) i bs (j + 1)
    else ⟨pos, a, i, j⟩ :: piecesAux fuel (pos + a) as (i + 1) bs (j + 1)

def pieces (c1 c2 : List Nat) : List Piece := piecesAux (c1.length + c2.length + 1) 0 c1 0 c2 0

/-- source chunk that the piece decomposition attributes to position `p` -/
def srcOfPieces (ps : List Piece) (p : Nat) : Option Nat :=
  (ps.find? fun q => decide (q.start ≤ p ∧ p < q.start + q.len)).map (·.src)

def dstOfPieces (ps : List Piece) (p : Nat) : Option Nat :=
  (ps.find? fun q => decide (q.start ≤ p ∧ p < q.start + q.len)).map (·.dst)

/-- the code's lost map on one axis: positions covered by a piece whose source chunk is absent -/
def lostByPieces (c1 c2 : List Nat) (present : Nat → Bool) (n : Nat) : List Bool :=
  (List.range n).map fun p =>
    match srcOfPieces (pieces c1 c2) p with
    | some s => !present s
    | none => false

/-- the specification: a position is lost iff the chunk of the source array containing it is absent -/
def lostSpec (c2 : List Nat) (present : Nat → Bool) (n : Nat) : List Bool :=
  (List.range n).map fun p => !present (chunkOf c2 p)

/-- `_align_chunk_info`: pad a shorter time chunking with phantom one-dump chunks -/
def alignTime (timeChunks : List Nat) (maxDumps : Nat) : List Nat :=
  timeChunks ++ List.replicate (maxDumps - total timeChunks) 1

/-- `_prune_chunks` on one axis for the unit-step slice `[start, stop)`:
    (kept chunk sizes, offset of the first kept chunk, start and stop relative to that offset) -/
def pruneAxis (sizes : List Nat) (start stop : Nat) : List Nat × Nat × Nat × Nat :=
  -- drop leading chunks that end at or before `start`
  let rec dropLead (cs : List Nat) (off st sp : Nat) : List Nat × Nat × Nat × Nat :=
    match cs with
    | c :: t => if c ≤ st then dropLead t (off + c) (st - c) (sp - c) else (c :: t, off, st, sp)
    | [] => ([], off, st, sp)
  let (cs, off, st, sp) := dropLead sizes 0 start stop
  -- drop trailing chunks that begin at or after `stop`
  let rec keepUntil (cs : List Nat) (pos : Nat) : List Nat :=
    match cs with
    | c :: t => if pos < sp then c :: keepUntil t (pos + c) else []
    | [] => []
  let kept := keepUntil cs 0
  ((if kept.isEmpty then [0] else kept), off, st, sp)

/-! Element level: what one element of the loaded arrays is, given which of the stored chunks
    covering it are absent.  `lost*` come from the per-array lost maps (`lostSpec` / `lostByPieces`). -/

/-- `DATA_LOST` (bit 3 of the flag byte) -/
def dataLost : UInt8 := 8

/-- a missing chunk of visibilities / weights / per-channel weights loads as zeros (`_default_zero`) -/
def loadValue {α} (zero : α) (lost : Bool) (stored : α) : α := if lost then zero else stored

/-- the flag byte: a missing flags chunk is a zero placeholder; `_apply_data_lost` then ORs `DATA_LOST`
    into every element covered by a missing chunk of ANY of the arrays (the flags array included) -/
def loadFlags (stored : UInt8) (lostVis lostWeights lostWeightsChannel lostFlags : Bool) : UInt8 :=
  (if lostFlags then 0 else stored) |||
    (if lostVis || lostWeights || lostWeightsChannel || lostFlags then dataLost else 0)

end Chunks
