/-
  Np layer: the fragment of CPython / numpy semantics that the katdal models are
  written against.  Import-free (core Lean only) so that it compiles into the
  driver executables.  What ties these definitions to CPython/numpy is the
  exhaustive small-scope comparison in harness/np_glue.py (a test, labelled so).
-/
namespace Np

/-- Python exception classes, collapsed to the enum the harness canonicalises to. -/
inductive Err
  | index | value | type | key | notImpl | other
  deriving DecidableEq, Repr, Inhabited

deriving instance DecidableEq for Except

def Err.name : Err → String
  | .index => "IndexError" | .value => "ValueError" | .type => "TypeError"
  | .key => "KeyError" | .notImpl => "NotImplementedError" | .other => "Error"

/-- `len(range(start, stop, step))` (0 for `step = 0`) -/
def rangeLen (start stop step : Int) : Nat :=
  if 0 < step then ((stop - start + step - 1) / step).toNat
  else if step < 0 then ((start - stop + (-step) - 1) / (-step)).toNat
  else 0

def rangeAux (step : Int) : Nat → Int → List Int
  | 0, _ => []
  | k + 1, x => x :: rangeAux step k (x + step)

/-- Python `range(start, stop, step)` for `step ≠ 0`, as a list (empty for `step = 0`).
    Structural recursion on the computed length, so that `decide` can evaluate it. -/
def rangeList (start stop step : Int) : List Int :=
  rangeAux step (rangeLen start stop step) start

/-- CPython `slice(start, stop, step).indices(n)` (PySlice_Unpack + PySlice_AdjustIndices).
    `none` when `step = 0` (ValueError). -/
def sliceIndices (n : Nat) (start stop step : Option Int) : Option (Int × Int × Int) :=
  let st : Int := step.getD 1
  if st = 0 then none else
  let lower : Int := if st < 0 then -1 else 0
  let upper : Int := if st < 0 then (n : Int) - 1 else n
  let clamp (v : Int) : Int :=
    if v < 0 then (if v + n < lower then lower else v + n) else (if v > upper then upper else v)
  let s := match start with
    | none => if st < 0 then upper else lower
    | some v => clamp v
  let e := match stop with
    | none => if st < 0 then lower else upper
    | some v => clamp v
  some (s, e, st)

/-- Indices selected by a slice on an axis of length `n`. -/
def sliceList (n : Nat) (a b c : Option Int) : Option (List Int) :=
  (sliceIndices n a b c).map fun (s, e, st) => rangeList s e st

/-- Normalise a possibly negative integer index on an axis of length `n`. -/
def normInt (n : Nat) (i : Int) : Except Err Nat :=
  if 0 ≤ i ∧ i < n then .ok i.toNat
  else if -(n : Int) ≤ i ∧ i < 0 then .ok (i + n).toNat
  else .error .index

/-- `np.nonzero(mask)[0]`. -/
def nonzeroFrom : Nat → List Bool → List Nat
  | _, [] => []
  | k, true :: m => k :: nonzeroFrom (k + 1) m
  | k, false :: m => nonzeroFrom (k + 1) m

def nonzero (m : List Bool) : List Nat := nonzeroFrom 0 m

/-- `np.diff`. -/
def diff : List Int → List Int
  | a :: b :: t => (b - a) :: diff (b :: t)
  | _ => []

/-- `np.cumsum([0] + l)`. -/
def cumsum0 (l : List Nat) : List Nat :=
  (l.foldl (fun (acc : List Nat × Nat) x => (acc.1 ++ [acc.2 + x], acc.2 + x)) ([0], 0)).1

/-- list indexing with Python bounds (no negative wrap: callers normalise first). -/
def getNat {α} (l : List α) (i : Nat) : Except Err α :=
  match l[i]? with
  | some v => .ok v
  | none => .error .index

/-- strictly increasing -/
def strictInc : List Int → Bool
  | a :: b :: t => a < b && strictInc (b :: t)
  | _ => true

def strictIncNat : List Nat → Bool
  | a :: b :: t => a < b && strictIncNat (b :: t)
  | _ => true

/-- `searchsorted(a, v, side='right')` on a sorted list: number of elements `≤ v`. -/
def searchsortedRight (a : List Int) (v : Int) : Nat := (a.takeWhile (· ≤ v)).length

/-- `searchsorted(a, v, side='left')` on a sorted list: number of elements `< v`. -/
def searchsortedLeft (a : List Int) (v : Int) : Nat := (a.takeWhile (· < v)).length

end Np
