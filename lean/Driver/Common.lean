/-
  Shared line-protocol helpers for the per-property model drivers.
  One request per input line, one reply per output line.
-/
import KatdalModel.Model.Index
open Np Index

namespace Drv

def splitOn (s : String) (sep : String) : List String := s.splitOn sep

def parseInt? (s : String) : Option Int := s.toInt?
def parseNat? (s : String) : Option Nat := s.toNat?

def parseOptInt (s : String) : Option (Option Int) :=
  if s = "_" || s = "" then some none else (s.toInt?).map some

def parseIntList (s : String) : Option (List Int) :=
  if s = "" then some [] else (s.splitOn ",").mapM (·.toInt?)

def parseNatList (s : String) : Option (List Nat) :=
  if s = "" then some [] else (s.splitOn ",").mapM (·.toNat?)

def parseMask (s : String) : Option (List Bool) :=
  s.toList.mapM fun c => if c = '1' then some true else if c = '0' then some false else none

/-- `i:-3` | `s:a:b:c` (`_` = None) | `m:1011` | `l:1,2,3` -/
def parseIx (s : String) : Option Ix :=
  match s.splitOn ":" with
  | ["i", v] => (v.toInt?).map Ix.int
  | ["s", a, b, c] => do
    let a ← parseOptInt a; let b ← parseOptInt b; let c ← parseOptInt c
    pure (Ix.slice a b c)
  | ["m", v] => (parseMask v).map Ix.mask
  | ["l", v] => (parseIntList v).map Ix.list
  | _ => none

/-- `-` is the empty tuple, otherwise `;`-separated -/
def parseIxTuple (s : String) : Option (List Ix) :=
  if s = "-" then some [] else (s.splitOn ";").mapM parseIx

/-- `4x6x3`, `-` for 0-dim -/
def parseShape (s : String) : Option (List Nat) :=
  if s = "-" then some [] else (s.splitOn "x").mapM (·.toNat?)

def showNatList (l : List Nat) : String := ",".intercalate (l.map toString)
def showIntList (l : List Int) : String := ",".intercalate (l.map toString)
def showShape (l : List Nat) : String := if l.isEmpty then "-" else "x".intercalate (l.map toString)

def showSel : Sel → String
  | .one k => s!"o:{k}"
  | .many ks => s!"m:{showNatList ks}"

def showSels (l : List Sel) : String := if l.isEmpty then "-" else ";".intercalate (l.map showSel)

def showErr (e : Err) : String := s!"E:{e.name}"

def showExcept {α} (f : α → String) : Except Err α → String
  | .ok v => f v
  | .error e => showErr e

/-- read lines from stdin, answer each with `step` -/
partial def loop (step : String → String) : IO Unit := do
  let stdin ← IO.getStdin
  let stdout ← IO.getStdout
  let rec go : IO Unit := do
    let line ← stdin.getLine
    if line.isEmpty then return ()
    let l := (line.splitOn "\n").headD ""
    stdout.putStrLn (step l)
    go
  go
  stdout.flush

end Drv

namespace Drv

/-- stateful variant of `loop`: `step` threads a state through the lines -/
partial def loopState {σ : Type} (init : σ) (step : σ → String → σ × String) : IO Unit := do
  let stdin ← IO.getStdin
  let stdout ← IO.getStdout
  let rec go (s : σ) : IO Unit := do
    let line ← stdin.getLine
    if line.isEmpty then return ()
    let l := (line.splitOn "\n").headD ""
    let (s', out) := step s l
    stdout.putStrLn out
    go s'
  go init
  stdout.flush

def showMask (m : List Bool) : String := String.ofList (m.map fun b => if b then '1' else '0')

end Drv
