import Driver.Common
import KatdalModel.Model.DataSetGlue
open Np Index Drv Glue

/-- requests:
    read <tmask> <fmask> <bmask> <k2>   -> per-axis source coordinates of d.vis[k2] (or E:..)
    pad <mask> <storedLen>              -> dumps selected by the padded mask
    labels <mask>                       -> nonzero -/
def step (line : String) : String :=
  match line.splitOn " " with
  | ["read", t, f, b, k2] =>
    match parseMask t, parseMask f, parseMask b, parseIxTuple k2 with
    | some t, some f, some b, some k2 => showExcept showSels (readSel t f b k2)
    | _, _, _, _ => "bad-op"
  | ["pad", m, n] =>
    match parseMask m, n.toNat? with
    | some m, some n => showNatList (labelsOf (padTimeMask m n))
    | _, _ => "bad-op"
  | ["labels", m] =>
    match parseMask m with
    | some m => showNatList (labelsOf m)
    | none => "bad-op"
  | _ => "bad-op"

def main : IO Unit := Drv.loop step
