/-
  Lemmas about the file-system view of NpyFileChunkStore.put_chunk.
-/
import KatdalModel.Model.ChunkStore
open Np

namespace ChunkStore

set_option linter.unusedSectionVars false

variable {P : Type} [DecidableEq P]

theorem runOps_nil (fs : FS P) : runOps ([] : List (FsOp P)) fs = fs := rfl

theorem runOps_cons (o : FsOp P) (ops : List (FsOp P)) (fs : FS P) :
    runOps (o :: ops) fs = runOps ops (o.apply fs) := rfl

theorem runOps_append (a b : List (FsOp P)) (fs : FS P) :
    runOps (a ++ b) fs = runOps b (runOps a fs) := by
  unfold runOps; rw [List.foldl_append]

/-- an operation confined to the temp name leaves every other name alone -/
theorem tmpOnly_apply {tmp : P} {o : FsOp P} (h : o.tmpOnly tmp = true) (fs : FS P) (p : P)
    (hp : p ≠ tmp) : o.apply fs p = fs p := by
  cases o with
  | openTrunc q =>
    simp only [FsOp.tmpOnly, decide_eq_true_eq] at h; subst h
    simp [FsOp.apply, hp]
  | write q b =>
    simp only [FsOp.tmpOnly, decide_eq_true_eq] at h; subst h
    simp [FsOp.apply, hp]
  | ftruncate q n =>
    simp only [FsOp.tmpOnly, decide_eq_true_eq] at h; subst h
    simp [FsOp.apply, hp]
  | close => rfl
  | rename a b => simp [FsOp.tmpOnly] at h
  | junk q c =>
    simp only [FsOp.tmpOnly, decide_eq_true_eq] at h; subst h
    simp [FsOp.apply, hp]

theorem runOps_tmpOnly {tmp : P} : ∀ (ops : List (FsOp P)), ops.all (FsOp.tmpOnly tmp) = true →
    ∀ (fs : FS P) (p : P), p ≠ tmp → runOps ops fs p = fs p := by
  intro ops
  induction ops with
  | nil => intro _ fs p _; rfl
  | cons o t ih =>
    intro h fs p hp
    simp only [List.all_cons, Bool.and_eq_true] at h
    rw [runOps_cons, ih h.2 _ p hp, tmpOnly_apply h.1 fs p hp]

theorem all_take {α} (f : α → Bool) (l : List α) (k : Nat) (h : l.all f = true) :
    (l.take k).all f = true := by
  rw [List.all_eq_true] at h ⊢
  intro x hx
  exact h x (List.mem_of_mem_take hx)

/-- **atomicity for every word of the op language**: a trace made of operations confined to
    the temp name followed by one rename, cut after any number of operations, leaves under the
    final name either what was there before or (only when nothing was cut) what the temp name
    held just before the rename; other names are never touched -/
theorem atomic_word {tmp fin : P} (hne : tmp ≠ fin) (pre : List (FsOp P))
    (hpre : pre.all (FsOp.tmpOnly tmp) = true) (fs : FS P) (k : Nat) :
    (k ≤ pre.length → runOps ((pre ++ [FsOp.rename tmp fin]).take k) fs fin = fs fin) ∧
    (pre.length < k → runOps ((pre ++ [FsOp.rename tmp fin]).take k) fs fin
        = match runOps pre fs tmp with
          | some c => some c
          | none => fs fin) ∧
    (∀ p, p ≠ tmp → p ≠ fin → runOps ((pre ++ [FsOp.rename tmp fin]).take k) fs p = fs p) := by
  refine ⟨?_, ?_, ?_⟩
  · intro hk
    rw [List.take_append_of_le_length hk]
    exact runOps_tmpOnly _ (all_take _ _ _ hpre) fs fin (Ne.symm hne)
  · intro hk
    rw [List.take_of_length_le (by simp only [List.length_append, List.length_singleton]; omega)]
    rw [runOps_append, runOps_cons, runOps_nil]
    simp only [FsOp.apply]
    cases hc : runOps pre fs tmp with
    | none => simp only; exact runOps_tmpOnly _ hpre fs fin (Ne.symm hne)
    | some c => simp
  · intro p hp1 hp2
    by_cases hk : k ≤ pre.length
    · rw [List.take_append_of_le_length hk]
      exact runOps_tmpOnly _ (all_take _ _ _ hpre) fs p hp1
    · rw [List.take_of_length_le (by simp only [List.length_append, List.length_singleton]; omega)]
      rw [runOps_append, runOps_cons, runOps_nil]
      simp only [FsOp.apply]
      cases hc : runOps pre fs tmp with
      | none => simp only; exact runOps_tmpOnly _ hpre fs p hp1
      | some c => simp only [hp1, hp2, if_false]; exact runOps_tmpOnly _ hpre fs p hp1

/-! ### the op language -/

theorem isPutBody_split {tmp fin : P} : ∀ (ops : List (FsOp P)), isPutBody tmp fin ops = true →
    ∃ body, ops = body ++ [FsOp.rename tmp fin] ∧ body.all (FsOp.tmpOnly tmp) = true := by
  intro ops
  induction ops with
  | nil => intro h; simp [isPutBody] at h
  | cons o t ih =>
    intro h
    cases t with
    | nil =>
      cases o with
      | rename p q =>
        simp only [isPutBody, Bool.and_eq_true, decide_eq_true_eq] at h
        exact ⟨[], by rw [h.1, h.2]; rfl, rfl⟩
      | openTrunc p => simp [isPutBody] at h
      | write p b => simp [isPutBody] at h
      | ftruncate p n => simp [isPutBody] at h
      | close => simp [isPutBody] at h
      | junk p c => simp [isPutBody] at h
    | cons o2 t2 =>
      have hstep : isPutBody tmp fin (o :: o2 :: t2)
          = ((match o with
              | .write p _ => decide (p = tmp)
              | .ftruncate p _ => decide (p = tmp)
              | .close => true
              | _ => false) && isPutBody tmp fin (o2 :: t2)) := by
        cases o <;> simp [isPutBody]
      rw [hstep, Bool.and_eq_true] at h
      obtain ⟨body, hb, hall⟩ := ih h.2
      refine ⟨o :: body, by rw [hb]; rfl, ?_⟩
      simp only [List.all_cons, Bool.and_eq_true]
      refine ⟨?_, hall⟩
      cases o with
      | write p b => simpa [FsOp.tmpOnly] using h.1
      | ftruncate p n => simpa [FsOp.tmpOnly] using h.1
      | close => rfl
      | openTrunc p => simp at h
      | rename p q => simp at h
      | junk p c => simp at h

theorem isPutWord_split {tmp fin : P} (ops : List (FsOp P)) (h : isPutWord tmp fin ops = true) :
    ∃ body, ops = (.openTrunc tmp :: body) ++ [FsOp.rename tmp fin] ∧
      (FsOp.openTrunc tmp :: body).all (FsOp.tmpOnly tmp) = true := by
  cases ops with
  | nil => simp [isPutWord] at h
  | cons o t =>
    cases o with
    | openTrunc p =>
      simp only [isPutWord, Bool.and_eq_true, decide_eq_true_eq] at h
      obtain ⟨body, hb, hall⟩ := isPutBody_split t h.2
      refine ⟨body, by rw [hb, h.1]; rfl, ?_⟩
      simp only [List.all_cons, Bool.and_eq_true]
      exact ⟨by simp [FsOp.tmpOnly], hall⟩
    | write p b => simp [isPutWord] at h
    | ftruncate p n => simp [isPutWord] at h
    | close => simp [isPutWord] at h
    | rename p q => simp [isPutWord] at h
    | junk p c => simp [isPutWord] at h

/-! ### what the temp name holds just before the rename -/

theorem runOps_writes (tmp : P) : ∀ (pieces : List Bytes) (fs : FS P),
    runOps (pieces.map (FsOp.write tmp)) fs tmp = (fs tmp).map (· ++ pieces.flatten) := by
  intro pieces
  induction pieces with
  | nil => intro fs; cases h : fs tmp <;> simp [runOps_nil, h]
  | cons b t ih =>
    intro fs
    simp only [List.map_cons, runOps_cons]
    rw [ih]
    simp only [FsOp.apply, if_true]
    cases fs tmp <;> simp

theorem buffered_pre_all (tmp : P) (pieces : List Bytes) :
    (FsOp.openTrunc tmp :: (pieces.map (FsOp.write tmp) ++ [FsOp.close])).all (FsOp.tmpOnly tmp)
      = true := by
  simp only [List.all_cons, List.all_append, Bool.and_eq_true, List.all_map]
  refine ⟨by simp [FsOp.tmpOnly], ?_, by simp [FsOp.tmpOnly]⟩
  rw [List.all_eq_true]
  intro x _
  simp [FsOp.tmpOnly]

theorem putOpsBuffered_eq (tmp fin : P) (pieces : List Bytes) :
    putOpsBuffered tmp fin pieces
      = (FsOp.openTrunc tmp :: (pieces.map (FsOp.write tmp) ++ [FsOp.close])) ++ [FsOp.rename tmp fin] := by
  simp [putOpsBuffered]

theorem buffered_tmp_content (tmp : P) (pieces : List Bytes) (fs : FS P) :
    runOps (FsOp.openTrunc tmp :: (pieces.map (FsOp.write tmp) ++ [FsOp.close])) fs tmp
      = some pieces.flatten := by
  rw [runOps_cons, runOps_append, runOps_cons, runOps_nil]
  simp only [FsOp.apply]
  rw [runOps_writes]
  simp

theorem putOpsDirect_eq (tmp fin : P) (content : Bytes) (pad : Nat) :
    putOpsDirect tmp fin content pad
      = [FsOp.openTrunc tmp, .write tmp (content ++ List.replicate pad 0),
          .ftruncate tmp content.length, .close] ++ [FsOp.rename tmp fin] := rfl

theorem direct_pre_all (tmp : P) (content : Bytes) (pad : Nat) :
    ([FsOp.openTrunc tmp, .write tmp (content ++ List.replicate pad 0),
        .ftruncate tmp content.length, .close] : List (FsOp P)).all (FsOp.tmpOnly tmp) = true := by
  simp [FsOp.tmpOnly]

theorem direct_tmp_content (tmp : P) (content : Bytes) (pad : Nat) (fs : FS P) :
    runOps ([FsOp.openTrunc tmp, .write tmp (content ++ List.replicate pad 0),
        .ftruncate tmp content.length, .close] : List (FsOp P)) fs tmp = some content := by
  simp only [runOps_cons, runOps_nil, FsOp.apply, if_true, Option.map_some, List.nil_append]
  rw [List.take_left' rfl]
  simp

end ChunkStore
