/-
  ConcatenatedLazyIndexer, whole request: lifting the head-axis split to the tail axes.
-/
import KatdalModel.Lemmas.ConcatList
import KatdalModel.Lemmas.Compose
open Np Index LazyIx

namespace LazyIx

theorem locate_some_of_lt (lens : List Nat) (g : Nat) (h : g < total lens) :
    ∃ pr, locate lens 0 g = some pr := by
  obtain ⟨k, l, hloc, _⟩ := findIndexer_locate lens 0 0 g (Nat.zero_le _) (by simpa using h)
  exact ⟨(0 + k, l), by simpa using hloc⟩

/-- locating every entry of a list of in-range global positions succeeds, entry by entry -/
theorem mapM_locate_ok (lens : List Nat) : ∀ (gs : List Nat), (∀ g ∈ gs, g < total lens) →
    ∃ prs : List (Nat × Nat),
      gs.mapM (fun g => match locate lens 0 g with
        | some pr => (Except.ok pr : Except Err (Nat × Nat))
        | none => .error .index) = .ok prs ∧
      prs.length = gs.length ∧
      ∀ j, j < gs.length → locate lens 0 (gs.getD j 0) = some (prs.getD j (0, 0)) := by
  intro gs
  induction gs with
  | nil => intro _; exact ⟨[], rfl, rfl, by intro j hj; simp at hj⟩
  | cons g t ih =>
    intro h
    obtain ⟨pr, hpr⟩ := locate_some_of_lt lens g (h g (by simp))
    obtain ⟨prs, hm, hl, hget⟩ := ih (fun x hx => h x (by simp [hx]))
    refine ⟨pr :: prs, ?_, by simp [hl], ?_⟩
    · simp only [List.mapM_cons, hpr, hm]; rfl
    · intro j hj
      cases j with
      | zero => simpa using hpr
      | succ j =>
        have : j < t.length := by simpa using hj
        simpa using hget j this

theorem partLens_ne_nil {α} (parts : List (NDArr α)) (h : parts ≠ []) : partLens parts ≠ [] := by
  cases parts with
  | nil => exact absurd rfl h
  | cons a t => simp [partLens]

/-- whole request of the concatenated indexer = the same key on the concatenation, given that the head-axis
    split agrees with the spec (which `concatHead_int/_slice/_mask/_list` establish on the grammar) -/
theorem concatFull_eq_spec_of {α} [Inhabited α] (parts : List (NDArr α))
    (tailShape : List Nat) (ix : Ix) (tails : List (List Nat))
    (hhead : concatHead (partLens parts) ix = concatSpec (partLens parts) ix)
    (hre : ((match (generalizing := false) ix with | .slice _ _ _ => true | .mask _ => true | _ => false) &&
      tails.any (·.isEmpty)) = false) :
    match concatFullSpec parts tailShape ix tails with
    | .error e => concatFull parts ix tails = .error e
    | .ok s => ∃ r, concatFull parts ix tails = .ok r ∧ r.shape = s.shape ∧
        ∀ js, Index.inBounds s.shape js → r.get js = s.get js := by
  unfold concatFullSpec concatFull
  simp only [hhead, concatSpec, hre]
  cases hres : ix.resolve (total (partLens parts)) with
  | error e => simp [bind, Except.bind]
  | ok sel =>
    have hv := resolve_valid _ ix sel hres
    cases sel with
    | one g =>
      obtain ⟨pr, hpr⟩ := locate_some_of_lt _ g hv
      simp only [bind, Except.bind, pure, Except.pure, hpr]
      refine ⟨_, rfl, rfl, ?_⟩
      intro js _
      simp [oindexSel, pickCoords, concatArr, hpr]
    | many gs =>
      obtain ⟨prs, hm, hl, hget⟩ := mapM_locate_ok _ gs hv
      simp only [bind, Except.bind, pure, Except.pure]
      generalize hX : List.mapM (m := Except Err) (β := Nat × Nat) _ gs = X
      have hX' : X = .ok prs := hX.symm.trans hm
      subst hX'
      dsimp only
      simp only [Bool.false_eq_true, if_false]
      rw [if_neg (fun hc => absurd ((hc.symm.trans hre : true = false)) (by decide))]
      refine ⟨_, rfl, ?_, ?_⟩
      · simp [oindexSel, selShape, hl]
      intro js hjs
      simp only [oindexSel, selShape] at hjs
      cases js with
      | nil => exact absurd hjs (by simp [Index.inBounds])
      | cons j t =>
        have hj' : j < gs.length := hjs.1
        have hg := hget j hj'
        simp only [List.getD_eq_getElem?_getD] at hg
        simp [oindexSel, pickCoords, concatArr, hg]

theorem any_isEmpty_false_of_ne_nil (tails : List (List Nat)) (hne : ∀ t ∈ tails, t ≠ []) :
    tails.any (·.isEmpty) = false := by
  rw [List.any_eq_false]
  intro t ht
  have := hne t ht
  cases t with
  | nil => exact absurd rfl this
  | cons _ _ => simp

/-- tail keys without empty selections: every head form -/
theorem concatFull_eq_spec {α} [Inhabited α] (parts : List (NDArr α))
    (tailShape : List Nat) (ix : Ix) (tails : List (List Nat))
    (hhead : concatHead (partLens parts) ix = concatSpec (partLens parts) ix)
    (hne : ∀ t ∈ tails, t ≠ []) :
    match concatFullSpec parts tailShape ix tails with
    | .error e => concatFull parts ix tails = .error e
    | .ok s => ∃ r, concatFull parts ix tails = .ok r ∧ r.shape = s.shape ∧
        ∀ js, Index.inBounds s.shape js → r.get js = s.get js :=
  concatFull_eq_spec_of parts tailShape ix tails hhead
    (by rw [any_isEmpty_false_of_ne_nil tails hne, Bool.and_false])

end LazyIx
