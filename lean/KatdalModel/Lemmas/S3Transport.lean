/-
  Lemmas about the S3 transport model (C09): budget arithmetic, the streaming request loop over a
  transient fault word, independence from the outer variable, closed form of "fits".
-/
import KatdalModel.Model.S3Transport

namespace S3
open Req

variable {α : Type}

/-! ### take -/

theorem take_all {β : Type} (l : List β) (k : Nat) (h : ¬ k < l.length) : l.take k = l :=
  List.take_of_length_le (by omega)

/-! ### budget arithmetic -/

theorem causeOf_cases (f : Fault) : causeOf f = .status ∨ causeOf f = .read := by
  cases f <;> simp [causeOf]

theorem increment_some {b b' : Budget} {c : Cause} (h : b.increment c = some b') : b' = b.bump c := by
  unfold Budget.increment at h
  simp only at h
  split at h
  · simp at h
  · simp at h; exact h.symm

theorem increment_eq (b : Budget) (c : Cause) :
    b.increment c = if (b.bump c).exhausted then none else some (b.bump c) := rfl

/-! ### one step on a transient fault, streaming -/

structure GoodReader (rq : Req α) (a : α) : Prop where
  whole : rq.reader rq.body = .ok a
  strict : ∀ k, k < rq.body.length → rq.reader (rq.body.take k) = .incomplete

theorem step_status_force (rq : Req α) (b0 b : Budget) (c : Nat) (hc : c ∈ rq.forcelist) :
    rq.step b0 b (.status c) =
      match b.increment .status with
      | none => .done (.error .glitch)
      | some b' => .again b0 b' := by
  cases h : b.increment .status <;> simp [Req.step, hc, h]

theorem onBody_streaming_short (rq : Req α) (a : α) (hr : GoodReader rq a) (hm : rq.mode = .streaming)
    (b0 b : Budget) (k : Nat) (st : Bool) (hk : k < rq.body.length) :
    rq.onBody b0 b k st =
      match b.increment .read with
      | none => .done (.error .glitch)
      | some b' => .again b' b' := by
  cases h : b.increment .read <;> simp [Req.onBody, hm, hr.strict k hk, Req.processed, Req.retryRead, h]

theorem step_transient_streaming (rq : Req α) (a : α) (hr : GoodReader rq a) (hm : rq.mode = .streaming)
    (b0 b : Budget) (f : Fault) (hf : transient rq.forcelist rq.body.length f = true) :
    rq.step b0 b f =
      match b.increment (causeOf f) with
      | none => .done (.error .glitch)
      | some b' => .again (if causeOf f = .status then b0 else b') b' := by
  cases f with
  | status c =>
    simp [transient] at hf
    rw [step_status_force rq b0 b c hf]
    simp [causeOf]
  | truncate k =>
    simp [transient] at hf
    simp only [Req.step]
    rw [onBody_streaming_short rq a hr hm b0 b k false hf]
    simp [causeOf]
  | reset k =>
    simp [transient] at hf
    simp only [Req.step]
    rw [onBody_streaming_short rq a hr hm b0 b k false hf]
    simp [causeOf]
  | stall =>
    simp [transient] at hf
    simp only [Req.step]
    rw [onBody_streaming_short rq a hr hm b0 b 0 true hf]
    simp [causeOf]
  | ok => simp [transient] at hf

/-! ### the outer variable is irrelevant when streaming -/

theorem onBody_streaming_b0 (rq : Req α) (hm : rq.mode = .streaming) (b0 b0' b : Budget) (k : Nat) (st : Bool) :
    rq.onBody b0 b k st = rq.onBody b0' b k st := by
  simp [Req.onBody, hm]

theorem run_streaming_b0 (rq : Req α) (hm : rq.mode = .streaming) :
    ∀ (w : List Fault) (b0 b0' b : Budget) (n : Nat), rq.run b0 b w n = rq.run b0' b w n := by
  intro w
  induction w with
  | nil => intro b0 b0' b n; simp [Req.run]
  | cons f w ih =>
    intro b0 b0' b n
    cases f with
    | status c =>
      by_cases hc : c ∈ rq.forcelist
      · cases h : b.increment .status with
        | none => simp [Req.run, Req.step, hc, h]
        | some b' => simp only [Req.run, Req.step, hc, h, if_true]; exact ih b0 b0' b' (n + 1)
      · simp [Req.run, Req.step, hc]
    | truncate k =>
      simp only [Req.run, Req.step]
      rw [onBody_streaming_b0 rq hm b0 b0']
    | reset k =>
      simp only [Req.run, Req.step]
      rw [onBody_streaming_b0 rq hm b0 b0']
    | stall =>
      simp only [Req.run, Req.step]
      rw [onBody_streaming_b0 rq hm b0 b0']
    | ok =>
      simp only [Req.run, Req.step]
      rw [onBody_streaming_b0 rq hm b0 b0']

/-! ### a transient prefix is absorbed letter by letter -/

theorem fits_append (b : Budget) (p w : List Fault) :
    fits b (p ++ w) = (fits b p && fits (after b p) w) := by
  induction p generalizing b with
  | nil => simp [fits, after]
  | cons f p ih =>
    simp only [List.cons_append, fits, after]
    cases h : b.increment (causeOf f) with
    | none => simp
    | some b' =>
      simp only
      rw [ih b', increment_some h]

/-- Streaming request over `p ++ w` with `p` transient: either the budget runs out inside `p`
    (server glitch at the request that carried the exhausting fault) or the loop reaches `w` with
    the budget that is left. -/
theorem run_transient_prefix (rq : Req α) (a : α) (hr : GoodReader rq a) (hm : rq.mode = .streaming) :
    ∀ (p w : List Fault) (b0 b : Budget) (n : Nat),
      (∀ f ∈ p, transient rq.forcelist rq.body.length f = true) →
      rq.run b0 b (p ++ w) n =
        if fits b p then rq.run b0 (after b p) w (n + p.length)
        else (.error .glitch, n + absorbed b p + 1) := by
  intro p
  induction p with
  | nil => intro w b0 b n _; simp [fits, after]
  | cons f p ih =>
    intro w b0 b n hp
    have hf := hp f (by simp)
    have hp' : ∀ g ∈ p, transient rq.forcelist rq.body.length g = true := fun g hg => hp g (by simp [hg])
    simp only [List.cons_append, Req.run]
    rw [step_transient_streaming rq a hr hm b0 b f hf]
    cases h : b.increment (causeOf f) with
    | none => simp [fits, absorbed, h]
    | some b' =>
      simp only [fits, absorbed, after, h]
      rw [ih w _ b' (n + 1) hp', ← increment_some h]
      by_cases hfit : fits b' p = true
      · simp only [hfit, if_true, List.length_cons]
        rw [run_streaming_b0 rq hm w _ b0]
        congr 1; omega
      · simp only [hfit]
        simp only [Bool.false_eq_true, if_false, Prod.mk.injEq, true_and]
        omega

/-- `c09_outcome` in its loop form. -/
theorem run_transient (rq : Req α) (a : α) (hr : GoodReader rq a) (hm : rq.mode = .streaming)
    (w : List Fault) (b0 b : Budget) (n : Nat)
    (hw : ∀ f ∈ w, transient rq.forcelist rq.body.length f = true) :
    rq.run b0 b w n =
      (if fits b w then .ok a else .error .glitch, n + absorbed b w + 1) := by
  have h := run_transient_prefix rq a hr hm w [] b0 b n hw
  simp only [List.append_nil] at h
  rw [h]
  by_cases hfit : fits b w = true
  · simp only [hfit, if_true, Req.run, hr.whole]
    have : absorbed b w = w.length := by
      clear h hw
      induction w generalizing b with
      | nil => simp [absorbed]
      | cons f w ih =>
        simp only [fits] at hfit
        cases hi : b.increment (causeOf f) with
        | none => simp [hi] at hfit
        | some b' => simp [hi] at hfit; simp [absorbed, hi, ih b' hfit]
    rw [this]
  · simp [hfit]

/-! ### closed form of `fits` -/

theorem room_succ (n : Nat) (o : Option Int) : room (n + 1) o = (room 1 o && room n (dec o)) := by
  cases o with
  | none => simp [room, dec]
  | some v =>
    simp only [room, dec, Option.map]
    by_cases h : ((n : Int) + 1 ≤ v)
    · have h1 : (1 : Int) ≤ v := by omega
      have h2 : (n : Int) ≤ v - 1 := by omega
      simp [h, h1, h2]
    · have h2 : ¬ ((n : Int) ≤ v - 1) := by omega
      simp [h, h2]

theorem neg_dec_of_nonneg (o : Option Int) (h : nonneg o = true) : neg (dec o) = !room 1 o := by
  cases o with
  | none => simp [neg, dec, room]
  | some v =>
    simp only [nonneg, decide_eq_true_eq] at h
    simp only [neg, dec, Option.map, room]
    by_cases h1 : (1 : Int) ≤ v
    · have : ¬ (v - 1 < 0) := by omega
      simp [h1, this]
    · have : v - 1 < 0 := by omega
      simp [h1, this]

theorem neg_of_nonneg (o : Option Int) (h : nonneg o = true) : neg o = false := by
  cases o with
  | none => simp [neg]
  | some v =>
    simp only [nonneg, decide_eq_true_eq] at h
    simp only [neg, decide_eq_false_iff_not]
    omega

theorem nonneg_dec (o : Option Int) (h : room 1 o = true) : nonneg (dec o) = true := by
  cases o with
  | none => simp [nonneg, dec]
  | some v =>
    simp only [room, decide_eq_true_eq] at h
    simp only [nonneg, dec, Option.map, decide_eq_true_eq]
    omega

theorem wf_parts {b : Budget} (h : b.wf = true) :
    nonneg b.total = true ∧ nonneg b.connect = true ∧ nonneg b.read = true ∧
    nonneg b.redirect = true ∧ nonneg b.status = true ∧ nonneg b.other = true := by
  simp only [Budget.wf, Bool.and_eq_true] at h
  obtain ⟨⟨⟨⟨⟨h1, h2⟩, h3⟩, h4⟩, h5⟩, h6⟩ := h
  exact ⟨h1, h2, h3, h4, h5, h6⟩

theorem increment_status_wf (b : Budget) (h : b.wf = true) :
    b.increment .status = if room 1 b.total && room 1 b.status then some (b.bump .status) else none := by
  obtain ⟨ht, hc, hr, hd, hs, ho⟩ := wf_parts h
  simp only [increment_eq, Budget.exhausted, Budget.bump, neg_dec_of_nonneg _ ht, neg_dec_of_nonneg _ hs,
    neg_of_nonneg _ hc, neg_of_nonneg _ hr, neg_of_nonneg _ hd, neg_of_nonneg _ ho]
  cases room 1 b.total <;> cases room 1 b.status <;> simp

theorem increment_read_wf (b : Budget) (h : b.wf = true) :
    b.increment .read = if room 1 b.total && room 1 b.read then some (b.bump .read) else none := by
  obtain ⟨ht, hc, hr, hd, hs, ho⟩ := wf_parts h
  simp only [increment_eq, Budget.exhausted, Budget.bump, neg_dec_of_nonneg _ ht, neg_dec_of_nonneg _ hr,
    neg_of_nonneg _ hc, neg_of_nonneg _ hs, neg_of_nonneg _ hd, neg_of_nonneg _ ho]
  cases room 1 b.total <;> cases room 1 b.read <;> simp

theorem bump_status_wf (b : Budget) (h : b.wf = true) (h1 : room 1 b.total = true) (h2 : room 1 b.status = true) :
    (b.bump .status).wf = true := by
  obtain ⟨ht, hc, hr, hd, hs, ho⟩ := wf_parts h
  simp [Budget.wf, Budget.bump, nonneg_dec _ h1, nonneg_dec _ h2, hc, hr, hd, ho]

theorem bump_read_wf (b : Budget) (h : b.wf = true) (h1 : room 1 b.total = true) (h2 : room 1 b.read = true) :
    (b.bump .read).wf = true := by
  obtain ⟨ht, hc, hr, hd, hs, ho⟩ := wf_parts h
  simp [Budget.wf, Budget.bump, nonneg_dec _ h1, nonneg_dec _ h2, hc, hs, hd, ho]

theorem room_zero_of_nonneg (o : Option Int) (h : nonneg o = true) : room 0 o = true := by
  cases o with
  | none => simp [room]
  | some v => simpa [room, nonneg] using h

/-- "Fits" as urllib3 counts it = the three obvious inequalities, for any budget whose counters
    start non-negative: #faults ≤ total, #status faults ≤ status, #read faults ≤ read. -/
theorem fits_eq_fitsCount : ∀ (w : List Fault) (b : Budget), b.wf = true → fits b w = fitsCount b w := by
  intro w
  induction w with
  | nil =>
    intro b h
    obtain ⟨ht, _, hr, _, hs, _⟩ := wf_parts h
    simp [fits, fitsCount, countStatus, countRead, room_zero_of_nonneg _ ht, room_zero_of_nonneg _ hr,
      room_zero_of_nonneg _ hs]
  | cons f w ih =>
    intro b h
    rcases causeOf_cases f with hc | hc
    · simp only [fits, hc, increment_status_wf b h]
      have e1 : countStatus (f :: w) = countStatus w + 1 := by simp [countStatus, hc]
      have e2 : countRead (f :: w) = countRead w := by simp [countRead, hc]
      simp only [fitsCount, List.length_cons, e1, e2]
      rw [room_succ w.length b.total, room_succ (countStatus w) b.status]
      by_cases h1 : room 1 b.total = true
      · by_cases h2 : room 1 b.status = true
        · simp only [h1, h2, Bool.and_self, if_true]
          rw [ih _ (bump_status_wf b h h1 h2)]
          simp [fitsCount, Budget.bump]
        · simp [h1, h2]
      · simp [h1]
    · simp only [fits, hc, increment_read_wf b h]
      have e1 : countStatus (f :: w) = countStatus w := by simp [countStatus, hc]
      have e2 : countRead (f :: w) = countRead w + 1 := by simp [countRead, hc]
      simp only [fitsCount, List.length_cons, e1, e2]
      rw [room_succ w.length b.total, room_succ (countRead w) b.read]
      by_cases h1 : room 1 b.total = true
      · by_cases h2 : room 1 b.read = true
        · simp only [h1, h2, Bool.and_self, if_true]
          rw [ih _ (bump_read_wf b h h1 h2)]
          simp [fitsCount, Budget.bump]
        · simp [h1, h2]
      · simp [h1]

end S3
