"""C13 - applying calibration: composition, invalid-gain handling, invertibility.

Drives the real `calc_correction` (-> `calc_correction_per_corrprod`, `_correction_block`), the three
numba kernels and dask `elemwise` exactly as `VisibilityDataV4._make_corrected` wires them, the
`add_applycal_sensors` -> correction pipeline for the round trip, and (last) a synthetic v4 data set
opened with `applycal=`.  The oracle is the compiled Lean model `kd_c13` (Driver/C13.lean):
`specByLabel` (the pointwise product over the selected products of c(label1) * conj c(label2)) and
the mirror (`calcCorrection` + `assemble` over the same chunking).
"""
import json
import math
import os
import struct
import warnings

import logging

import dask
import dask.array as da
import numpy as np

from harness import common

logging.getLogger('katdal').setLevel(logging.ERROR)

RULE = ('corr cases = (2-6 input labels incl. labels whose sort order differs from their natural order, '
        '1-7 correlation products as shuffled random label pairs, 1-5 dumps, 1-8 data channels, 1-2 cal '
        'streams with their own channel count / frequencies (equal, close within 1 mHz, offset, coarser, '
        'finer, ties), 0-4 cal products in random order with repeats, unknown and dot-less names, '
        'per-product corrections of 1 / n_data / n_cal channels held as CategoricalData or ndarray '
        'sensors, values complex64 with NaN / +-inf / 0 / subnormal, missing sensors with and without '
        'skip_missing, random (T,F,B) chunking, a second chunking, a random sub-selection, stored '
        'vis/weights/flags with special values pushed through dask elemwise + the numba kernels). '
        'non-trivial = at least one product applied and at least one element compared numerically; '
        'distinct = hash of the model request line.  roundtrip cases = known per-input delays, bandpasses '
        'and gains fed through add_applycal_sensors with one solution per dump; restored vis must match '
        'within 2^-17 relative (float32 phase inside complex_interp; measured max 4.4*2^-20).  v4 cases = synthetic MVF4 data set opened with applycal.')
TRUSTED = ['Lean 4.33 kernel', 'axioms: propext, Classical.choice, Quot.sound only',
           'hand-written model KatdalModel/Model/ApplyCal.lean tied to /repo by this differential run',
           'double-precision instantiation (ApplyCalFloat.lean) compared with complex64 within 1e-5 relative; '
           'NaN / number classification compared exactly on results whose intermediates stay in float32 range',
           'dask slicing / elemwise of already computed blocks (C04)']
CHECKER = 'lake build KatdalModel.Props.C13 kd_c13 && lake env lean <#print axioms audit>'

REL = 1e-5
# round trip: np.abs / np.angle of complex64 solutions are evaluated in float32 inside complex_interp, so each
# per-input correction carries a phase error of a few float32 ULP of pi; 2^-17 = 64 eps bounds what was measured
# (max 4.4 * 2^-20 over 3000 cases) with margin.  A wrong conjugate / missing product gives errors of order 1.
RT_BOUND = 2.0 ** -17
PROP = 'C13'


# ------------------------------------------------------------------ S-expression protocol

def fbits(x):
    return 'f:%d' % struct.unpack('>Q', struct.pack('>d', float(x)))[0]


def cbits(z):
    z = complex(z)
    return 'c:%d:%d' % (struct.unpack('>Q', struct.pack('>d', z.real))[0],
                        struct.unpack('>Q', struct.pack('>d', z.imag))[0])


def sstr(s):
    return 's:' + '.'.join(str(ord(c)) for c in s)


def sx(items):
    return '( ' + ' '.join(items) + ' )' if items else '( )'


def parse_reply(s):
    """-> nested python lists of atoms (strings)."""
    toks = s.split(' ')
    stack = [[]]
    for t in toks:
        if t == '':
            continue
        if t == '(':
            stack.append([])
        elif t == ')':
            top = stack.pop()
            stack[-1].append(top)
        else:
            stack[-1].append(t)
    return stack[0]


def unbits(n):
    return struct.unpack('>d', struct.pack('>Q', int(n)))[0]


def atom_str(a):
    body = a[2:]
    return ''.join(chr(int(c)) for c in body.split('.')) if body else ''


def atom_cf(a):
    """-> (complex, tainted)"""
    p = a.split(':')
    return complex(unbits(p[1]), unbits(p[2])), (len(p) > 3 and p[3] == '1')


def atom_f(a):
    return unbits(a.split(':')[1])


# ------------------------------------------------------------------ value generation

SPECIALS = [complex(np.nan, np.nan), complex(np.nan, 1.0), complex(1.0, np.nan), complex(np.inf, 0.0),
            complex(-np.inf, 0.0), complex(0.0, np.inf), 0j, complex(-0.0, 0.0), complex(1e-40, 0.0),
            complex(0.0, -1e-42), complex(np.nan, np.nan), 0j]


def rand_c64(rng, special=0.0):
    if rng.random() < special:
        return complex(np.complex64(rng.choice(SPECIALS)))
    mag = 2.0 ** rng.uniform(-3, 3)
    ph = rng.uniform(-math.pi, math.pi)
    return complex(np.complex64(mag * complex(math.cos(ph), math.sin(ph))))


def enc_c(z):
    return [float(z.real), float(z.imag)]


def dec_c(p):
    return complex(p[0], p[1])


LABEL_POOL = ['m000h', 'm000v', 'm001h', 'm001v', 'm010h', 'm002v', 'a9', 'a10', 'B1', 'b1', 'm0h', 'Z', 'a']
TYPES = ['K', 'B', 'G', 'GPHASE', 'GAMP_PHASE']


def random_chunks(rng, n, max_chunks=3):
    k = rng.randint(1, min(max_chunks, n))
    cuts = sorted(rng.sample(range(1, n), k - 1)) if k > 1 else []
    edges = [0] + cuts + [n]
    return [b - a for a, b in zip(edges[:-1], edges[1:])]


def gen_freqs(rng, F):
    """data channel frequencies in Hz, multiples of 2^-12 Hz so that every difference is exact."""
    base = rng.choice([1e9, 856e6, 1284e6, 4096.0])
    step = rng.choice([1e6, 208984.375, 4096.0, 26123.046875])
    return [base + k * step for k in range(F)], step


def gen_cal_freqs(rng, data_freqs, step):
    F = len(data_freqs)
    r = rng.random()
    q = 2.0 ** -12
    if r < 0.2:
        return list(data_freqs)
    if r < 0.35:       # same length, within the 1 mHz tolerance (up to 4 quanta of 2^-12 Hz = 0.98 mHz)
        return [f + rng.choice([-4, -2, 0, 1, 4]) * q for f in data_freqs]
    if r < 0.5:        # same length, just outside the tolerance / clearly offset
        off = rng.choice([5 * q, -5 * q, step / 2, step, -step / 4, 3 * step])
        return [f + off for f in data_freqs]
    C = rng.choice([1, 2, 3, max(1, F // 2), F + 1, 2 * F, rng.randint(1, 9)])
    cstep = step * F / C if rng.random() < 0.6 else step * rng.choice([0.5, 1.0, 2.0, 1.5])
    base = data_freqs[0] + rng.choice([0.0, -step / 2, step / 2, step / 4, -cstep, cstep / 2])
    return [base + k * cstep for k in range(C)]


def gen_case(rng, special=0.12):
    n_in = rng.randint(2, 6)
    labels = rng.sample(LABEL_POOL, n_in)
    B = rng.randint(1, 7)
    corrprods = [[rng.choice(labels), rng.choice(labels)] for _ in range(B)]
    T = rng.randint(1, 5)
    F = rng.randint(1, 8)
    data_freqs, step = gen_freqs(rng, F)
    streams = {}
    for s in rng.sample(['l1', 'l2', 'cal.x'], rng.choice([1, 1, 2])):
        streams[s] = gen_cal_freqs(rng, data_freqs, step)
    avail = [s + '.' + t for s in streams for t in TYPES]
    nprod = rng.choice([0, 1, 1, 2, 2, 3, 4])
    products = [rng.choice(avail) for _ in range(nprod)]
    if rng.random() < 0.08:
        products.insert(rng.randint(0, len(products)), rng.choice(['l1.UNKNOWN', 'nostream.G', 'INVALID']))
    used = sorted({l for cp in corrprods for l in cp})
    sensors = []
    sp = special if rng.random() < 0.8 else 0.0
    for name in sorted(set(products)):
        if '.' not in name or name.rsplit('.', 1)[0] not in streams or name.endswith('UNKNOWN'):
            continue
        C = len(streams[name.rsplit('.', 1)[0]])
        n = rng.choice([1, F, C, C])
        kind = rng.choice(['array', 'cat'])
        events = sorted(set([0] + [rng.randint(0, T - 1) for _ in range(rng.randint(0, 2))])) + [T]
        for inp in used:
            if kind == 'array':
                vecs = [[enc_c(rand_c64(rng, sp)) for _ in range(n)] for _ in range(T)]
                sensors.append(dict(name=name, inp=inp, kind='array', vecs=vecs))
            else:
                vecs = [[enc_c(rand_c64(rng, sp)) for _ in range(n)] for _ in range(len(events) - 1)]
                sensors.append(dict(name=name, inp=inp, kind='cat', events=events, vecs=vecs,
                                    scalar=(n == 1 and rng.random() < 0.5)))
    skip = rng.random() < 0.5
    if sensors and rng.random() < 0.12:
        sensors.pop(rng.randrange(len(sensors)))
    chunks = [random_chunks(rng, T), random_chunks(rng, F), random_chunks(rng, B, 2) if rng.random() < 0.2 else [B]]
    chunks2 = [random_chunks(rng, T), random_chunks(rng, F), [B]]
    sel = None
    if rng.random() < 0.7:
        def one(n):
            r = rng.random()
            if r < 0.3:
                return ['s', None, None, None]
            if r < 0.7:
                a = rng.randint(0, n - 1)
                return ['s', a, rng.randint(a, n), rng.choice([None, 1, 2])]
            if r < 0.85:
                return ['i', rng.randint(0, n - 1)]
            return ['l', sorted(rng.sample(range(n), rng.randint(1, n)))]
        sel = [one(T), one(F), one(B)]
        seen_list = False
        for k in range(3):
            if sel[k][0] == 'l':
                if seen_list:
                    sel[k] = ['s', None, None, None]
                seen_list = True
    nel = T * F * B
    data = dict(vis=[enc_c(rand_c64(rng, 0.1)) for _ in range(nel)],
                weights=[float(np.float32(rng.choice([0.0, 1.0, 2.5, 255.0, rng.uniform(0, 4), float('nan'),
                                                      float('inf')]))) for _ in range(nel)],
                flags=[rng.randrange(256) for _ in range(nel)])
    return dict(kind='corr', T=T, F=F, corrprods=corrprods, data_freqs=data_freqs, streams=streams,
                products=products, skip=skip, sensors=sensors, chunks=chunks, chunks2=chunks2, sel=sel, data=data)


# ------------------------------------------------------------------ implementation side

def sensor_dumps(s, T):
    """per-dump list of vectors (list of complex) -- what the code indexes with `sensor[dump]`"""
    if s['kind'] == 'array':
        return [[dec_c(p) for p in v] for v in s['vecs']]
    out = [None] * T
    ev = s['events']
    for k in range(len(ev) - 1):
        for d in range(ev[k], ev[k + 1]):
            out[d] = [dec_c(p) for p in s['vecs'][k]]
    return out


def build_cache(case):
    from katdal.categorical import CategoricalData, ComparableArrayWrapper
    from katdal.sensordata import SensorCache
    T = case['T']
    cache = SensorCache({}, timestamps=np.arange(T, dtype=float), dump_period=1.0)
    for s in case['sensors']:
        stream, ptype = s['name'].rsplit('.', 1)
        key = f'Calibration/Corrections/{stream}/{ptype}/{s["inp"]}'
        if s['kind'] == 'array':
            cache[key] = np.array([[dec_c(p) for p in v] for v in s['vecs']], dtype=np.complex64)
        else:
            vals = []
            for v in s['vecs']:
                arr = np.array([dec_c(p) for p in v], dtype=np.complex64)
                if s.get('scalar'):
                    arr = arr.reshape(())
                vals.append(ComparableArrayWrapper(arr))
            cache[key] = CategoricalData(vals, s['events'])
    return cache


def py_index(ix):
    if ix[0] == 's':
        return slice(ix[1], ix[2], ix[3])
    if ix[0] == 'i':
        return ix[1]
    return list(ix[1])


def run_impl(case):
    from katdal.applycal import (apply_flags_correction, apply_vis_correction, apply_weights_correction,
                                 calc_correction)
    T, F = case['T'], case['F']
    B = len(case['corrprods'])
    res = dict(err=None)
    try:
        cache = build_cache(case)
        cps = [tuple(cp) for cp in case['corrprods']]
        freqs = np.array(case['data_freqs'])
        cal_freqs = {k: np.array(v) for k, v in case['streams'].items()}
        chunks = tuple(tuple(c) for c in case['chunks'])
        with dask.config.set(scheduler='synchronous'), warnings.catch_warnings():
            warnings.simplefilter('ignore')
            finals, corr = calc_correction(chunks, cache, cps, list(case['products']), freqs, cal_freqs,
                                           case['skip'])
            res['finals'] = list(finals)
            if corr is None:
                res['corr'] = None
                return res
            full = corr.compute()
            res['corr'] = full
            res['dtype'] = str(full.dtype)
            res['shape'] = tuple(full.shape)
            chunks2 = tuple(tuple(c) for c in case['chunks2'])
            _, corr2 = calc_correction(chunks2, cache, cps, list(case['products']), freqs, cal_freqs,
                                       case['skip'])
            res['corr2'] = corr2.compute()
            if case['sel'] is not None:
                ix = tuple(py_index(i) for i in case['sel'])
                res['sub'] = np.asarray(corr[ix].compute())
                res['sub_ref'] = full[np.ix_(*[np.arange(n)[np.atleast_1d(i) if not isinstance(i, slice) else i]
                                               for n, i in zip((T, F, B), ix)])]
                # integer axes are dropped by dask; drop them in the reference too
                drop = tuple(0 if isinstance(i, int) else slice(None) for i in ix)
                res['sub_ref'] = res['sub_ref'][drop]
            # the wiring of VisibilityDataV4._make_corrected
            d = case['data']
            vis = np.array([dec_c(p) for p in d['vis']], dtype=np.complex64).reshape(T, F, B)
            wts = np.array(d['weights'], dtype=np.float32).reshape(T, F, B)
            flg = np.array(d['flags'], dtype=np.uint8).reshape(T, F, B)
            dchunks = corr.chunks
            out = {}
            for nm, fn, arr in (('vis', apply_vis_correction, vis), ('weights', apply_weights_correction, wts),
                                ('flags', apply_flags_correction, flg)):
                darr = da.from_array(arr, chunks=dchunks)
                o = da.core.elemwise(fn, darr, corr, dtype=arr.dtype)
                out[nm] = o.compute()
                out[nm + '_direct'] = fn(arr, full)
                out[nm + '_in'] = arr
            res['applied'] = out
    except Exception as e:   # noqa: BLE001
        res['err'] = type(e).__name__
        res['errmsg'] = str(e)[:200]
    return res


# ------------------------------------------------------------------ model side

def request_line(case):
    T = case['T']
    st = []
    for s in case['sensors']:
        dumps = sensor_dumps(s, T)
        st.append(sx([sstr(s['name']), sstr(s['inp']), sx([sx([cbits(z) for z in v]) for v in dumps])]))
    cps = sx([sx([sstr(a), sstr(b)]) for a, b in case['corrprods']])
    names = sx([sstr(n) for n in case['products']])
    df = sx([fbits(f) for f in case['data_freqs']])
    cft = sx([sx([sstr(k), sx([fbits(f) for f in v])]) for k, v in case['streams'].items()])
    return ' '.join(['calc', sx(st), cps, names, df, cft, '1' if case['skip'] else '0',
                     sx([str(c) for c in case['chunks'][0]]), sx([str(c) for c in case['chunks'][1]])])


def decode_arr3(node):
    vals = np.array([[[atom_cf(a)[0] for a in row] for row in plane] for plane in node], dtype=np.complex128)
    taint = np.array([[[atom_cf(a)[1] for a in row] for row in plane] for plane in node], dtype=bool)
    return vals, taint


def isnan_c(a):
    return np.isnan(a.real) | np.isnan(a.imag)


def compare_corr(impl, spec, taint, what='correction'):
    """-> (violation text or None, number of numerically compared elements)"""
    if impl.shape != spec.shape:
        return f'{what} shape {impl.shape} != {spec.shape}', 0
    ok = ~taint
    sn = isnan_c(spec)
    im_n = isnan_c(impl)
    bad = ok & (sn != im_n)
    if bad.any():
        idx = tuple(int(i) for i in np.argwhere(bad)[0])
        if sn[idx]:
            return (f'{what} at (t,f,b)={idx} is {impl[idx]} but a contributing solution is NaN '
                    f'(factor must be NaN)'), 0
        return f'{what} at (t,f,b)={idx} is NaN but the product of the selected corrections is {spec[idx]}', 0
    num = ok & ~sn
    with np.errstate(all='ignore'):
        err = np.abs(impl.astype(np.complex128) - spec)
        tol = REL * np.abs(spec) + 1e-30
    bad = num & ~(err <= tol)
    if bad.any():
        idx = tuple(int(i) for i in np.argwhere(bad)[0])
        return (f'{what} at (t,f,b)={idx} is {impl[idx]}, expected prod_p c_p(in1)*conj(c_p(in2)) = '
                f'{spec[idx]} (rel err {err[idx] / max(abs(spec[idx]), 1e-300):.3g})'), 0
    return None, int(num.sum())


def kernel_model(applied, corr):
    """Run the Lean kernels on the implementation's own correction values."""
    vis = applied['vis_in'].ravel()
    wts = applied['weights_in'].ravel()
    flg = applied['flags_in'].ravel()
    c = corr.ravel()
    line = ' '.join(['kern', sx([cbits(z) for z in vis]), sx([fbits(w) for w in wts]),
                     sx([str(int(f)) for f in flg]), sx([cbits(z) for z in c])])
    rep = common.run_model(PROP, [line])[0]
    node = parse_reply(rep)
    if node[0] != 'ok':
        raise common.Broken('kernel model reply: ' + rep[:200])
    mv = np.array([atom_cf(a)[0] for a in node[1]], dtype=np.complex128)
    mt = np.array([atom_cf(a)[1] for a in node[1]], dtype=bool)
    mw = np.array([atom_f(a) for a in node[2]])
    mf = np.array([int(a) for a in node[3]], dtype=np.int64)
    return mv, mt, mw, mf


def wild(a):
    """values outside the range in which float32 and double arithmetic agree to rounding"""
    with np.errstate(all='ignore'):
        m = np.maximum(np.abs(np.real(a)), np.abs(np.imag(a)))
        return np.isinf(m) | ((m != 0) & ((m > 1e18) | (m < 1e-18)))


def compare_kernels(applied, corr):
    shape = corr.shape
    mv, mt, mw, mf = kernel_model(applied, corr)
    mv, mt, mw, mf = mv.reshape(shape), mt.reshape(shape), mw.reshape(shape), mf.reshape(shape)
    cn = isnan_c(corr)
    cw = wild(corr)
    for variant in ('', '_direct'):
        vis, wts, flg = applied['vis' + variant], applied['weights' + variant], applied['flags' + variant]
        vin, win, fin = applied['vis_in'], applied['weights_in'], applied['flags_in']
        tag = 'dask elemwise' if not variant else 'direct kernel call'
        # flags: exact
        if not np.array_equal(flg.astype(np.int64), mf):
            idx = tuple(int(i) for i in np.argwhere(flg.astype(np.int64) != mf)[0])
            return (f'flags ({tag}) at {idx}: got {int(flg[idx])}, stored {int(fin[idx])}, factor {corr[idx]}: '
                    f'expected {int(mf[idx])} (postproc raised iff factor is NaN, other bits unchanged)')
        # vis where factor is NaN: bit-identical to stored
        same = (vis.view(np.uint32) == vin.view(np.uint32)).reshape(shape + (2,)).all(axis=-1) \
            if vis.dtype == np.complex64 else (vis == vin)
        bad = cn & ~same
        if bad.any():
            idx = tuple(int(i) for i in np.argwhere(bad)[0])
            return f'vis ({tag}) at {idx}: factor is NaN, stored {vin[idx]} became {vis[idx]} (must be left as stored)'
        # vis where factor is a number
        okm = ~cn & ~mt & ~wild(vin) & ~cw
        mn = isnan_c(mv)
        vn = isnan_c(vis)
        bad = okm & (mn != vn)
        if bad.any():
            idx = tuple(int(i) for i in np.argwhere(bad)[0])
            return f'vis ({tag}) at {idx}: stored {vin[idx]} * factor {corr[idx]} gave {vis[idx]}, expected {mv[idx]}'
        with np.errstate(all='ignore'):
            err = np.abs(vis.astype(np.complex128) - mv)
            tol = 4e-7 * np.abs(mv) + 1e-30
        bad = okm & ~mn & ~(err <= tol)
        if bad.any():
            idx = tuple(int(i) for i in np.argwhere(bad)[0])
            return f'vis ({tag}) at {idx}: stored {vin[idx]} * factor {corr[idx]} gave {vis[idx]}, expected {mv[idx]}'
        # weights
        wn = np.isnan(mw)
        gn = np.isnan(wts)
        zero_expected = cn | ((corr.real == 0) & (corr.imag == 0))
        bad = zero_expected & ~((wts == 0) & ~gn)
        if bad.any():
            idx = tuple(int(i) for i in np.argwhere(bad)[0])
            return f'weights ({tag}) at {idx}: factor {corr[idx]} is NaN or zero, weight {win[idx]} became {wts[idx]} (must be 0)'
        okw = ~zero_expected & ~cw & ~np.isinf(win)
        bad = okw & (wn != gn)
        if bad.any():
            idx = tuple(int(i) for i in np.argwhere(bad)[0])
            return f'weights ({tag}) at {idx}: {win[idx]} / |{corr[idx]}|^2 gave {wts[idx]}, expected {mw[idx]}'
        with np.errstate(all='ignore'):
            err = np.abs(wts.astype(np.float64) - mw)
            tol = 4e-7 * np.abs(mw) + 1e-37
        bad = okw & ~wn & ~(err <= tol)
        if bad.any():
            idx = tuple(int(i) for i in np.argwhere(bad)[0])
            return f'weights ({tag}) at {idx}: {win[idx]} / |{corr[idx]}|^2 gave {wts[idx]}, expected {mw[idx]}'
    return None


def same_array(a, b):
    """agreement to 2e-6 relative, NaN pattern exact (numpy's SIMD body and scalar tail of the complex multiply
    round differently, so the last bits legitimately depend on the channel-chunk length)"""
    if a.shape != b.shape:
        return False
    an, bn = isnan_c(a), isnan_c(b)
    if not np.array_equal(an, bn):
        return False
    with np.errstate(all='ignore'):
        fin = ~an & np.isfinite(a.real) & np.isfinite(a.imag) & np.isfinite(b.real) & np.isfinite(b.imag)
        err = np.abs(a[fin].astype(np.complex128) - b[fin])
        return bool(np.all(err <= 2e-6 * np.abs(a[fin]) + 1e-37))


def judge(ctx, case, reply, impl):
    """-> (violation text or None, nontrivial)"""
    node = parse_reply(reply)
    if reply.startswith('E:'):
        ctx.tag('model-error-' + reply[2:])
        if impl['err'] is None:
            ctx.advise(f'impl answered a request the model rejects with {reply}: products {case["products"]}')
        return None, False
    if node[0] == 'none':
        ctx.tag('no-products')
        if impl['err'] is not None:
            return f"implementation raised {impl['err']} where no product is applicable (expected corrections None)", False
        if impl['corr'] is not None:
            return 'implementation produced corrections although no product is applicable', False
        return None, False
    if node[0] != 'ok':
        raise common.Broken('model reply: ' + reply[:200])
    finals = [atom_str(a) for a in node[1]]
    cmaps = [c[0] for c in node[2]]
    for c in cmaps:
        ctx.tag('cmap-' + c)
    # annotation used by the known-finding matcher: the distinct nearest-channel tables among applied products
    case['_expand_tables'] = sorted({' '.join(c[1:]) for c in node[2] if c[0] == 'e'})
    ctx.tag(f'products-{len(finals)}')
    mirror_err = None
    if node[3] and isinstance(node[3][0], str):
        mirror_err = node[3][0]
        mirror = mtaint = None
    else:
        mirror, mtaint = decode_arr3(node[3])
    spec, taint = decode_arr3(node[4])
    family = len(case['_expand_tables']) >= 2     # where the coded late binding departs from the intended maps
    if family:
        ctx.tag('two-nearest-channel-tables')
    # does the implementation behave as the mirror (the code as written, late-bound closure included)?
    if impl['err'] is not None:
        case['_impl_matches_mirror'] = mirror_err is not None
    elif impl['corr'] is None or mirror is None:
        case['_impl_matches_mirror'] = False
    else:
        case['_impl_matches_mirror'] = compare_corr(impl['corr'], mirror, mtaint, 'mirror')[0] is None
    if not case['_impl_matches_mirror']:
        ctx.advise(f"implementation differs from the mirror model: products {finals}, cmaps {cmaps}")
    if impl['err'] is not None:
        return f"implementation raised {impl['err']} ({impl.get('errmsg')}) for products {finals}", False
    if impl['corr'] is None:
        return f'implementation returned no corrections, expected products {finals}', False
    if impl['finals'] != finals:
        return f"final_cal_products {impl['finals']} != {finals}", False
    if impl['dtype'] != 'complex64':
        return f"corrections dtype {impl['dtype']}", False
    v, ncmp = compare_corr(impl['corr'], spec, taint)
    if v:
        return v, False
    if taint.any():
        ctx.tag('tainted-elements')
    if isnan_c(spec).any():
        ctx.tag('nan-factor')
    if not family and mirror is not None:
        # mirror vs spec (both double precision, same order of multiplication)
        mv, _ = compare_corr(mirror.astype(np.complex128), spec, taint | mtaint, 'mirror')
        if mv:
            ctx.advise('mirror model differs from spec: ' + mv[:200])
    if not same_array(impl['corr2'], impl['corr']):
        return (f"corrections depend on chunking: chunks {case['chunks'][:2]} vs {case['chunks2'][:2]} differ"), False
    if case['sel'] is not None:
        ctx.tag('subset')
        if impl['sub'].shape != impl['sub_ref'].shape or not same_array(impl['sub'], impl['sub_ref']):
            return f"loading subset {case['sel']} differs from the same elements of the full array", False
    kv = compare_kernels(impl['applied'], impl['corr'])
    if kv:
        return kv, False
    return None, ncmp > 0


def evaluate(ctx, cases):
    lines = [request_line(c) for c in cases]
    replies = common.run_model(PROP, lines)
    bad = []
    for c, line, rep in zip(cases, lines, replies):
        impl = run_impl(c)
        v, nontriv = judge(ctx, c, rep, impl)
        ctx.tag('impl-err' if impl['err'] else 'impl-ok')
        ctx.count(line, nontriv, sample={'products': c['products'], 'corrprods': c['corrprods'][:3],
                                         'T,F': (c['T'], c['F']), 'chunks': c['chunks'],
                                         'streams': {k: len(v) for k, v in c['streams'].items()}})
        if v:
            bad.append((c, v))
    return bad


# ------------------------------------------------------------------ round trip (invertibility)

def gen_roundtrip(rng):
    n_ants = rng.randint(2, 3)
    T = rng.randint(2, 5)
    F = rng.randint(2, 8)
    return dict(kind='roundtrip', n_ants=n_ants, T=T, F=F, seed=rng.randrange(2 ** 31),
                products=rng.choice([['l1.K', 'l1.B', 'l1.G'], ['l1.G', 'l1.K', 'l1.B'], ['l1.B', 'l1.G'],
                                     ['l1.G'], ['l1.K'], ['l1.B', 'l1.K']]),
                chunks=[random_chunks(rng, T), random_chunks(rng, F)])


def run_roundtrip(case):
    """corrupt known data with known per-input K/B/G, calibrate with the same solutions at every dump"""
    import katpoint
    from katdal.applycal import add_applycal_sensors, apply_vis_correction, calc_correction
    from katdal.categorical import CategoricalData, ComparableArrayWrapper
    from katdal.sensordata import SensorCache, SimpleSensorGetter
    from katdal.spectral_window import SpectralWindow
    from katdal.visdatav4 import SENSOR_PROPS
    rs = np.random.RandomState(case['seed'])
    T, F, n_ants = case['T'], case['F'], case['n_ants']
    ants = [f'm{i:03}' for i in range(n_ants)]
    pols = ['v', 'h']
    inputs = [a + p for a in ants for p in pols]
    i1, i2 = np.triu_indices(len(inputs))
    order = rs.permutation(len(i1))
    corrprods = [(inputs[a], inputs[b]) for a, b in zip(i1[order], i2[order])]
    spw = SpectralWindow(1284e6, None, F, sideband=1, bandwidth=856e6 * F / 4096.)
    freqs = spw.channel_freqs
    pol_ant = (len(pols), n_ants)
    delays = rs.uniform(-2e-9, 2e-9, pol_ant)
    bp = (rs.uniform(0.5, 2, (F,) + pol_ant) * np.exp(2j * np.pi * rs.uniform(0, 1, (F,) + pol_ant)))
    bp = bp.astype(np.complex64)
    g = (rs.uniform(0.5, 2, (T,) + pol_ant) * np.exp(2j * np.pi * rs.uniform(0, 1, (T,) + pol_ant)))
    g = g.astype(np.complex64)
    raw = {}
    ts = np.arange(T, dtype=float)
    target = katpoint.Target('gaincal1, radec, 0, -90')
    raw['Observation/target'] = CategoricalData([target], [0, T])
    raw['cal_product_K'] = SimpleSensorGetter(None, np.array([0.0]), np.array([ComparableArrayWrapper(delays)]))
    raw['cal_product_B'] = SimpleSensorGetter(None, np.array([0.0]), np.array([ComparableArrayWrapper(bp)]))
    raw['cal_product_G'] = SimpleSensorGetter(None, ts, np.array([ComparableArrayWrapper(v) for v in g]))
    cache = SensorCache(raw, timestamps=ts, dump_period=1.0, props=SENSOR_PROPS)
    attrs = {'antlist': ants, 'pol_ordering': pols, 'center_freq': spw.centre_freq, 'bandwidth': spw.bandwidth,
             'n_chans': F}
    cal_freqs = add_applycal_sensors(cache, attrs, freqs, 'l1', ['cal'], gaincal_flux=None)
    B = len(corrprods)
    true_vis = (rs.standard_normal((T, F, B)) + 1j * rs.standard_normal((T, F, B))).astype(np.complex64)
    total = np.ones((T, F, len(inputs)), dtype=np.complex128)
    for k, inp in enumerate(inputs):
        a, p = ants.index(inp[:-1]), pols.index(inp[-1])
        if 'l1.K' in case['products']:
            total[:, :, k] *= np.exp(2j * np.pi * delays[p, a] * freqs)[np.newaxis, :]
        if 'l1.B' in case['products']:
            total[:, :, k] *= bp[:, p, a].astype(np.complex128)[np.newaxis, :]
        if 'l1.G' in case['products']:
            total[:, :, k] *= g[:, p, a].astype(np.complex128)[:, np.newaxis]
    idx1 = np.array([inputs.index(cp[0]) for cp in corrprods])
    idx2 = np.array([inputs.index(cp[1]) for cp in corrprods])
    corrupt = (true_vis.astype(np.complex128) * total[:, :, idx1] * np.conj(total[:, :, idx2])).astype(np.complex64)
    chunks = (tuple(case['chunks'][0]), tuple(case['chunks'][1]), (B,))
    with dask.config.set(scheduler='synchronous'):
        finals, corr = calc_correction(chunks, cache, corrprods, list(case['products']), freqs, {'l1': cal_freqs})
        darr = da.from_array(corrupt, chunks=chunks)
        restored = da.core.elemwise(apply_vis_correction, darr, corr, dtype=corrupt.dtype).compute()
    err = np.abs(restored.astype(np.complex128) - true_vis) / np.abs(true_vis)
    return float(err.max()), finals


def eval_roundtrip(ctx, cases):
    bad = []
    for c in cases:
        try:
            err, finals = run_roundtrip(c)
        except Exception as e:   # noqa: BLE001
            bad.append((c, f'round trip raised {type(e).__name__}: {str(e)[:200]}'))
            ctx.count(('rt', c['seed']), False)
            continue
        ctx.tag('roundtrip')
        ctx.extra['roundtrip_max_rel_err'] = max(ctx.extra.get('roundtrip_max_rel_err', 0.0), err)
        ctx.count(('rt', c['seed'], tuple(c['products'])), True)
        if finals != c['products']:
            bad.append((c, f'round trip applied {finals}, requested {c["products"]}'))
        elif not err <= RT_BOUND:
            bad.append((c, f'data corrupted by known {c["products"]} solutions restored only to relative error '
                           f'{err:.3g} > 2^-17'))
    return bad


# ------------------------------------------------------------------ end to end through a v4 data set

def gen_v4(rng, r=None):
    r = rng.random() if r is None else r
    if r < 0.15:
        # self-calibration on two targets observed alternately: one underlying stream per target, merged by time
        return dict(kind='v4', seed=rng.randrange(2 ** 31), T=rng.randint(4, 7), F=rng.randint(2, 5),
                    products=rng.choice(['l2.GPHASE', 'l1.G,l2.GPHASE']), nan_gain=False, l2='two')
    if r < 0.30:
        # "split cal": the bandpass comes in two parts whose solution times differ (one part misses a solution)
        return dict(kind='v4', seed=rng.randrange(2 ** 31), T=rng.randint(3, 6), F=2 * rng.randint(1, 3),
                    products=rng.choice(['l1.B', 'l1.B,l1.G', 'l1.K,l1.B,l1.G']), nan_gain=False, split_b=True)
    if r < 0.42:
        # every gain solution is later than the last dump: the product exists but holds no usable solution
        return dict(kind='v4', seed=rng.randrange(2 ** 31), T=rng.randint(3, 6), F=rng.randint(2, 6),
                    products=rng.choice(['l1.G', 'l1.K,l1.G', 'l1.B,l1.G']), nan_gain=False, late_gain=True)
    if rng.random() < 0.35:
        # a self-calibration (L2) stream next to the L1 stream, with its OWN antenna / polarisation ordering
        return dict(kind='v4', seed=rng.randrange(2 ** 31), T=rng.randint(3, 6), F=rng.randint(2, 6),
                    products=rng.choice(['l2.GPHASE', 'l1.G,l2.GPHASE', 'l2.GPHASE,l1.K']), nan_gain=False, l2=True)
    return dict(kind='v4', seed=rng.randrange(2 ** 31), T=rng.randint(3, 6), F=rng.randint(3, 6),
                products=rng.choice(['l1.G', 'l1.K,l1.G', 'l1.B,l1.G', 'l1.K,l1.B,l1.G', 'G', 'l1']),
                nan_gain=rng.random() < 0.4, zero_gain=rng.random() < 0.4, nan_bp_edges=rng.random() < 0.4)


def run_v4(case):
    """-> violation text or None"""
    import random
    from harness import v4synth
    rng = random.Random(case['seed'])
    rs = np.random.RandomState(case['seed'])
    T, F = case['T'], case['F']
    n_ants = 2
    ants = [f'm{i:03}' for i in range(n_ants)]
    pols = ['h', 'v']
    pol_ant = (len(pols), n_ants)
    delays = rs.uniform(-1e-9, 1e-9, pol_ant)
    bp = (rs.uniform(0.5, 2, (F,) + pol_ant) * np.exp(2j * np.pi * rs.uniform(0, 1, (F,) + pol_ant))).astype(np.complex64)
    g = (rs.uniform(0.5, 2, (T,) + pol_ant) * np.exp(2j * np.pi * rs.uniform(0, 1, (T,) + pol_ant))).astype(np.complex64)
    if case['nan_gain']:
        # a whole solution history invalid for one input: nothing to interpolate from
        g[:, rs.randint(len(pols)), rs.randint(n_ants)] = np.nan
    if case.get('zero_gain'):
        # one solution of one input is exactly zero (a dead signal path): a valid solution whose inverse is not a number
        g[rs.randint(T), rs.randint(len(pols)), rs.randint(n_ants)] = 0
    if case.get('nan_bp_edges'):
        # no bandpass solution in the outermost channels of one input: not extrapolated
        pe, ae = rs.randint(len(pols)), rs.randint(n_ants)
        bp[0, pe, ae] = np.nan
        bp[-1, pe, ae] = np.nan
    bandwidth = float(F) * 1e6
    center = 1284e6
    attrs = {'cal_antlist': ants, 'cal_pol_ordering': pols, 'cal_center_freq': center, 'cal_bandwidth': bandwidth,
             'cal_n_chans': F}
    late = T + 2.0 if case.get('late_gain') else 0.0
    sensors = {'cal_product_K': [(-0.5, delays)], 'cal_product_B': [(-0.4, bp)],
               'cal_product_G': [(float(t) + late, g[t]) for t in range(T)]}
    archived = None
    targets = None
    split = None
    if case.get('split_b'):
        # solution times: -2 (both parts), -1 (lower part only), 2 (both parts again)
        h = F // 2
        sols = [(rs.uniform(0.5, 2, (F,) + pol_ant) * np.exp(2j * np.pi * rs.uniform(0, 1, (F,) + pol_ant)))
                .astype(np.complex64) for _ in range(3)]
        del sensors['cal_product_B']
        attrs['cal_product_B_parts'] = 2
        sensors['cal_product_B0'] = [(-2.0, sols[0][:h]), (-1.0, sols[1][:h]), (2.0, sols[2][:h])]
        sensors['cal_product_B1'] = [(-2.0, sols[0][h:]), (2.0, sols[2][h:])]
        split = (h, sols)
    if case.get('l2') == 'two':
        names = ['tA', 'tB']
        descr = [v4synth.TARGETS[3], v4synth.TARGETS[1]]
        which = [rs.randint(2) for _ in range(T)]
        which[0], which[1] = 0, 1
        if T > 2:
            which[2] = 0                                    # interleaved in time: A B A ...
        targets = [(-1.0, descr[which[0]])] + [(t - 0.5, descr[which[t]]) for t in range(1, T) if which[t] != which[t - 1]]
        l2s = [f'continuum_{n}_selfcal' for n in names]
        l2_ants, l2_pols = ants[::-1], pols[::-1]
        gp = np.exp(2j * np.pi * rs.uniform(0, 1, (T, F) + pol_ant)).astype(np.complex64)    # [t, chan, l2 pol, l2 ant]
        attrs.update({'cal_stream_type': 'sdp.cal', 'continuum_stream_type': 'sdp.continuum_image',
                      'continuum_targets': dict(zip(descr, names)),
                      f'{l2s[0]}_antlist': l2_ants, f'{l2s[0]}_pol_ordering': l2_pols, f'{l2s[0]}_center_freq': center,
                      f'{l2s[0]}_bandwidth': bandwidth, f'{l2s[0]}_n_chans': F})
        for k, l2 in enumerate(l2s):
            sensors[f'{l2}_product_GPHASE'] = [(float(t), gp[t]) for t in range(T) if which[t] == k]
        archived = ['cal', 'continuum']
    elif case.get('l2'):
        l2 = 'continuum_tgt_selfcal'
        l2_ants, l2_pols = ants[::-1], pols[::-1]
        gp = np.exp(2j * np.pi * rs.uniform(0, 1, (T, F) + pol_ant)).astype(np.complex64)    # [t, chan, l2 pol, l2 ant]
        attrs.update({'cal_stream_type': 'sdp.cal', 'continuum_stream_type': 'sdp.continuum_image',
                      'continuum_targets': {v4synth.TARGETS[0]: 'tgt'},
                      f'{l2}_antlist': l2_ants, f'{l2}_pol_ordering': l2_pols, f'{l2}_center_freq': center,
                      f'{l2}_bandwidth': bandwidth, f'{l2}_n_chans': F})
        sensors[f'{l2}_product_GPHASE'] = [(float(t), gp[t]) for t in range(T)]
        archived = ['cal', 'continuum']
    syn = v4synth.make_v4(rng, T=T, F=F, n_ants=n_ants, extra_attrs=attrs, extra_sensors=sensors,
                          center_freq=center, bandwidth=bandwidth, pols='hv', archived_streams=archived,
                          targets=targets, activity=[(-1.0, 'track')] if targets else None,
                          open_kwargs={'applycal': case['products']})
    d = syn.dataset
    with dask.config.set(scheduler='synchronous'):
        vis = d.vis[:]
        flags = d.flags[:]
        weights = d.weights[:]
    applied = list(d.applycal_products)
    stored = syn.stored['correlator_data']
    cps = [tuple(cp) for cp in d.corr_products]
    order = [syn.corrprods.index(cp) for cp in cps]
    stored = stored[:, :, order]
    sflags = syn.stored['flags'][:, :, order]
    freqs = d.channel_freqs
    factor = np.ones((T, F, len(cps)), dtype=np.complex128)

    def per_input(inp):
        a, p = ants.index(inp[:-1]), pols.index(inp[-1])
        c = np.ones((T, F), dtype=np.complex128)
        if 'l1.K' in applied:
            c *= np.exp(-2j * np.pi * delays[p, a] * freqs)[np.newaxis, :]
        if 'l1.B' in applied and split:
            h, sols = split
            for t in range(T):
                if t < 2:
                    # the solution of time -1: its upper part is absent, and a bandpass is not extrapolated
                    c[t, :h] *= 1.0 / sols[1][:h, p, a].astype(np.complex128)
                    c[t, h:] = np.nan
                else:
                    c[t] *= 1.0 / sols[2][:, p, a].astype(np.complex128)
        elif 'l1.B' in applied:
            c *= (1.0 / bp[:, p, a].astype(np.complex128))[np.newaxis, :]
        if 'l1.G' in applied and late:
            c *= np.nan
        elif 'l1.G' in applied:
            with np.errstate(all='ignore'):
                c *= (1.0 / g[:, p, a].astype(np.complex128))[:, np.newaxis]
        if 'l2.GPHASE' in applied:
            a2, p2 = l2_ants.index(inp[:-1]), l2_pols.index(inp[-1])
            c *= 1.0 / gp[:, :, p2, a2].astype(np.complex128)
        return c
    for k, (a, b) in enumerate(cps):
        factor[:, :, k] = per_input(a) * np.conj(per_input(b))
    fn = isnan_c(factor)
    expect = np.where(fn, stored.astype(np.complex128), stored.astype(np.complex128) * np.where(fn, 1, factor))
    if vis.shape != expect.shape:
        return f'v4: vis shape {vis.shape} != {expect.shape}', applied
    err = np.abs(vis - expect)
    if not np.all(err <= 2e-5 * np.abs(expect) + 1e-30):
        idx = tuple(int(i) for i in np.argwhere(~(err <= 2e-5 * np.abs(expect) + 1e-30))[0])
        return (f'v4 data set with applycal={case["products"]!r} (applied {applied}): vis at {idx} is {vis[idx]}, '
                f'stored {stored[idx]} * factor {factor[idx]} = {expect[idx]}'), applied
    postproc = 1 << 7
    if not np.array_equal(flags, (sflags != 0) | fn):
        return f'v4: flags with applycal differ from stored flags OR factor-is-NaN (applied {applied})', applied
    raw = d.source.data.weights
    with dask.config.set(scheduler='synchronous'):
        w0 = np.asarray(raw[:, :, :].compute())[:, :, order]
    with np.errstate(all='ignore'):
        n2 = np.abs(factor) ** 2
        ew = np.where(fn | (n2 == 0), 0.0, w0 / np.where(fn, 1, n2))
    if not np.all(np.abs(weights - ew) <= 2e-5 * np.abs(ew) + 1e-30):
        return f'v4: weights with applycal differ from stored weights / |factor|^2 (applied {applied})', applied
    del postproc
    return None, applied


def run_v4_pair(case):
    """two data sets with the same applycal products (other capture block, other gains) computed in one dask graph:
    each must come out as it does on its own"""
    import random
    from harness import v4synth
    from katdal.lazy_indexer import DaskLazyIndexer
    T, F = case['T'], case['F']
    ds = []
    for k in range(2):
        rs = np.random.RandomState(case['seed'] + k)
        rng = random.Random(case['seed'] + k)
        ants, pols = ['m000', 'm001'], ['h', 'v']
        g = (rs.uniform(0.5, 2, (T, 2, 2)) * np.exp(2j * np.pi * rs.uniform(0, 1, (T, 2, 2)))).astype(np.complex64)
        bp = (rs.uniform(0.5, 2, (F, 2, 2)) * np.exp(2j * np.pi * rs.uniform(0, 1, (F, 2, 2)))).astype(np.complex64)
        attrs = {'cal_antlist': ants, 'cal_pol_ordering': pols, 'cal_center_freq': 1284e6, 'cal_bandwidth': F * 1e6,
                 'cal_n_chans': F}
        sensors = {'cal_product_G': [(float(t), g[t]) for t in range(T)], 'cal_product_B': [(-0.4, bp)]}
        same = case['same_cbid']
        syn = v4synth.make_v4(rng, T=T, F=F, n_ants=2, extra_attrs=attrs, extra_sensors=sensors, center_freq=1284e6,
                              bandwidth=F * 1e6, pols='hv', open_kwargs={'applycal': case['products']},
                              cbid='1234567890' if same else f'123456789{k}', seed=5 if same else None,
                              shuffle_bls=False, chunks={} if False else None)
        ds.append(syn.dataset)
        if case.get('reopen'):
            # the same capture block (same telstate, same store, hence the same stored dask arrays) opened a second
            # time with another choice of products
            from katdal.datasources import TelstateDataSource, view_l0_capture_stream
            from katdal.visdatav4 import VisibilityDataV4
            view, cbid_out, sn = view_l0_capture_stream(syn.telstate, syn.cbid, syn.stream)
            src = TelstateDataSource(view, cbid_out, sn, chunk_store=syn.store)
            ds.append(VisibilityDataV4(src, applycal=case['reopen']))
            break
    with dask.config.set(scheduler='synchronous'):
        for what in ('vis', 'weights', 'flags'):
            a, b = getattr(ds[0], what), getattr(ds[1], what)
            alone = [np.asarray(a[:]), np.asarray(b[:])]
            joint = da.compute(a.dataset, b.dataset)
            got = DaskLazyIndexer.get([a, b], np.s_[:, :, :])
            for k in range(2):
                if not same_array(alone[k], np.asarray(joint[k])) or not same_array(alone[k], np.asarray(got[k])):
                    return (f'two data sets opened with applycal={case["products"]!r}'
                            f'{" and " + repr(case["reopen"]) + " on the same capture block" if case.get("reopen") else ""}'
                            f' and computed in one dask graph: '
                            f'{what} of data set {k} differs from what it is when computed on its own (the corrections '
                            f'of the other data set were applied)'), list(ds[0].applycal_products)
    return None, list(ds[0].applycal_products)


def eval_v4(ctx, cases):
    bad = []
    for c in cases:
        try:
            v, applied = run_v4_pair(c) if c.get('pair') else run_v4(c)
        except Exception as e:   # noqa: BLE001
            import traceback
            ctx.advise('v4 end-to-end case could not be built: ' + traceback.format_exc()[-300:])
            ctx.tag('v4-unbuildable')
            ctx.count(('v4', c['seed']), False)
            continue
        ctx.tag('v4', 'v4-applied-%d' % len(applied))
        ctx.count(('v4', c['seed'], c['products']), bool(applied))
        if v:
            bad.append((c, v))
    return bad


# ------------------------------------------------------------------ shrinking, driver

def fails(ctx_proto, case):
    ctx = common.Ctx(ctx_proto.prop, ctx_proto.tier, ctx_proto.seed)
    try:
        return bool(eval_any(ctx, [case]))
    except Exception:   # noqa: BLE001
        return False


def eval_any(ctx, cases):
    bad = []
    corr = [c for c in cases if c['kind'] == 'corr']
    if corr:
        bad += evaluate(ctx, corr)
    bad += eval_roundtrip(ctx, [c for c in cases if c['kind'] == 'roundtrip'])
    bad += eval_v4(ctx, [c for c in cases if c['kind'] == 'v4'])
    return bad


def shrink(ctx, case, what):
    if case['kind'] != 'corr':
        return case, what
    cur = json.loads(json.dumps(case))

    def attempt(cand):
        nonlocal cur
        if fails(ctx, cand):
            cur = cand
            return True
        return False
    attempt(dict(cur, sel=None))
    attempt(dict(cur, chunks=[[cur['T']], [cur['F']], [len(cur['corrprods'])]]))
    attempt(dict(cur, chunks2=[[cur['T']], [cur['F']], [len(cur['corrprods'])]]))
    if len(cur['products']) > 1:
        keep = common.ddmin(cur['products'], lambda ps: fails(ctx, dict(cur, products=ps)))
        cur = dict(cur, products=keep)
    names = set(cur['products'])
    attempt(dict(cur, sensors=[s for s in cur['sensors'] if s['name'] in names]))
    if len(cur['corrprods']) > 1:
        nel = cur['T'] * cur['F']

        def with_cps(idx):
            B = len(cur['corrprods'])
            d = cur['data']

            def pick(arr):
                a = np.array(arr, dtype=object).reshape(nel, B, -1)[:, idx]
                return [x if len(x) > 1 else x[0] for x in a.reshape(nel * len(idx), -1).tolist()]
            return dict(cur, corrprods=[cur['corrprods'][i] for i in idx], sel=None,
                        chunks=[cur['chunks'][0], cur['chunks'][1], [len(idx)]],
                        chunks2=[cur['chunks2'][0], cur['chunks2'][1], [len(idx)]],
                        data=dict(vis=pick(d['vis']), weights=pick(d['weights']), flags=pick(d['flags'])))
        try:
            keep = common.ddmin(list(range(len(cur['corrprods']))), lambda idx: fails(ctx, with_cps(idx)))
            cur = with_cps(keep)
        except Exception:   # noqa: BLE001
            pass
    bad = eval_any(common.Ctx(ctx.prop, ctx.tier, ctx.seed), [cur])
    return cur, (bad[0][1] if bad else what)


def m_expand_closure(case, what):
    """known finding: `calc_correction` builds `lambda g, channels: g[expand[channels]]` inside the product loop;
    `expand` is captured by reference, so every product that needs the nearest-channel map uses the table of the
    *last* such product.  Recognised only when two applied products need different nearest-channel tables, the
    disagreement is in the correction values themselves (or the IndexError of a table too long for another
    product) and the implementation agrees with the mirror model, which reproduces the late binding."""
    return (case.get('kind') == 'corr' and len(case.get('_expand_tables', [])) >= 2
            and case.get('_impl_matches_mirror') is True
            and (what.startswith('correction at') or what.startswith('implementation raised IndexError')))


def m_corrections_name(case, what):
    """calc_correction gave the corrections of every data set the same dask name"""
    return bool(case.get('pair')) and 'computed in one dask graph' in what


MATCHERS = {'c13_expand_closure_shared_between_products': m_expand_closure,
            'c13_corrections_name_shared_between_data_sets': m_corrections_name}


def corpus_cases():
    d = os.path.join(common.VERIF, 'corpus', PROP)
    out = []
    if os.path.isdir(d):
        for nm in sorted(os.listdir(d)):
            out.append(json.load(open(os.path.join(d, nm)))['case'])
    return out


def run(ctx):
    ctx.matchers.update(MATCHERS)
    build = common.build_and_audit(PROP, ctx.tier)
    cases = corpus_cases()
    cases += [gen_case(ctx.rng) for _ in range(ctx.q(360, 12000))]
    cases += [gen_roundtrip(ctx.rng) for _ in range(ctx.q(16, 400))]
    cases += [gen_v4(ctx.rng, r) for r in (0.1, 0.2, 0.35)]     # two-target L2, split bandpass, late gains: always
    cases += [dict(kind='v4', seed=ctx.rng.randrange(2 ** 31), T=ctx.rng.randint(3, 6), F=ctx.rng.randint(3, 6),
                   products='l1.B,l1.G', nan_gain=False, zero_gain=True, nan_bp_edges=True)]
    cases += [dict(kind='v4', pair=True, seed=ctx.rng.randrange(2 ** 31), T=ctx.rng.randint(2, 4), F=ctx.rng.randint(2, 4),
                   products=ctx.rng.choice(['l1.G', 'l1.B,l1.G']), same_cbid=bool(k)) for k in range(2)]
    cases += [dict(kind='v4', pair=True, seed=ctx.rng.randrange(2 ** 31), T=ctx.rng.randint(2, 4), F=ctx.rng.randint(2, 4),
                   products=a, reopen=b, same_cbid=True) for a, b in [ctx.rng.choice([('l1.G', 'l1.B'), ('l1.B,l1.G', 'l1.G'),
                                                                                      ('l1.B', 'l1.B,l1.G')])]]
    cases += [gen_v4(ctx.rng) for _ in range(ctx.q(5, 60))]
    bad = eval_any(ctx, cases)
    if not bad and not build['build_ok']:
        bad = eval_any(ctx, [gen_case(ctx.rng) for _ in range(ctx.q(1500, 12000))])
    for c, v in bad:
        ctx.violation(c, v)
    ctx.assumptions = ['complex64 results are compared with a double-precision model within 1e-5 relative; elements '
                       'whose factors are infinite or leave [1e-18, 1e18] (over/underflow) are outside the property',
                       'each product holds corrections of 1, n_data or n_cal channels for every input and dump '
                       '(what the correction calculators produce)',
                       'dask slices already computed blocks correctly (C04)']
    return common.finish(ctx, build, RULE, CHECKER, TRUSTED, shrink=lambda c, w: shrink(ctx, c, w))


def replay(ctx, rep):
    ctx.matchers.update(MATCHERS)
    build = common.build_and_audit(PROP, 'quick')
    for c, v in eval_any(ctx, [rep['case']]):
        ctx.violation(c, v)
    return common.finish(ctx, build, RULE, CHECKER, TRUSTED)
