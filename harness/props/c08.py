"""C08 - damaged / mismatched chunks and unreachable stores never masquerade as data; atomic NPY put."""
import concurrent.futures
import io
import json
import os
import random
import re
import shutil
import subprocess
import sys
import tempfile

import dask
import dask.array as da
import numpy as np
import requests
import urllib3.exceptions as u3
from urllib3.util.retry import Retry

from harness import chunkzoo as zoo
from harness import common
from harness.fakes3 import FakeS3
from katdal import chunkstore, chunkstore_s3
from katdal.chunkstore import BadChunk, ChunkNotFound, ChunkStore, ChunkStoreError, StoreUnavailable
from katdal.chunkstore_dict import DictChunkStore
from katdal.chunkstore_npy import NpyFileChunkStore
from katdal.chunkstore_s3 import S3ChunkStore, read_array
from katdal.flags import DATA_LOST

RULE = ('reader cases = katdal read_array over a scripted stream (valid NPY 1.0/2.0 blobs of zoo arrays, cut at '
        'random offsets, garbage, flipped bytes, unsupported versions, object dtypes, trailing bytes; random '
        'short-read schedules) against the Lean reader.  truncation cases = every byte offset of a stored chunk '
        'file / S3 object for several dtypes.  payload cases = garbage, wrong dtype, wrong shape, object dtype, '
        'fortran order, trailing bytes on NPY / S3 / dict.  store cases = missing directory, chmod 000 (as an '
        'unprivileged uid), 401 / 403, endpoint down, missing bucket.  table cases = every exception class of the '
        'generated table raised inside each store\'s _standard_errors, get_chunk_or_default/placeholder, '
        'put_chunk_noraise, _raise_for_status for every status 100-599.  load cases = ChunkStoreVisFlagsWeights '
        'over a damaged store.  crash cases = put_chunk under strace: real syscall trace replayed on the model '
        'file system, one run per syscall index with SIGKILL and with an injected error, fresh reader process. '
        'non-trivial = the case exercises a failure path; distinct = hash of the encoded case.')
TRUSTED = ['Lean 4.33 kernel', 'axioms: propext, Classical.choice, Quot.sound only',
           'hand-written model KatdalModel/Model/ChunkStore.lean tied to /repo by this differential run',
           'numpy header parser enters the reader model as an oracle (what it returns on the complete header)',
           'np.load (numpy code) is treated as a black box: only data / error class is compared',
           'rename(2) is atomic (POSIX); power-loss durability is not modelled',
           'strace -P path filtering and fault injection; harness/fakes3.py stands in for an S3 endpoint']
CHECKER = 'lake build KatdalModel.Props.C08 kd_c08 && lake env lean <#print axioms audit>'


def qname(cls):
    return cls.__name__ if cls.__module__ == 'builtins' else f'{cls.__module__}.{cls.__qualname__}'


def hexs(b):
    return bytes(b).hex() or '-'


def is_cse(exc):
    return isinstance(exc, ChunkStoreError)


def family(name_or_cls):
    """The property only speaks about families: missing chunk / store unavailable / bad chunk."""
    if isinstance(name_or_cls, str):
        if name_or_cls == 'none':
            return 'none'
        mod, _, cn = name_or_cls.rpartition('.')
        cls = getattr({'katdal.chunkstore': chunkstore, 'katdal.chunkstore_s3': chunkstore_s3}.get(mod), cn, None)
        if cls is None:
            return name_or_cls
    else:
        cls = name_or_cls
    for fam in (ChunkNotFound, StoreUnavailable, BadChunk):
        if issubclass(cls, fam):
            return fam.__name__
    return qname(cls)


# ------------------------------------------------------------------ A. reader

class SchedStream:
    """A blocking byte source with scripted short reads (mirror of ChunkStore.Stream)."""

    def __init__(self, data, sched):
        self.data, self.pos, self.sched = bytes(data), 0, list(sched)

    def _take(self, size):
        want = size
        if self.sched:
            want = min(size, max(1, self.sched.pop(0)))
        out = self.data[self.pos:self.pos + want]
        self.pos += len(out)
        return out

    def read(self, size=-1):
        if size is None or size < 0:
            size = len(self.data) - self.pos
        return self._take(size)

    def readinto(self, buf):
        view = memoryview(buf)
        if view.nbytes == 0:
            return 0                 # (a zero-size multi-dimensional view cannot be cast to bytes)
        view = view.cast('B')
        out = self._take(view.nbytes)
        view[:len(out)] = out
        return len(out)


def npy_blob(arr, version=(1, 0), allow_pickle=False):
    fp = io.BytesIO()
    np.lib.format.write_array(fp, arr, version=version, allow_pickle=allow_pickle)
    return fp.getvalue()


def header_oracle(data):
    """What numpy's header parser says about the complete header, if the stream holds one."""
    if len(data) < 8 or data[:6] != b'\x93NUMPY':
        return 'bad'
    ver = (data[6], data[7])
    if ver not in ((1, 0), (2, 0)):
        return 'bad'
    nlen = 2 if ver == (1, 0) else 4
    if len(data) < 8 + nlen:
        return 'bad'
    hlen = int.from_bytes(data[8:8 + nlen], 'little')
    if len(data) < 8 + nlen + hlen:
        return 'bad'
    fp = io.BytesIO(data[8:8 + nlen + hlen])
    try:
        import warnings
        with warnings.catch_warnings():
            warnings.simplefilter('ignore')
            if ver == (1, 0):
                shape, fortran, dtype = np.lib.format.read_array_header_1_0(fp)
            else:
                shape, fortran, dtype = np.lib.format.read_array_header_2_0(fp)
    except Exception:   # noqa: BLE001 - numpy also lets tokenize.TokenError etc. out
        return 'bad'
    return f'ok:{dtype.itemsize}:{int(np.prod(shape))}:{int(dtype.hasobject)}'


def gen_reader_case(rng):
    label = rng.choice([z[0] for z in zoo.ZOO if z[0] not in ('M8',)])
    nd = rng.choice([0, 1, 1, 2, 3])
    shape = [rng.randint(0 if rng.random() < 0.1 else 1, 4) for _ in range(nd)]
    return dict(kind='reader', dtype=label, shape=shape, arrseed=rng.getrandbits(32),
                version=rng.choice([1, 1, 2]), fortran=rng.random() < 0.15 and nd >= 2,
                damage=rng.choice(['none', 'cut', 'cut', 'cut', 'garbage', 'flip', 'version', 'object', 'extra',
                                   'hugehdr']),
                dseed=rng.getrandbits(32),
                sched=[rng.choice([1, 1, 2, 3, 5, 8, 64, 10 ** 6]) for _ in range(rng.choice([0, 0, 3, 8, 30]))])


def reader_bytes(case):
    r = random.Random(case['dseed'])
    x = zoo.make_array(random.Random(case['arrseed']), zoo.zoo_dtype(case['dtype']), tuple(case['shape']))
    if case['fortran']:
        x = np.asfortranarray(x)
    b = npy_blob(x, (case['version'], 0))
    d = case['damage']
    if d == 'cut':
        b = b[:r.randint(0, max(0, len(b) - 1))]
    elif d == 'garbage':
        b = bytes(r.getrandbits(8) for _ in range(r.randint(0, 200)))
    elif d == 'flip':
        k = r.randint(0, min(len(b) - 1, 140))
        b = b[:k] + bytes([b[k] ^ (1 << r.randint(0, 7))]) + b[k + 1:]
    elif d == 'version':
        b = b[:6] + bytes([r.choice([0, 3, 1, 2, 255]), r.choice([0, 1, 0, 7])]) + b[8:]
    elif d == 'object':
        b = npy_blob(np.array([1, 'a', None], dtype=object), (case['version'], 0), allow_pickle=True)
    elif d == 'extra':
        b = b + bytes(r.getrandbits(8) for _ in range(r.randint(1, 9)))
    elif d == 'hugehdr':
        # header length field promising more than there is
        b = b[:8] + (60000).to_bytes(2, 'little') + b[10:] if case['version'] == 1 else b[:8] + (
            10 ** 6).to_bytes(4, 'little') + b[12:]
    return x, b


def raw_bytes(arr):
    """The array's memory in storage order, padding bytes of structured dtypes included."""
    arr = np.asarray(arr)
    if arr.ndim > 1 and arr.flags.f_contiguous and not arr.flags.c_contiguous:
        arr = arr.T
    flat = np.ascontiguousarray(arr).reshape(-1)
    if flat.dtype.itemsize == 0 or flat.size == 0:
        return b''
    return flat.view(np.uint8).tobytes()


def run_reader_impl(b, sched):
    try:
        import warnings
        with warnings.catch_warnings():
            warnings.simplefilter('ignore')
            arr = read_array(SchedStream(b, sched))
        return 'ok ' + hexs(raw_bytes(arr)), arr
    except ValueError as e:
        return 'E:ValueError', e
    except u3.IncompleteRead as e:
        return 'E:IncompleteRead', e
    except Exception as e:   # noqa: BLE001
        # numpy's header parser also lets tokenize.TokenError / SyntaxError-like classes out; to
        # the reader they are all "cannot decode" (the store level decides what that must become)
        return 'E:ValueError', e


def judge_reader(ctx, case, reply, x, b):
    # (x, b) are computed once per case: copies of padded structured arrays have undefined padding
    got, obj = run_reader_impl(b, case['sched'])
    ctx.tag('reader-' + case['damage'], 'reader-' + got.split(' ')[0].replace(':', '-'))
    if got == 'E:ValueError' and not isinstance(obj, ValueError):
        ctx.tag('reader-decode-error-' + type(obj).__name__)
    if got.startswith('ok') and case['damage'] == 'cut':
        return f'read_array returned data from a stream cut at {len(b)} bytes'
    if got.startswith('ok') and case['damage'] in ('none', 'extra') and not zoo.same_array(
            np.asarray(obj), x):
        return 'read_array returned an array that differs from the encoded one'
    if got != reply:
        return f'read_array gives {got[:80]}, model {reply[:80]}'
    return None


# ------------------------------------------------------------------ shared environment

class Env:
    def __init__(self):
        self.root = tempfile.mkdtemp(prefix='c08npy')
        os.chmod(self.root, 0o755)
        self.s3 = FakeS3().__enter__()
        self.s3._server.handle_error = lambda *a: None
        self.counter = 0

    def close(self):
        self.s3.__exit__(None, None, None)
        for dp, dn, fn in os.walk(self.root):
            for n in dn:
                try:
                    os.chmod(os.path.join(dp, n), 0o755)
                except OSError:
                    pass
        shutil.rmtree(self.root, ignore_errors=True)

    def fresh(self):
        self.counter += 1
        return self.counter

    def s3store(self, **kw):
        return S3ChunkStore(self.s3.url, timeout=60, retries=Retry(connect=0, read=0, status=0, backoff_factor=0),
                            **kw)


def classify_call(f):
    """-> ('ok', value) | ('exc', exception)"""
    try:
        return 'ok', f()
    except Exception as e:   # noqa: BLE001
        return 'exc', e


def describe(res):
    k, v = res
    if k == 'ok':
        return 'data'
    return f'{type(v).__name__}({"CSE" if is_cse(v) else "not a ChunkStoreError"})'


# ------------------------------------------------------------------ B. truncation at every offset

def gen_trunc_case(rng, backend, label):
    return dict(kind='trunc', backend=backend, dtype=label, shape=[rng.randint(1, 3), rng.randint(1, 4)],
                arrseed=rng.getrandbits(32))


def setup_chunk(env, backend, x, name=None):
    """Store x as the single chunk of a fresh array; returns (store, array name, slices, setter)
    where setter(bytes|None) replaces / removes the stored blob."""
    i = env.fresh()
    slices = tuple(slice(0, n) for n in x.shape)
    if backend == 'npy':
        store = NpyFileChunkStore(env.root)
        name = name or f't{i}/x'
        store.create_array(name)
        store.put_chunk(name, slices, x)
        fn = os.path.join(env.root, ChunkStore.chunk_metadata(name, slices)[0]) + '.npy'

        def setter(b):
            if b is None:
                os.remove(fn)
            else:
                with open(fn, 'wb') as fh:
                    fh.write(b)
        blob = open(fn, 'rb').read()
    else:
        store = env.s3store()
        name = name or f'tb{i}/x'
        store.create_array(name)
        store.put_chunk(name, slices, x)
        key = '/' + ChunkStore.chunk_metadata(name, slices)[0] + '.npy'

        def setter(b):
            if b is None:
                env.s3.objects.pop(key, None)
            else:
                env.s3.objects[key] = b
        blob = env.s3.objects[key]
        # a bucket without any object counts as "store unavailable": keep one bystander in it
        env.s3.objects['/' + name.split('/')[0].replace('_', '-') + '/bystander'] = b'x'
    return store, name, slices, setter, blob


def run_trunc_case(ctx, case, env):
    """All offsets of one stored chunk.  Returns list of (subcase, violation)."""
    x = zoo.make_array(random.Random(case['arrseed']), zoo.zoo_dtype(case['dtype']), tuple(case['shape']))
    store, name, slices, setter, blob = setup_chunk(env, case['backend'], x)
    lines = [f'read {hexs(blob[:k])} - {header_oracle(blob[:k])}' for k in range(len(blob) + 1)]
    model = common.run_model('C08', lines)
    bad = []
    for k in range(len(blob) + 1):
        setter(blob[:k])
        res = classify_call(lambda: store.get_chunk(name, slices, x.dtype))
        sub = dict(case, offset=k, total=len(blob))
        v = None
        m_ok = model[k].startswith('ok')
        if k < len(blob):
            if m_ok:
                raise common.Broken(f'model reads a truncated blob as data at offset {k}')
            if res[0] == 'ok':
                v = f'chunk truncated at byte {k} of {len(blob)} was returned as data'
            elif not is_cse(res[1]):
                v = (f'chunk truncated at byte {k} of {len(blob)} raised {type(res[1]).__name__}, which is '
                     f'neither a missing chunk nor any chunk-store error')
            else:
                # a missing chunk must become the default value, any other store error must propagate
                d = classify_call(lambda: store.get_chunk_or_default(name, slices, x.dtype, 7))
                if isinstance(res[1], ChunkNotFound):
                    if d[0] != 'ok' or d[1].shape != x.shape:
                        v = f'ChunkNotFound at offset {k} was not turned into the default value'
                elif d[0] == 'ok':
                    v = f'{type(res[1]).__name__} at offset {k} was turned into a default value'
        else:
            if not (res[0] == 'ok' and zoo.same_array(res[1], x)):
                v = f'the complete chunk does not read back: {describe(res)}'
        ctx.tag(f"trunc-{case['backend']}-{describe(res)}")
        ctx.count(('trunc', case['backend'], case['dtype'], case['arrseed'], k), k < len(blob),
                  sample={'trunc': case['backend'], 'dtype': case['dtype'], 'offset': k} if k == 1 else None)
        if v:
            bad.append((sub, v))
    return bad


# ------------------------------------------------------------------ C. payloads

PAYLOADS = ['garbage', 'wrongdtype', 'wrongshape', 'object', 'fortran', 'extra', 'missing', 'reqobject',
            'version3', 'byteorder', 'emptyfile', 'hdrflip', 'hdrflip']


def wrong_shape(r, x, same_ndim=False):
    """the elements of `x` (or a few less) stored under ANOTHER shape: size-changing or size-preserving.
    same_ndim: the dict store slices its array with the requested slices, so a different number of dimensions is
    an indexing error there (reported as a missing chunk), not a decodable chunk of the wrong shape"""
    cands = []
    if x.ndim >= 1 and x.shape[-1] > 1:
        cands.append(np.ascontiguousarray(x[..., :-1]))
    cands += [np.ascontiguousarray(x.T), x.reshape(-1), x.reshape(x.shape + (1,)), x.reshape((1,) + x.shape)]
    if x.ndim >= 2:
        cands.append(x.reshape((x.shape[0] * x.shape[1],) + x.shape[2:]))
    cands = [c for c in cands if c.shape != x.shape and (not same_ndim or c.ndim == x.ndim)]
    return cands[r.randrange(len(cands))]


def gen_payload_case(rng):
    be = rng.choice(['npy', 's3', 'dict'])
    pl = rng.choice(PAYLOADS if be != 'dict' else ['wrongdtype', 'wrongshape', 'missing', 'reqobject', 'byteorder',
                                                    'fortran'])
    return dict(kind='payload', backend=be, payload=pl,
                dtype=rng.choice(['u1', 'f4', 'c8', 'i2be', 'rec', 'bool', 'f8']),
                shape=[rng.randint(1, 3), rng.randint(2, 4)], arrseed=rng.getrandbits(32),
                errors=rng.choice([0, 'raise', 'placeholder']))


def other_dtype(dt):
    return np.dtype('<i2') if dt != np.dtype('<i2') else np.dtype('<u2')


def run_payload_case(ctx, case, env):
    r = random.Random(case['arrseed'])
    dt = zoo.zoo_dtype(case['dtype'])
    x = zoo.make_array(r, dt, tuple(case['shape']))
    p, b = case['payload'], case['backend']
    expect = None     # 'data' | 'BadChunk' | 'missing' | 'cse'
    req_dtype = dt
    if b == 'dict':
        slices = tuple(slice(0, n) for n in x.shape)
        name = 'x'
        if p in ('wrongdtype', 'byteorder'):
            y = x.astype(other_dtype(dt)) if dt.kind in 'biufc' and p == 'wrongdtype' else x.view(x.dtype.newbyteorder())
            if y.dtype == x.dtype:
                return None
            store, expect = DictChunkStore(x=y), 'BadChunk'
        elif p == 'wrongshape':
            store, expect = DictChunkStore(x=wrong_shape(r, x, same_ndim=True)), 'BadChunk'
        elif p == 'missing':
            store, expect = DictChunkStore(y=x), 'missing'
        elif p == 'reqobject':
            store, expect, req_dtype = DictChunkStore(x=x), 'BadChunk', np.dtype(object)
        else:
            store, expect = DictChunkStore(x=x), 'data'
    else:
        store, name, slices, setter, blob = setup_chunk(env, b, x)
        if p == 'garbage':
            setter(bytes(r.getrandbits(8) for _ in range(r.randint(1, 300))))
            expect = 'cse'
        elif p == 'emptyfile':
            setter(b'')
            expect = 'cse'
        elif p == 'version3':
            setter(blob[:6] + b'\x03\x00' + blob[8:])
            expect = 'cse'
        elif p == 'hdrflip':
            # one flipped bit inside magic / version / length / header text (never in the body)
            hdr_end = len(blob) - x.nbytes
            k = r.randrange(hdr_end)
            setter(blob[:k] + bytes([blob[k] ^ (1 << r.randint(0, 7))]) + blob[k + 1:])
            expect = 'any-but-foreign'
        elif p == 'wrongdtype':
            if dt.kind not in 'biufc':
                return None
            setter(npy_blob(x.astype(other_dtype(dt))))
            expect = 'BadChunk'
        elif p == 'byteorder':
            y = x.view(x.dtype.newbyteorder())
            if y.dtype == x.dtype:
                return None
            setter(npy_blob(y))
            expect = 'BadChunk'
        elif p == 'wrongshape':
            sv = case.get('shape_variant')
            if sv == 'more_dims':
                y = np.ascontiguousarray(np.stack([x, x], axis=-1))      # leading dimensions as promised, one more
            elif sv == 'fewer_dims':
                y = np.ascontiguousarray(x[..., 0])                       # leading dimensions as promised, one less
            elif sv == 'zero_dims':
                y = np.array(x.ravel()[0])
            else:
                y = wrong_shape(r, x)
            setter(npy_blob(y))
            expect = 'BadChunk'
        elif p == 'object':
            setter(npy_blob(np.array([[1, 'a'], [None, 2]], dtype=object), allow_pickle=True))
            expect = 'cse'
        elif p == 'fortran':
            setter(npy_blob(np.asfortranarray(x)))
            expect = 'data'
        elif p == 'extra':
            setter(blob + b'trailing')
            expect = 'data-or-cse'
        elif p == 'missing':
            setter(None)
            expect = 'missing'
        elif p == 'reqobject':
            expect, req_dtype = 'BadChunk', np.dtype(object)
    res = classify_call(lambda: store.get_chunk(name, slices, req_dtype))
    ctx.tag(f'payload-{b}-{p}-{describe(res)}')
    what = None
    if expect == 'any-but-foreign':
        # decodable to the same elements, decodable to something else (BadChunk), or undecodable
        # (missing chunk / chunk-store error); never other data, never a foreign exception
        # (a flipped bit that still decodes, even to other elements, is outside the property:
        # there is no checksum; "undecodable" means the decoder gives up)
        if res[0] == 'ok':
            ctx.tag('hdrflip-decodes-' + ('same' if zoo.same_array(res[1], x) else 'different'))
        elif res[0] == 'exc' and not is_cse(res[1]):
            what = (f'undecodable payload (hdrflip) raised {type(res[1]).__name__}, which is neither a missing '
                    f'chunk nor a chunk-store error')
    elif res[0] == 'ok' and expect not in ('data', 'data-or-cse'):
        what = f'{p} payload was returned as data'
    elif res[0] == 'ok' and not zoo.same_array(res[1], x):
        what = f'{p} payload read back with different elements'
    elif res[0] == 'exc':
        e = res[1]
        if expect == 'data':
            what = f'a valid chunk ({p}) raised {type(e).__name__}'
        elif expect == 'BadChunk' and not isinstance(e, BadChunk):
            what = f'{p}: raised {type(e).__name__} ({"CSE" if is_cse(e) else "no ChunkStoreError"}), BadChunk is due'
        elif expect == 'missing' and not isinstance(e, ChunkNotFound):
            what = f'missing chunk raised {type(e).__name__}, ChunkNotFound is due'
        elif expect in ('cse', 'data-or-cse') and not is_cse(e):
            what = (f'undecodable payload ({p}) raised {type(e).__name__}, which is neither a missing chunk nor a '
                    f'chunk-store error')
    if what:
        return what
    # through the lazy interface: only a missing chunk may be defaulted
    if req_dtype.hasobject:
        return None
    chunks = tuple((n,) for n in x.shape)
    with dask.config.set(scheduler='synchronous'):
        lazy = classify_call(lambda: store.get_dask_array(name, chunks, dt, errors=case['errors']).compute())
    if res[0] == 'exc' and isinstance(res[1], (BadChunk, StoreUnavailable)) and lazy[0] == 'ok':
        return f'{type(res[1]).__name__} was swallowed by get_dask_array(errors={case["errors"]!r})'
    if res[0] == 'exc' and isinstance(res[1], ChunkNotFound) and case['errors'] == 0:
        if lazy[0] != 'ok' or np.asarray(lazy[1]).shape != x.shape or np.asarray(lazy[1]).tobytes().strip(b'\0'):
            return f'missing chunk was not zero-filled by get_dask_array(errors=0): {describe(lazy)}'
    if res[0] == 'exc' and isinstance(res[1], ChunkNotFound) and case['errors'] == 'raise' and lazy[0] == 'ok':
        return "missing chunk did not raise with errors='raise'"
    return None


# ------------------------------------------------------------------ D. unreachable / unauthorised stores

PERM_CODE = r'''
import warnings; warnings.filterwarnings('ignore')
import json, os, sys
import numpy as np
from katdal.chunkstore import ChunkStoreError
from katdal.chunkstore_npy import NpyFileChunkStore
d = sys.argv[1]
os.setgid(65534); os.setuid(65534)
out = {}
def cls(f):
    try:
        f(); return ['ok', True]
    except Exception as e:
        mro = [c.__name__ for c in type(e).__mro__]
        return [type(e).__name__, mro]
try:
    open(os.path.join(d, 'probe'), 'rb')
    out['bites'] = False
except PermissionError:
    out['bites'] = True
except OSError:
    out['bites'] = True
try:
    s = NpyFileChunkStore(d)
    out['construct'] = ['ok', True]
    out['get'] = cls(lambda: s.get_chunk('x', (slice(0, 3),), np.dtype('int64')))
    out['put'] = cls(lambda: s.put_chunk('x', (slice(3, 6),), np.arange(3)))
    e = s.put_chunk_noraise('x', (slice(3, 6),), np.arange(3))
    out['noraise'] = 'None' if e is None else type(e).__name__
except Exception as e:
    out['construct'] = [type(e).__name__, [c.__name__ for c in type(e).__mro__]]
print('RESULT ' + json.dumps(out))
'''


def run_perm_case(ctx, case, env):
    """chmod 000 on the store directory, exercised by an unprivileged uid in a subprocess."""
    d = tempfile.mkdtemp(prefix='c08perm', dir='/tmp')
    try:
        os.chmod(d, 0o755)
        s = NpyFileChunkStore(d)
        s.create_array('x')
        s.put_chunk('x', (slice(0, 3),), np.arange(3))
        open(os.path.join(d, 'probe'), 'wb').close()
        os.chmod(os.path.join(d, 'x'), 0o777)
        os.chmod(d, 0)
        env2 = dict(os.environ)
        p = subprocess.run([sys.executable, '-c', PERM_CODE, d], capture_output=True, text=True, env=env2,
                           timeout=120)
        m = re.search(r'^RESULT (.*)$', p.stdout, re.M)
        if not m:
            ctx.tag('perm-skipped-no-setuid')
            ctx.advise('chmod 000 case skipped: cannot run as an unprivileged uid here: ' + p.stderr[-200:])
            return None
        out = json.loads(m.group(1))
        if not out.get('bites'):
            ctx.tag('perm-skipped-bits-do-not-bite')
            return None
        ctx.tag('perm-exercised')
        for op in ('construct', 'get', 'put'):
            if op not in out:
                continue
            nm, mro = out[op]
            if nm == 'ok':
                if op == 'construct':
                    continue
                return f'{op}_chunk on a store directory with mode 000 succeeded'
            if 'StoreUnavailable' not in mro:
                return (f'{op} on an NPY store whose directory is unreadable (mode 000) raised {nm}'
                        f'{" (a missing chunk, i.e. zero-filled)" if "ChunkNotFound" in mro else ""}; '
                        f'StoreUnavailable is due')
        return None
    finally:
        os.chmod(d, 0o755)
        shutil.rmtree(d, ignore_errors=True)


def run_store_case(ctx, case, env):
    k = case['what']
    x = np.arange(6, dtype=np.float32).reshape(2, 3)
    sl = (slice(0, 2), slice(0, 3))
    if k == 'npy-missing-dir':
        res = classify_call(lambda: NpyFileChunkStore(os.path.join(env.root, 'no', 'such', 'dir')))
        if res[0] == 'ok' or not isinstance(res[1], StoreUnavailable):
            return f'NpyFileChunkStore on a missing directory: {describe(res)}, StoreUnavailable is due'
        fn = os.path.join(env.root, f'plainfile{env.fresh()}')
        open(fn, 'w').close()
        res = classify_call(lambda: NpyFileChunkStore(fn))
        if res[0] == 'ok' or not isinstance(res[1], StoreUnavailable):
            return f'NpyFileChunkStore on a plain file: {describe(res)}, StoreUnavailable is due'
        return None
    if k == 'npy-perm':
        return run_perm_case(ctx, case, env)
    if k == 'npy-dir-vanished':
        d = tempfile.mkdtemp(prefix='c08gone')
        store = NpyFileChunkStore(d)
        shutil.rmtree(d)
        res = classify_call(lambda: store.get_chunk('x', sl, x.dtype))
        ctx.tag('npy-dir-vanished-' + describe(res))
        if res[0] == 'ok' or not is_cse(res[1]):
            return f'store directory removed after construction: {describe(res)}'
        e = store.put_chunk_noraise('x', sl, x)
        if e is None:
            return 'put into a vanished store directory reported success'
        return None
    # ---- S3
    store, name, slices, setter, blob = setup_chunk(env, 's3', x)
    try:
        if k in ('s3-401', 's3-403'):
            if k == 's3-403':
                env.s3.forbidden = True
            else:
                env.s3.require_token = 'secret'
            for label, f in (('get_chunk', lambda: store.get_chunk(name, slices, x.dtype)),
                             ('put_chunk', lambda: store.put_chunk(name, slices, x)),
                             ('get_chunk_or_default', lambda: store.get_chunk_or_default(name, slices, x.dtype)),
                             ('get_chunk_or_placeholder',
                              lambda: store.get_chunk_or_placeholder(name, slices, x.dtype)),
                             ('create_array', lambda: store.create_array(name)),
                             ('get_dask_array.compute', lambda: store.get_dask_array(
                                 name, ((2,), (3,)), x.dtype).compute(scheduler='synchronous'))):
                res = classify_call(f)
                if res[0] == 'ok' or not isinstance(res[1], StoreUnavailable):
                    return f'{label} with HTTP {k[3:]}: {describe(res)}, StoreUnavailable is due'
            e = store.put_chunk_noraise(name, slices, x)
            if not isinstance(e, StoreUnavailable):
                return f'put_chunk_noraise with HTTP {k[3:]} returned {e!r}'
            return None
        if k == 's3-down':
            dead = S3ChunkStore('http://127.0.0.1:9', timeout=2,
                                retries=Retry(connect=0, read=0, status=0, backoff_factor=0))
            for label, f in (('get_chunk', lambda: dead.get_chunk(name, slices, x.dtype)),
                             ('put_chunk', lambda: dead.put_chunk(name, slices, x)),
                             ('get_chunk_or_default', lambda: dead.get_chunk_or_default(name, slices, x.dtype))):
                res = classify_call(f)
                if res[0] == 'ok' or not isinstance(res[1], StoreUnavailable):
                    return f'{label} with the endpoint down: {describe(res)}, StoreUnavailable is due'
            return None
        if k == 's3-no-bucket':
            # a missing bucket stays an unreachable store however often it is asked (a failed bucket check is
            # not remembered as a success)
            for attempt in range(3):
                res = classify_call(lambda: store.get_chunk('nobucket/x', slices, x.dtype))
                if res[0] == 'ok' or not isinstance(res[1], StoreUnavailable):
                    return (f'get_chunk from a missing bucket, attempt {attempt + 1} on the same store: '
                            f'{describe(res)}, StoreUnavailable is due')
            # a genuinely missing chunk in the populated bucket (remembered as a good bucket) says nothing about
            # a missing bucket whose name merely extends it
            bucket = name.split('/')[0]
            res = classify_call(lambda: store.get_chunk(f'{bucket}/absent', slices, x.dtype))
            if res[0] == 'ok' or not isinstance(res[1], ChunkNotFound) or isinstance(res[1], StoreUnavailable):
                return f'missing chunk in a populated bucket: {describe(res)}, ChunkNotFound is due'
            for longer in (f'{bucket}-flags', f'{bucket}0'):
                res = classify_call(lambda: store.get_chunk(f'{longer}/x', slices, x.dtype))
                if res[0] == 'ok' or not isinstance(res[1], StoreUnavailable):
                    return (f'get_chunk from the missing bucket {longer!r} after a 404 in the populated bucket '
                            f'{bucket!r}: {describe(res)}, StoreUnavailable is due')
            e = store.put_chunk_noraise('nobucket/x', slices, x)
            if not is_cse(e):
                return f'put into a missing bucket returned {e!r}'
            return None
        if k == 's3-status':
            code = case['code']
            key = '/' + ChunkStore.chunk_metadata(name, slices)[0] + '.npy'
            env.s3.script(key, [('status', code)])
            res = classify_call(lambda: store.get_chunk(name, slices, x.dtype))
            want = common.run_model('C08', [f'status {code} -'])[0]
            if res[0] == 'ok':
                return f'HTTP {code} was returned as data'
            got = qname(type(res[1]))
            ctx.tag(f's3-status-{code}-{type(res[1]).__name__}')
            if not is_cse(res[1]):
                return f'HTTP {code} raised {got}, not a chunk-store error'
            if code in (401, 403) and not isinstance(res[1], StoreUnavailable):
                return f'HTTP {code} raised {got}, StoreUnavailable is due'
            if want != 'none' and code not in (500, 502, 503, 504) and family(type(res[1])) != family(want):
                return f'HTTP {code} raised {got}, documented mapping gives the {family(want)} family'
            return None
    finally:
        env.s3.forbidden = False
        env.s3.require_token = None
    raise ValueError(k)


# ------------------------------------------------------------------ E. tables

def make_exc(cls):
    special = {
        'MaxRetryError': lambda: u3.MaxRetryError(None, 'http://x/', 'why'),
        'ReadTimeoutError': lambda: u3.ReadTimeoutError(None, 'http://x/', 'why'),
        'IncompleteRead': lambda: cls(1, 2),
        'UnicodeDecodeError': lambda: UnicodeDecodeError('utf8', b'\xff', 0, 1, 'bad'),
        'InvalidToken': lambda: cls('tok', 'msg'),
    }
    if cls.__name__ in special:
        return special[cls.__name__]()
    try:
        return cls('boom')
    except TypeError:
        return cls()


def table_classes():
    """The classes of the generated table, resolved to Python objects."""
    import http.client
    mods = {'builtins': __import__('builtins'), 'katdal.chunkstore': chunkstore,
            'katdal.chunkstore_s3': chunkstore_s3, 'requests.exceptions': requests.exceptions,
            'urllib3.exceptions': u3, 'http.client': http.client, 'tokenize': __import__('tokenize')}
    src = open(os.path.join(common.LEAN, 'KatdalModel', 'Generated', 'TablesC08.lean')).read()
    body = src[src.index('def excMro'):src.index('def baseErrorMap')]
    names = re.findall(r'^\s*\("([^"]+)", \[', body, re.M)
    out = []
    for n in names:
        mod, _, cn = n.rpartition('.')
        out.append((n, getattr(mods[mod or 'builtins'], cn)))
    return out


class RaisingStore(ChunkStore):
    def __init__(self, exc):
        super().__init__()
        self.exc = exc

    def get_chunk(self, array_name, slices, dtype):
        raise self.exc

    def put_chunk(self, array_name, slices, chunk):
        raise self.exc


def run_table_cases(ctx, env):
    bad = []
    stores = {'base': ChunkStore(), 'npy': NpyFileChunkStore(env.root), 'dict': DictChunkStore(),
              's3': S3ChunkStore('http://127.0.0.1:9')}
    classes = table_classes()
    lines = [f'classify {s} {n}' for s in stores for n, _ in classes]
    lines += [f'swallow default {n}' for n, _ in classes] + [f'swallow placeholder {n}' for n, _ in classes]
    lines += [f'noraise {n}' for n, _ in classes]
    codes = list(range(100, 600))
    lines += [f'status {c} -' for c in codes] + [f'status {c} 409' for c in (409, 404, 200)]
    rep = iter(common.run_model('C08', lines))
    for s, store in stores.items():
        for n, cls in classes:
            want = next(rep)
            exc = make_exc(cls)
            try:
                with store._standard_errors('chunk'):
                    raise exc
            except Exception as e:   # noqa: BLE001
                got = qname(type(e))
            case = dict(kind='table', op='classify', store=s, cls=n)
            ctx.count(('classify', s, n), True, sample=None)
            if got != want:
                bad.append((case, f'{n} raised inside {s} _standard_errors leaves as {got}, model {want}'))
    sl = (slice(0, 2),)
    for which in ('default', 'placeholder'):
        for n, cls in classes:
            want = next(rep)
            st = RaisingStore(make_exc(cls))
            f = (lambda: st.get_chunk_or_default('x', sl, np.uint8)) if which == 'default' else (
                lambda: st.get_chunk_or_placeholder('x', sl, np.uint8))
            res = classify_call(f)
            got = 'swallowed' if res[0] == 'ok' else 'raised'
            case = dict(kind='table', op='swallow-' + which, cls=n)
            ctx.count(('swallow', which, n), True, sample=None)
            if got != want:
                bad.append((case, f'get_chunk_or_{which}: {n} was {got}, model says {want}'))
            # the property itself: only the ChunkNotFound family may be defaulted
            if got == 'swallowed' and not issubclass(cls, ChunkNotFound):
                bad.append((case, f'get_chunk_or_{which} turned {n} into a {which} value'))
    for n, cls in classes:
        want = next(rep)
        st = RaisingStore(make_exc(cls))
        res = classify_call(lambda: st.put_chunk_noraise('x', sl, np.zeros(2, np.uint8)))
        got = 'returned' if res[0] == 'ok' and res[1] is not None else ('raised' if res[0] == 'exc' else 'lost')
        case = dict(kind='table', op='noraise', cls=n)
        ctx.count(('noraise', n), True, sample=None)
        if got == 'lost':
            bad.append((case, f'put_chunk_noraise swallowed {n} and reported success'))
        elif got != want:
            bad.append((case, f'put_chunk_noraise: {n} was {got}, model says {want}'))

    class Resp:
        def __init__(self, code):
            self.status_code, self.reason, self.url, self.headers, self.text = code, 'r', 'u', {}, ''
            self.request = type('R', (), {'method': 'GET'})()
    for c, ign in [(c, ()) for c in codes] + [(409, (409,)), (404, (409,)), (200, (409,))]:
        want = next(rep)
        res = classify_call(lambda: chunkstore_s3._raise_for_status(Resp(c), 'chunk', ign))
        got = 'none' if res[0] == 'ok' else qname(type(res[1]))
        ctx.count(('status', c, ign), c >= 400, sample=None)
        if family(got if res[0] == 'ok' else type(res[1])) != family(want):
            bad.append((dict(kind='table', op='status', code=c), f'_raise_for_status({c}) gives {got}, model {want}'))
        if c in (401, 403) and not (res[0] == 'exc' and isinstance(res[1], StoreUnavailable)):
            bad.append((dict(kind='table', op='status', code=c), f'HTTP {c} gives {got}, StoreUnavailable is due'))
    ctx.tag('table-classes-%d' % len(classes))
    return bad


# ------------------------------------------------------------------ F. loads through ChunkStoreVisFlagsWeights

def gen_load_case(rng):
    return dict(kind='load', backend=rng.choice(['npy', 'npy', 's3']),
                damage=rng.choice(['truncate', 'delete', 'wrongdtype', 'garbage-npy', 'auth', 'wrongshape']),
                array=rng.choice(['correlator_data', 'weights', 'weights_channel', 'flags']),
                seed=rng.getrandbits(32))


def run_load_case(ctx, case, env):
    from katdal.vis_flags_weights import ChunkStoreVisFlagsWeights
    r = random.Random(case['seed'])
    i = env.fresh()
    b = case['backend']
    if case['damage'] == 'auth':
        b = 's3'
    if case['damage'] == 'garbage-npy':
        b = 'npy'
    store = NpyFileChunkStore(env.root) if b == 'npy' else env.s3store()
    prefix = f'cb{i}' if b == 'npy' else f'cbk{i}'
    shape = (4, 8, 3)
    data = {'correlator_data': (np.arange(96, dtype=np.float32).reshape(shape) + 1) * (1 - 1j),
            'flags': np.array([r.getrandbits(3) for _ in range(96)], dtype=np.uint8).reshape(shape),
            'weights': (np.arange(96) % 200 + 1).astype(np.uint8).reshape(shape),
            'weights_channel': (np.arange(32, dtype=np.float32).reshape(shape[:2]) + 1)}
    data['correlator_data'] = data['correlator_data'].astype(np.complex64)
    # the arrays are chunked independently, the baseline axis included
    bl = [r.choice([(3,), (3,), (1, 2), (2, 1)]) for _ in range(3)]
    chunks = {'correlator_data': ((1, 1, 1, 1), (4, 4), bl[0]), 'flags': ((2, 2), (8,), bl[1]),
              'weights': ((1, 1, 1, 1), (4, 4), bl[2]), 'weights_channel': ((1, 1, 1, 1), (8,))}
    info = {}
    with dask.config.set(scheduler='synchronous'):
        for k, arr in data.items():
            nm = store.join(prefix, k)
            store.create_array(nm)
            res = store.put_dask_array(nm, da.from_array(arr, chunks=chunks[k])).compute()
            if any(e is not None for e in np.asarray(res, dtype=object).ravel()):
                raise common.Broken('cannot write the fake data set')
            info[k] = dict(prefix=prefix, chunks=chunks[k], dtype=np.lib.format.dtype_to_descr(arr.dtype),
                           shape=arr.shape)
        # pick one chunk of the chosen array and damage it
        arrname = case['array']
        sls = zoo.chunk_slices(chunks[arrname])
        sl = sls[r.randrange(len(sls))]
        cname = ChunkStore.chunk_metadata(store.join(prefix, arrname), tuple(slice(a, c) for a, c in sl))[0]
        if b == 'npy':
            fn = os.path.join(env.root, cname) + '.npy'
            blob = open(fn, 'rb').read()

            def setter(bb):
                if bb is None:
                    os.remove(fn)
                else:
                    open(fn, 'wb').write(bb)
        else:
            key = '/' + cname + '.npy'
            blob = env.s3.objects[key]

            def setter(bb):
                if bb is None:
                    env.s3.objects.pop(key)
                else:
                    env.s3.objects[key] = bb
        sub = data[arrname][tuple(slice(a, c) for a, c in sl)]
        dmg = case['damage']
        expect = 'lost'
        if dmg == 'truncate':
            setter(blob[:r.randint(1, len(blob) - 1)])
        elif dmg == 'delete':
            setter(None)
        elif dmg == 'wrongdtype':
            setter(npy_blob(sub.astype(np.float64) if sub.dtype.kind != 'c' else sub.astype(np.complex128)))
            expect = 'BadChunk'
        elif dmg == 'wrongshape':
            setter(npy_blob(wrong_shape(r, sub)))
            expect = 'BadChunk'
        elif dmg == 'garbage-npy':
            setter(bytes(r.getrandbits(8) for _ in range(50)))
        elif dmg == 'auth':
            env.s3.forbidden = True
            expect = 'StoreUnavailable'
        try:
            def load():
                vfw = ChunkStoreVisFlagsWeights(store, info)
                return vfw.vis.compute(), vfw.flags.compute(), vfw.weights.compute()
            res = classify_call(load)
        finally:
            env.s3.forbidden = False
    ctx.tag(f'load-{dmg}-{describe(res)}')
    if expect in ('BadChunk', 'StoreUnavailable'):
        cls = BadChunk if expect == 'BadChunk' else StoreUnavailable
        if res[0] == 'ok':
            return f'load over a store with {dmg} damage returned data instead of failing with {expect}'
        if not isinstance(res[1], cls):
            return f'load over a store with {dmg} damage raised {type(res[1]).__name__}, {expect} is due'
        return None
    if res[0] != 'ok':
        if is_cse(res[1]):
            return None     # reported as a chunk-store error: allowed by the property
        return f'load over a {dmg} chunk raised {type(res[1]).__name__}: neither data_lost nor a chunk-store error'
    vis, flags, weights = res[1]
    region = tuple(slice(a, c) for a, c in sl)
    lost = np.zeros(shape, dtype=bool)
    lost[region] = True      # 2-d weights_channel regions broadcast over the baseline axis
    exp_flags = data['flags'].copy()
    if arrname == 'flags':
        exp_flags[region] = DATA_LOST
    else:
        exp_flags[lost] |= DATA_LOST
    exp_vis = data['correlator_data'].copy()
    if arrname == 'correlator_data':
        exp_vis[region] = 0
    if not np.array_equal(vis, exp_vis):
        return f'{dmg} chunk of {arrname}: visibilities are not "stored data, zeros where lost"'
    if not np.array_equal(flags, exp_flags):
        return f'{dmg} chunk of {arrname}: flags are not "stored flags | data_lost exactly on the lost chunk"'
    return None


# ------------------------------------------------------------------ G. atomic put under strace

WRITER = r'''
import warnings; warnings.filterwarnings('ignore')
import os, sys
import numpy as np
from katdal.chunkstore_npy import NpyFileChunkStore
d, direct, n = sys.argv[1], sys.argv[2] == '1', int(sys.argv[3])
s = NpyFileChunkStore(d, direct_write=direct)
x = (np.arange(n, dtype=np.float64) * 3 + 1)
os.write(1, b'READY\n')
err = s.put_chunk_noraise('x', (slice(0, n),), x)
os.write(1, ('PUT %s\n' % ('ok' if err is None else type(err).__name__)).encode())
'''

READER = r'''
import warnings; warnings.filterwarnings('ignore')
import json, os, sys
import numpy as np
from katdal.chunkstore import ChunkNotFound
from katdal.chunkstore_npy import NpyFileChunkStore
n = int(sys.argv[1])
new = (np.arange(n, dtype=np.float64) * 3 + 1)
old = -np.arange(n, dtype=np.float64)
out = {}
for d in sys.argv[2:]:
    s = NpyFileChunkStore(d)
    try:
        y = s.get_chunk('x', (slice(0, n),), np.dtype('float64'))
        out[d] = 'new' if np.array_equal(y, new) else ('old' if np.array_equal(y, old) else 'OTHER-DATA')
    except ChunkNotFound as e:
        out[d] = 'absent' if isinstance(e.__cause__, FileNotFoundError) else 'notfound:' + type(e.__cause__).__name__
    except Exception as e:
        out[d] = 'EXC:' + type(e).__name__
print('RESULT ' + json.dumps(out))
'''

SYSCALLS = 'openat,open,creat,write,pwrite64,writev,rename,renameat,renameat2,ftruncate,truncate,close,unlink,unlinkat,link,linkat'


def have_strace():
    return shutil.which('strace') is not None


def unhex(s):
    return bytes(int(h, 16) for h in re.findall(r'\\x([0-9a-f]{2})', s))


def merge_unfinished(text):
    """Join `call(args <unfinished ...>` with its `<... call resumed>rest` line (strace -f)."""
    pending = {}
    out = []
    for line in text.splitlines():
        m = re.match(r'^(\d+)\s+(.*) <unfinished \.\.\.>$', line)
        if m:
            pending[m.group(1)] = m.group(2)
            continue
        m = re.match(r'^(\d+)\s+<\.\.\. \w+ resumed>(.*)$', line)
        if m and m.group(1) in pending:
            out.append(f'{m.group(1)} {pending.pop(m.group(1))}{m.group(2)}')
            continue
        out.append(line)
    for pid, head in pending.items():      # killed inside the call
        out.append(f'{pid} {head}) = ?')
    return out


def parse_trace(text, tmp, fin):
    """strace -xx output -> list of (token, outcome) for the main writer; outcome in ok|err|killed."""
    ops = []
    fds = {}
    for line in merge_unfinished(text):
        m = re.match(r'^\d+\s+(\w+)\((.*)\)\s+=\s+(\S+)', line)
        if not m:
            continue
        call, args, ret = m.groups()
        outcome = 'killed' if ret == '?' else ('err' if ret.startswith('-') else 'ok')
        if call in ('openat', 'open', 'creat'):
            pm = re.search(r'"((?:\\x[0-9a-f]{2})*)"', args)
            path = unhex(pm.group(1)).decode()
            if path != tmp:
                ops.append((f'X:open:{path}', outcome))
                continue
            if 'O_TRUNC' not in args or 'O_CREAT' not in args:
                ops.append(('X:open-without-trunc', outcome))
                continue
            if outcome == 'ok':
                fds[ret] = True
            ops.append(('O', outcome))
        elif call in ('write', 'pwrite64'):
            am = re.match(r'^(\d+), "((?:\\x[0-9a-f]{2})*)"(\.\.\.)?, (\d+)', args)
            if am.group(3):
                raise common.Broken('strace abbreviated a write buffer')
            data = unhex(am.group(2))
            if outcome == 'ok':
                data = data[:int(ret)]
            ops.append(('W:' + hexs(data), outcome))
        elif call == 'ftruncate':
            ops.append(('T:' + args.split(',')[1].strip(), outcome))
        elif call == 'close':
            ops.append(('C', outcome))
        elif call in ('rename', 'renameat', 'renameat2'):
            paths = [unhex(p).decode() for p in re.findall(r'"((?:\\x[0-9a-f]{2})*)"', args)]
            ops.append(('R' if paths == [tmp, fin] else f'X:rename:{paths}', outcome))
        else:
            ops.append((f'X:{call}', outcome))
    return ops


def run_put(d, direct, inject, tracefile, n_elems):
    tmp = os.path.join(d, 'x', '00000.writing.npy')
    fin = os.path.join(d, 'x', '00000.npy')
    cmd = ['strace', '-f', '-o', tracefile, '-e', f'trace={SYSCALLS}', '-xx', '-s', '1000000', '-P', tmp, '-P', fin]
    if inject:
        cmd += ['-e', f'inject={inject}']
    cmd += [sys.executable, '-c', WRITER, d, '1' if direct else '0', str(n_elems)]
    env = dict(os.environ, OPENBLAS_NUM_THREADS='1', OMP_NUM_THREADS='1', MKL_NUM_THREADS='1')
    p = subprocess.run(cmd, capture_output=True, text=True, env=env, timeout=300)
    m = re.search(r'^PUT (\S+)$', p.stdout, re.M)
    status = m.group(1) if m else ('killed' if 'READY' in p.stdout else 'notstarted')
    return status, open(tracefile).read() if os.path.exists(tracefile) else '', p.stderr[-400:]


def prepare_dir(base, idx, with_old, n_elems):
    d = os.path.join(base, f'run{idx}')
    os.makedirs(os.path.join(d, 'x'))
    if with_old:
        np.save(os.path.join(d, 'x', '00000.npy'), -np.arange(n_elems, dtype=np.float64))
    return d


def run_crash_cases(ctx, direct_modes=(False, True), thorough=False, sizes=None):
    """Returns list of (case, violation)."""
    bad = []
    for n_elems in (sizes or ([5, 700, 40000] if thorough else [700])):
        bad += run_crash_cases_size(ctx, direct_modes, n_elems)
    return bad


def run_crash_cases_size(ctx, direct_modes, n_elems):
    bad = []
    if not have_strace():
        ctx.tag('crash-skipped-no-strace')
        ctx.advise('strace not available: crash-point enumeration skipped')
        return bad
    base = tempfile.mkdtemp(prefix='c08crash')
    try:
        jobs = []
        idx = 0
        old_blob = None
        # 1. plain traces
        plain = {}
        with concurrent.futures.ThreadPoolExecutor(max_workers=4) as ex:
            futs = {}
            for direct in direct_modes:
                for with_old in (False, True):
                    idx += 1
                    d = prepare_dir(base, idx, with_old, n_elems)
                    futs[ex.submit(run_put, d, direct, None, os.path.join(base, f'trace{idx}'), n_elems)] = (
                        direct, with_old, d)
            for f in concurrent.futures.as_completed(futs):
                direct, with_old, d = futs[f]
                st, tr, err = f.result()
                if st == 'notstarted':
                    ctx.tag('crash-skipped-strace-failed')
                    ctx.advise('strace could not run the writer: ' + err)
                    return bad
                plain[(direct, with_old)] = (d, st, tr)
        if old_blob is None:
            fp = io.BytesIO()
            np.save(fp, -np.arange(n_elems, dtype=np.float64))
            old_blob = fp.getvalue()
        runs = []
        for (direct, with_old), (d, st, tr) in plain.items():
            runs.append(dict(direct=direct, with_old=with_old, inject=None, dir=d, status=st, trace=tr))
        # 2. one run per syscall index with KILL and with an error
        for direct in direct_modes:
            d0, st0, tr0 = plain[(direct, True)]
            tmp = os.path.join(d0, 'x', '00000.writing.npy')
            fin = os.path.join(d0, 'x', '00000.npy')
            ops = parse_trace(tr0, tmp, fin)
            counts = {}
            for tok, _ in ops:
                call = {'O': 'openat', 'W': 'write', 'T': 'ftruncate', 'C': 'close', 'R': 'rename'}.get(tok[0])
                if call:
                    counts[call] = counts.get(call, 0) + 1
            for call, cnt in counts.items():
                for when in range(1, cnt + 1):
                    errno = 'EIO' if call == 'close' else 'ENOSPC'
                    for inj in (f'{call}:signal=KILL:when={when}', f'{call}:error={errno}:when={when}'):
                        idx += 1
                        with_old = (idx % 3 != 0)
                        jobs.append(dict(direct=direct, with_old=with_old, inject=inj,
                                         dir=prepare_dir(base, idx, with_old, n_elems), trace_file=os.path.join(base, f'trace{idx}')))
        with concurrent.futures.ThreadPoolExecutor(max_workers=14) as ex:
            futs = {ex.submit(run_put, j['dir'], j['direct'], j['inject'], j['trace_file'], n_elems): j for j in jobs}
            for f in concurrent.futures.as_completed(futs):
                j = futs[f]
                st, tr, err = f.result()
                runs.append(dict(j, status=st, trace=tr))
        # 3. one fresh reader process for all directories
        p = subprocess.run([sys.executable, '-c', READER, str(n_elems)] + [r['dir'] for r in runs],
                           capture_output=True, text=True, timeout=300)
        m = re.search(r'^RESULT (.*)$', p.stdout, re.M)
        if not m:
            raise common.Broken('reader process failed: ' + p.stderr[-500:])
        seen = json.loads(m.group(1))
        # 4. judge: property on the real system + real trace replayed on the model file system
        lines = []
        for r in runs:
            tmp = os.path.join(r['dir'], 'x', '00000.writing.npy')
            fin = os.path.join(r['dir'], 'x', '00000.npy')
            r['ops'] = parse_trace(r['trace'], tmp, fin)
            toks = [t for t, o in r['ops'] if o == 'ok' and not t.startswith('X:')]
            r['effective'] = toks
            lines.append(f"fs {hexs(old_blob) if r['with_old'] else 'none'} {' '.join(toks)}".rstrip())
        replies = common.run_model('C08', lines)
        for r, rep in zip(runs, replies):
            case = dict(kind='crash', direct=r['direct'], with_old=r['with_old'], inject=r['inject'], n=n_elems)
            view = seen[r['dir']]
            before = 'old' if r['with_old'] else 'absent'
            v = None
            ctx.tag(f"crash-{'direct' if r['direct'] else 'buffered'}-{(r['inject'] or 'none').split(':')[0]}-"
                    f"{r['status']}-{view}")
            if r['inject'] and 'KILL' in r['inject'] and r['status'] != 'killed':
                ctx.tag('crash-kill-not-delivered')
                ctx.advise(f"strace did not deliver {r['inject']}: this crash point was not exercised")
            if view not in ('new', before):
                v = (f"after a put that ended '{r['status']}' (inject={r['inject']}) a fresh reader sees {view}; "
                     f"only '{before}' or the complete new chunk are allowed")
            elif r['status'] == 'ok' and view != 'new':
                v = f"put_chunk reported success (inject={r['inject']}) but a fresh reader sees {view}"
            elif r['status'] not in ('ok', 'killed') and view == 'new' and not any(
                    t == 'R' and o == 'ok' for t, o in r['ops']):
                v = f"reader sees the new chunk although no rename happened (status {r['status']})"
            elif r['status'] == 'killed' and not (r['inject'] and 'KILL' in r['inject']):
                v = f"writer died without being killed: escaped exception (inject={r['inject']})"
            elif r['status'] not in ('ok', 'killed') and r['status'] not in (
                    'ChunkNotFound', 'StoreUnavailable', 'BadChunk', 'S3ObjectNotFound'):
                v = f"a failed put was reported as {r['status']}, not a chunk-store error"
            elif r['inject'] and 'error=' in r['inject'] and r['status'] == 'ok' and \
                    not (r['inject'].startswith('close') and not r['direct']):
                # (a failing close(2) of the direct-write descriptor is how NFS / quota file systems deliver write-back
                # errors: it must fail the put as a failing write does)
                v = f"an injected {r['inject']} failure was swallowed: put_chunk reported success"
            # correspondence with the model
            bad_tok = [t for t, _ in r['ops'] if t.startswith('X:')]
            mm = re.match(r'^(\w+) tmp=(\S+) fin=(\S+)$', rep)
            if not mm:
                raise common.Broken(f'model driver cannot replay the trace: {rep!r}')
            kind, mtmp, mfin = mm.groups()
            if v is None and bad_tok:
                v = f'real trace contains operations outside the model\'s op language: {bad_tok[:3]}'
            if v is None:
                if r['inject'] is None and kind != 'word':
                    v = f"real trace of a successful put is not a word of the model's op language: {[t[:12] for t in r['effective']]}"
                elif kind == 'no':
                    v = f"real trace is neither a word nor a prefix of the model's op language: {[t[:12] for t in r['effective']]}"
            if v is None:
                tmp = os.path.join(r['dir'], 'x', '00000.writing.npy')
                fin = os.path.join(r['dir'], 'x', '00000.npy')
                dfin = hexs(open(fin, 'rb').read()) if os.path.exists(fin) else 'none'
                dtmp = hexs(open(tmp, 'rb').read()) if os.path.exists(tmp) else 'none'
                if dfin != mfin:
                    v = 'model file system disagrees with the disk about the final name after replaying the real trace'
                elif dtmp != mtmp and not (r['inject'] and 'error=' in r['inject']):
                    v = 'model file system disagrees with the disk about the temp name after replaying the real trace'
            ctx.traces_validated += 1
            ctx.count(('crash', n_elems, r['direct'], r['with_old'], r['inject']), r['inject'] is not None,
                      sample={'crash': r['inject'], 'direct': r['direct'], 'status': r['status'], 'reader': view,
                              'ops': [t[:10] for t, _ in r['ops']]} if r['inject'] and 'when=2' in r['inject'] else None)
            if v:
                bad.append((case, v))
    finally:
        shutil.rmtree(base, ignore_errors=True)
    return bad


# ------------------------------------------------------------------ matchers for known findings

def m_npy_empty_file_eoferror(case, what):
    """NpyFileChunkStore.get_chunk on a 0-byte file -> bare EOFError"""
    if case.get('backend') != 'npy' or 'EOFError' not in what:
        return False
    return ((case.get('kind') == 'trunc' and case.get('offset') == 0)
            or (case.get('kind') == 'payload' and case.get('payload') == 'emptyfile'))


def m_s3_undecodable_valueerror(case, what):
    """S3ChunkStore.get_chunk on an undecodable object -> bare ValueError"""
    return (case.get('kind') == 'payload' and case.get('backend') == 's3'
            and case.get('payload') in ('garbage', 'object', 'version3', 'hdrflip', 'emptyfile')
            and 'raised ValueError' in what)


def m_npy_permission_notfound(case, what):
    """NPY store with unreadable directory -> ChunkNotFound instead of StoreUnavailable"""
    return (case.get('kind') == 'store' and case.get('what') == 'npy-perm' and 'mode 000' in what
            and 'ChunkNotFound' in what)


def m_header_tokenerror(case, what):
    """damaged header text -> numpy lets tokenize.TokenError out, no store maps it"""
    return (case.get('kind') == 'payload' and case.get('payload') == 'hdrflip'
            and ('TokenError' in what or 'SyntaxError' in what))


def m_npy_put_flush_error_swallowed(case, what):
    """direct_write=False: a write error on the final stdio flush inside np.save is swallowed"""
    return (case.get('kind') == 'crash' and case.get('direct') is False
            and str(case.get('inject', '')).startswith('write:error=')
            and ("ended 'ok'" in what or 'reported success' in what))


# ------------------------------------------------------------------ driver

def evaluate(ctx, cases, env):
    bad = []
    readers = [c for c in cases if c['kind'] == 'reader']
    if readers:
        lines = []
        blobs = []
        for c in readers:
            x, b = reader_bytes(c)
            blobs.append((x, b))
            sch = ','.join(map(str, c['sched'])) or '-'
            lines.append(f'read {hexs(b)} {sch} {header_oracle(b)}')
        replies = common.run_model('C08', lines)
        for c, rep, (x, b) in zip(readers, replies, blobs):
            v = judge_reader(ctx, c, rep, x, b)
            ctx.count(json.dumps(c, sort_keys=True), c['damage'] != 'none',
                      sample={'reader': c['damage'], 'model': rep[:40]})
            if v:
                bad.append((c, v))
    for c in cases:
        k = c['kind']
        if k == 'reader':
            continue
        if k == 'trunc':
            bad += run_trunc_case(ctx, c, env)
            continue
        if k == 'tables':
            bad += run_table_cases(ctx, env)
            continue
        if k == 'crashes':
            bad += run_crash_cases(ctx, thorough=c.get('thorough', False))
            continue
        if k == 'crash':
            # replay of one crash case: rerun the family for that mode
            bad += [b for b in run_crash_cases(ctx, direct_modes=(c['direct'],), sizes=[c.get('n', 700)])
                    if b[0]['inject'] == c['inject']]
            continue
        if k == 'table':
            bad += [b for b in run_table_cases(ctx, env) if b[0] == c]
            continue
        if k == 'payload':
            v = run_payload_case(ctx, c, env)
            nontriv = c['payload'] not in ('fortran',)
        elif k == 'store':
            v = run_store_case(ctx, c, env)
            ctx.tag('store-' + c['what'])
            nontriv = True
        elif k == 'load':
            v = run_load_case(ctx, c, env)
            nontriv = True
        else:
            raise ValueError(k)
        ctx.count(json.dumps(c, sort_keys=True, default=str), nontriv,
                  sample={k: c} if k in ('load', 'store') else None)
        if v:
            bad.append((c, v))
    return bad


def corpus_cases():
    d = os.path.join(common.VERIF, 'corpus', 'C08')
    out = []
    if os.path.isdir(d):
        for nm in sorted(os.listdir(d)):
            out.append(json.load(open(os.path.join(d, nm)))['case'])
    return out


def prepare(ctx):
    ctx.matchers['c08_npy_empty_file_eoferror'] = m_npy_empty_file_eoferror
    ctx.matchers['c08_s3_undecodable_valueerror'] = m_s3_undecodable_valueerror
    ctx.matchers['c08_npy_permission_notfound'] = m_npy_permission_notfound
    ctx.matchers['c08_header_tokenerror'] = m_header_tokenerror
    ctx.matchers['c08_s3_chunked_transfer_bare_incompleteread'] = (
        lambda case, what: case.get('kind') == 'chunked-transfer' and 'IncompleteRead' in what)
    ctx.matchers['c08_npy_put_flush_error_swallowed'] = m_npy_put_flush_error_swallowed
    rc, out = common.run_cmd([sys.executable, os.path.join(common.VERIF, 'tools', 'extract_tables_c08.py')],
                             cwd=common.VERIF)
    if rc != 0:
        raise common.Broken('extract_tables_c08 failed:\n' + out)


def all_cases(ctx, scale=1):
    rng = ctx.rng
    cases = corpus_cases()
    cases += [gen_reader_case(rng) for _ in range(scale * ctx.q(700, 20000))]
    trunc_dtypes = ctx.q(['f4', 'recsub'], ['bool', 'u1', 'i2be', 'f4', 'f8be', 'c8', 'c16', 'S3', 'U2', 'rec',
                                           'recsub', 'recpad'])
    for lab in trunc_dtypes:
        for be in ('npy', 's3'):
            for _ in range(ctx.q(1, 3)):
                cases.append(gen_trunc_case(rng, be, lab))
    # in every run whatever the seed: decodable chunks with another NUMBER of dimensions whose leading dimensions match
    for be in ('s3', 'npy'):
        for sv in ('more_dims', 'fewer_dims', 'zero_dims'):
            for errors in (0, 'raise'):
                cases.append(dict(kind='payload', backend=be, payload='wrongshape', shape_variant=sv, dtype='f4',
                                  shape=[2, 3], arrseed=rng.getrandbits(32), errors=errors))
    cases += [gen_payload_case(rng) for _ in range(scale * ctx.q(160, 3000))]
    for w in ('npy-missing-dir', 'npy-perm', 'npy-dir-vanished', 's3-401', 's3-403', 's3-down', 's3-no-bucket'):
        cases.append(dict(kind='store', what=w))
    for code in ctx.q([400, 401, 403, 404, 405, 409, 410, 429, 451, 501, 599],
                      [c for c in range(400, 600) if c not in (500, 502, 503, 504)]):
        cases.append(dict(kind='store', what='s3-status', code=code))
    cases.append(dict(kind='tables'))
    cases += [gen_load_case(rng) for _ in range(scale * ctx.q(14, 200))]
    cases.append(dict(kind='crashes', thorough=ctx.tier == 'thorough'))
    return cases


def chunked_transfer(ctx):
    """An S3 endpoint that answers object requests with chunked transfer encoding (no Content-Length, a proxy in
    front of the store): the complete body is the stored chunk; cut off inside a chunk, between two chunks or inside
    the NPY header it is reported as a missing chunk (server glitch) or chunk-store error, never as data and never as
    a bare transport exception."""
    import io
    import socket
    import threading
    from katdal.chunkstore import ChunkStoreError
    from katdal.chunkstore_s3 import S3ChunkStore
    arr = np.arange(100, dtype=np.uint8)
    buf = io.BytesIO()
    np.save(buf, arr)
    body = buf.getvalue()
    mode = {'cut': None, 'pieces': 1, 'framing': 'chunked'}

    def serve(sock):
        while True:
            try:
                c, _ = sock.accept()
            except OSError:
                return
            try:
                data = b''
                while b'\r\n\r\n' not in data:
                    d = c.recv(65536)
                    if not d:
                        break
                    data += d
                target = data.split(b'\r\n')[0].decode().split()[1]
                if 'max-keys' in target or target.split('?')[0].rstrip('/').count('/') <= 1:
                    xml = b'<?xml version="1.0"?><ListBucketResult><Contents><Key>x</Key></Contents></ListBucketResult>'
                    c.sendall(b'HTTP/1.1 200 OK\r\nContent-Type: application/xml\r\nContent-Length: %d\r\n'
                              b'Connection: close\r\n\r\n' % len(xml) + xml)
                    continue
                if mode['framing'] == 'close':
                    # neither Content-Length nor chunked: the body ends where the connection is closed (HTTP/1.0 style)
                    out = body if mode['cut'] is None else body[:mode['cut']]
                    c.sendall(b'HTTP/1.0 200 OK\r\nContent-Type: application/octet-stream\r\n\r\n' + out)
                    continue
                out = b''
                n = mode['pieces']
                step = -(-len(body) // n)
                for i in range(0, len(body), step):
                    piece = body[i:i + step]
                    out += b'%x\r\n' % len(piece) + piece + b'\r\n'
                out += b'0\r\n\r\n'
                if mode['cut'] is not None:
                    out = out[:mode['cut']]
                c.sendall(b'HTTP/1.1 200 OK\r\nContent-Type: application/octet-stream\r\n'
                          b'Transfer-Encoding: chunked\r\nConnection: close\r\n\r\n' + out)
            except OSError:
                pass
            finally:
                c.close()
    sock = socket.socket()
    sock.bind(('127.0.0.1', 0))
    sock.listen(16)
    port = sock.getsockname()[1]
    threading.Thread(target=serve, args=(sock,), daemon=True).start()
    bad = []
    try:
        total = len(body) + 40
        cuts = [None, 0, 3, 5, 9, 60, 130, 131, 133, len(body) + 4, len(body) + 7] + \
               [ctx.rng.randrange(1, total) for _ in range(ctx.q(6, 60))]
        for pieces in (1, 3, 0):
            for cut in cuts:
                if pieces == 0 and cut is not None and cut >= len(body):
                    continue
                mode['cut'], mode['pieces'], mode['framing'] = cut, max(pieces, 1), ('close' if pieces == 0 else 'chunked')
                store = S3ChunkStore(f'http://127.0.0.1:{port}', timeout=(20, 20), retries=0)
                case = dict(kind='chunked-transfer', cut=cut, pieces=pieces)
                what = None
                try:
                    r = store.get_chunk('b/a', (slice(0, 100),), np.uint8)
                    complete = cut is None
                    if not np.array_equal(r, arr):
                        what = f'chunked transfer encoding, body cut at {cut}: altered data returned'
                    elif not complete and cut < len(body):
                        what = f'chunked transfer encoding, body cut at byte {cut}: returned as data'
                except ChunkStoreError as e:
                    if cut is None:
                        # not a clause of this property (nothing wrong is returned as data); it is what C09 calls a
                        # good response that does not yield the stored chunk, noted here because the cause is the same
                        ctx.tag('s3-chunked-transfer-complete-body-unreadable')
                        ctx.advise(f'a complete body in chunked transfer encoding ({pieces} piece(s)) is reported as '
                                   f'{type(e).__name__}: the stored chunk cannot be read through such an endpoint')
                except Exception as e:   # noqa: BLE001
                    what = (f'chunked transfer encoding, body cut at byte {cut} ({pieces} piece(s)): a bare '
                            f'{type(e).__module__}.{type(e).__name__} escapes, which is neither a missing chunk nor a '
                            f'chunk-store error')
                ctx.tag(('s3-close-framed' if pieces == 0 else 's3-chunked-transfer') + ('-complete' if cut is None else '-cut'))
                ctx.count(('chunked-transfer', cut, pieces), cut is not None, sample={'kind': 'chunked-transfer', 'cut': cut})
                if what:
                    bad.append((case, what))
    finally:
        sock.close()
    return bad


def inferred_store(ctx):
    """A data set opened by its RDB file gets the NPY store next to the file only if the chunk directory is there;
    a missing directory with an unreachable S3 endpoint is an unavailable store (the load fails), not an NPY store
    whose every chunk is missing (zeros + data_lost)."""
    import urllib.parse as up
    from katdal.chunkstore import StoreUnavailable
    from katdal.datasources import infer_chunk_store
    bad = []
    root = tempfile.mkdtemp(prefix='c08infer')
    try:
        os.makedirs(os.path.join(root, 'cb'))
        rdb = os.path.join(root, 'cb', 'cb_sdp_l0.rdb')
        open(rdb, 'wb').close()
        telstate = {'chunk_info': {'correlator_data': {'prefix': 'cb-sdp-l0'}}, 's3_endpoint_url': 'http://127.0.0.1:9'}
        for present in (False, True):
            if present:
                os.makedirs(os.path.join(root, 'cb-sdp-l0', 'correlator_data'))
            case = dict(kind='inferred-store', directory_present=present)
            what = None
            try:
                store = infer_chunk_store(up.urlparse('file://' + rdb), telstate, timeout=(0.5, 0.5), retries=0)
                if present and not isinstance(store, NpyFileChunkStore):
                    what = f'chunk directory next to the RDB file is there but the store is a {type(store).__name__}'
                if not present:
                    try:
                        store.get_chunk('cb-sdp-l0/correlator_data', (slice(0, 1),), np.dtype('u1'))
                        what = 'no chunk directory next to the RDB file and an unreachable S3 endpoint: a chunk was returned'
                    except StoreUnavailable:
                        pass
                    except Exception as e:   # noqa: BLE001
                        what = (f'no chunk directory next to the RDB file and an unreachable S3 endpoint: reading a chunk '
                                f'gives {type(e).__name__} (with the NPY store inferred every chunk is "missing" and the '
                                f'load zero-fills it), StoreUnavailable is due')
            except StoreUnavailable:
                if present:
                    what = 'chunk directory present but the store is unavailable'
            except Exception as e:   # noqa: BLE001
                what = f'infer_chunk_store raised {type(e).__name__}: {str(e)[:100]}'
            ctx.tag('inferred-store')
            ctx.count(('inferred-store', present), True, sample={'kind': 'inferred-store', 'present': present})
            if what:
                bad.append((case, what))
    finally:
        shutil.rmtree(root, ignore_errors=True)
    return bad


def run(ctx):
    prepare(ctx)
    build = common.build_and_audit('C08', ctx.tier)
    env = Env()
    try:
        bad = evaluate(ctx, all_cases(ctx), env)
        bad += chunked_transfer(ctx)
        bad += inferred_store(ctx)
        if not bad and not build['build_ok']:
            bad = evaluate(ctx, all_cases(ctx, scale=4), env)
    finally:
        env.close()
    for c, v in bad:
        ctx.violation(c, v)
    ctx.assumptions = ['rename(2) is atomic; durability after power loss is out of scope',
                       'numpy header parsing is an oracle for the Lean reader (validated on every reader case)',
                       'strace fault injection stands for a failing / dying writer']
    return common.finish(ctx, build, RULE, CHECKER, TRUSTED)


def replay(ctx, rep):
    prepare(ctx)
    build = common.build_and_audit('C08', 'quick')
    env = Env()
    try:
        c = dict(rep['case'])
        if c.get('kind') == 'inferred-store':
            bad = inferred_store(ctx)
        elif c.get('kind') == 'chunked-transfer':
            bad = [b for b in chunked_transfer(ctx) if b[0]['cut'] == c['cut'] and b[0]['pieces'] == c['pieces']]
        elif c.get('kind') == 'trunc' and 'offset' in c:
            want = c['offset']
            c2 = {k: v for k, v in c.items() if k not in ('offset', 'total')}
            bad = [b for b in run_trunc_case(ctx, c2, env) if b[0]['offset'] == want]
        else:
            bad = evaluate(ctx, [c], env)
        for cc, v in bad:
            ctx.violation(cc, v)
    finally:
        env.close()
    return common.finish(ctx, build, RULE, CHECKER, TRUSTED)
