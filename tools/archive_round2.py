#!/venv/bin/python
"""Archive the confirmed seeded changes of the second round (and the first round of C07/C08/C20) under seeded/<id>/.
Table: (source dir, seed id, property, caught, needs-to-manifest, what the check said).  Idempotent; skips sources that
are gone (already archived and cleaned up)."""
import os
import subprocess
import sys

HERE = os.path.dirname(os.path.abspath(__file__))
T = [
 ('/tmp/mut2/C01/1', 'C01-3', 'C01', 'yes', 'an MVF v3 file read as lower sideband (band u with 856 MHz bandwidth): vis must be conjugated', 'VIOLATION (vis element is not the stored sample after conversion)'),
 ('/tmp/mut2/C01/2', 'C01-4', 'C01', 'yes (after strengthening: weather properties compared under every selection)', 'a v3/v4 data set with weather sensors, a time selection that keeps only some dumps, access through d.temperature / pressure / humidity / wind_speed / wind_direction', 'VIOLATION (d.temperature has T values for fewer selected dumps)'),
 ('/tmp/mut2/C01/3', 'C01-5', 'C01', 'yes (after strengthening: select(flags=...) on v4 with non-palindromic bit patterns)', 'a v4 data set and select(flags=<names>) whose bit pattern is not a palindrome', 'VIOLATION (flags element differs from (stored & mask) != 0)'),
 ('/tmp/mut2/C02/1', 'C02-3', 'C02', 'yes', 'a call whose only keyword is reset (reset="T", "FB", "") after an earlier selection on another dimension', 'VIOLATION'),
 ('/tmp/mut2/C02/2', 'C02-4', 'C02', 'yes', 'a targets list with an unknown entry placed before a known one', 'VIOLATION'),
 ('/tmp/mut2/C02/3', 'C02-5', 'C02', 'yes', 'a subarray with hv and vh products and a pol criterion with exactly one cross-hand term', 'VIOLATION'),
 ('/tmp/mut2/C03/1', 'C03-3', 'C03', 'yes', 'a v4 data set whose obs_label changes more than one dump away from any activity change', 'VIOLATION (segmentation differs from the model)'),
 ('/tmp/mut2/C03/2', 'C03-4', 'C03', 'yes', 'a v4 data set that starts in STOP on a left-over target with a different target when the antennas first move', 'VIOLATION'),
 ('/tmp/mut2/C03/3', 'C03-5', 'C03', 'yes (after strengthening: long observations with prior selections of sparse late scans)', 'a prior time selection leaving a sparse set of scan indices that wraps a set hash table ({6,7,8,9}, {5,7,9,11})', 'VIOLATION (items visited out of index order)'),
 ('/tmp/mut2/C04/1', 'C04-3', 'C04', 'yes', 'inspection of store reads after get_dask_array() and before the first fetch', 'VIOLATION (store read before an element was requested)'),
 ('/tmp/mut2/C04/2', 'C04-4', 'C04', 'partly (not by C04; by C06, C07 and C17, which own get_dask_array(index=...))', 'index= preselection, uneven chunking with a short last chunk and a window stop leaving the last chunk size unused', 'C04: no alarm; C06/C07/C17: VIOLATION'),
 ('/tmp/mut2/C04/3', 'C04-5', 'C04', 'yes (after strengthening: joint get() of indexers with different dtypes, rotated order)', 'a joint DaskLazyIndexer.get() of indexers with differing dtypes', 'VIOLATION (joint get() differs from one-by-one retrieval)'),
 ('/tmp/mut2/C05/1', 'C05-3', 'C05', 'yes (after strengthening: the same and a full request repeated on one indexer object)', 'a first stage not starting at 0, a dense multi-segment second-stage slice and a SECOND request on the same indexer object', 'VIOLATION (repeated request returned different data)'),
 ('/tmp/mut2/C05/2', 'C05-4', 'C05', 'yes', 'a chain of two transforms, the first changing dtype and the second declaring none', 'VIOLATION (dtype property != result dtype)'),
 ('/tmp/mut2/C05/3', 'C05-5', 'C05', 'yes', 'at least two non-empty parts and a negative scalar head index whose row lies before the last part', 'VIOLATION'),
 ('/tmp/mut2/C06/1', 'C06-3', 'C06', 'yes (after strengthening: the load also goes through TelstateDataSource with upgrade_flags False/True)', 'an array shorter than the others and the data source opened with upgrade_flags=False', 'VIOLATION (TelstateDataSource(upgrade_flags=False) raised ValueError)'),
 ('/tmp/mut2/C06/2', 'C06-4', 'C06', 'yes (after strengthening: two loads from a view-returning DictChunkStore, store content compared)', 'a store whose get_chunk returns views of its own memory, a load with a non-flags array absent, then inspection of the store or a second load', 'VIOLATION (loading modified the chunks held by the store)'),
 ('/tmp/mut2/C06/3', 'C06-5', 'C06', 'yes', 'a dump-count difference with more than one dump per chunk in the shorter array', 'VIOLATION (_align_chunk_info differs from the model)'),
 ('/tmp/mut/C07/1', 'C07-1', 'C07', 'yes (after strengthening: two windowed lazy arrays of one stored array computed in one graph)', 'two lazy arrays of the same stored array with equal pruned chunks and different offsets evaluated in ONE dask graph', 'VIOLATION'),
 ('/tmp/mut/C07/2', 'C07-2', 'C07', 'yes', 'max_dim_elements below the shape with power_of_two=False and a small max_chunk_size', 'VIOLATION (generate_chunks differs from the model / exceeds the limits)'),
 ('/tmp/mut/C08/1', 'C08-1', 'C08', 'yes', 'an overwrite of an existing chunk whose put genuinely fails with OSError between opening the temp file and the rename', 'VIOLATION (old chunk gone after a failed put)'),
 ('/tmp/mut/C08/2', 'C08-2', 'C08', 'yes', 'an S3 object truncated exactly at the end of the NPY header', 'VIOLATION (truncated object returned as data)'),
 ('/tmp/mut2/C09/1', 'C09-3', 'C09', 'yes', 'a token whose prefix occurs inside, not at the start of, an out-of-scope path', 'VIOLATION'),
 ('/tmp/mut2/C09/2', 'C09-4', 'C09', 'yes (after strengthening: retries=(connect, read) with different values; the model is given the documented meaning)', 'a retry configuration given as a tuple with different connect and read values', 'VIOLATION (read fault not retried / retried against the budget)'),
 ('/tmp/mut2/C09/3', 'C09-5', 'C09', 'yes', 'a body truncated exactly at the NPY header/data boundary', 'VIOLATION'),
 ('/tmp/mut2/C10/1', 'C10-3', 'C10', 'yes', 'a sensor event stamped exactly on the closing edge of a dump', 'VIOLATION'),
 ('/tmp/mut2/C10/2', 'C10-4', 'C10', 'yes', 'a falsy initial value ("", 0, False, ()) with no event before or inside dump 0 (patch re-based onto /repo d44506c, which rewrote the patched condition)', 'VIOLATION'),
 ('/tmp/mut2/C10/3', 'C10-5', 'C10', 'yes (after strengthening: alphabet of arrays of different, broadcast-compatible shapes)', 'array-valued sensor whose consecutive values have different shapes but are equal after broadcasting', 'VIOLATION'),
 ('/tmp/mut2/C11/1', 'C11-3', 'C11', 'yes (after the NaN extension of the C11 model and harness)', 'a series containing NaN compared with <= or >=', 'VIOLATION'),
 ('/tmp/mut2/C11/2', 'C11-4', 'C11', 'yes', 'a partition boundary exactly on an event', 'VIOLATION'),
 ('/tmp/mut2/C11/3', 'C11-5', 'C11', 'yes (after strengthening: directed add()-override followed by remove_repeats)', 'as many events as unique values with one unique value unused (add() overriding an event with its predecessor value) and then remove_repeats()', 'VIOLATION'),
 ('/tmp/mut2/C12/1', 'C12-3', 'C12', 'yes', 'a non-zero time_offset and a second extraction from a getter that hands out its own arrays', 'VIOLATION'),
 ('/tmp/mut2/C12/2', 'C12-4', 'C12', 'yes (after strengthening: float32 / float16 sensor values)', 'sensor values of dtype float32, float16 (not float64) without an explicit categorical property', 'VIOLATION'),
 ('/tmp/mut2/C12/3', 'C12-5', 'C12', 'yes', 'a falsy initial_value (0.0, 0, False) with no usable samples or a sensor absent from one part', 'VIOLATION'),
 ('/tmp/mut2/C13/1', 'C13-3', 'C13', 'yes', 'stored flags that already carry the postproc bit at a sample with an invalid gain', 'VIOLATION'),
 ('/tmp/mut2/C13/2', 'C13-4', 'C13', 'yes', 'ragged / irregular chunking with a time- or frequency-dependent product', 'VIOLATION'),
 ('/tmp/mut2/C13/3', 'C13-5', 'C13', 'yes', 'two or more per-channel products from streams with different channelisations in one request', 'VIOLATION'),
 ('/tmp/mut2/C14/1', 'C14-3', 'C14', 'partly (not by C14, whose cases request one product each; by C13, which composes several products)', 'one request with two non-interpolated gain products from cal streams with different channel counts', 'C14: no alarm; C13: VIOLATION'),
 ('/tmp/mut2/C14/2', 'C14-4', 'C14', 'yes', 'a mixed request combining a qualified stream.type name with a bare type when some expanded product is missing', 'VIOLATION'),
 ('/tmp/mut2/C14/3', 'C14-5', 'C14', 'yes (after strengthening: two substreams with interleaved solution times; product sensor compared with the raw solutions)', 'a cal stream made of two or more substreams whose solution times interleave', 'VIOLATION'),
 ('/tmp/mut2/C15/1', 'C15-3', 'C15', 'yes', 'a stream without need_weights_power_scale opened with van_vleck="autocorr"', 'VIOLATION'),
 ('/tmp/mut2/C15/2', 'C15-4', 'C15', 'yes', 'timeav larger than min(n_time, n_chans)', 'VIOLATION'),
 ('/tmp/mut2/C15/3', 'C15-5', 'C15', 'yes', 'd.weights read, a different select(), d.weights read again on one v3 object', 'VIOLATION'),
 ('/tmp/mut2/C16/1', 'C16-3', 'C16', 'yes', 'a v3 file with a legacy flags_description table and the default / "all" selection', 'VIOLATION'),
 ('/tmp/mut2/C16/2', 'C16-4', 'C16', 'yes', 'the string spelling of a flag selection with whitespace directly after a name', 'VIOLATION'),
 ('/tmp/mut2/C16/3', 'C16-5', 'C16', 'yes', 'a v4 data set opened with applycal and an input that never has a valid gain', 'VIOLATION'),
 ('/tmp/mut2/C19/1', 'C19-3', 'C19', 'yes (after strengthening: dump periods differing by as little as 2**-40 s)', 'unequal but nearly equal dump periods', 'VIOLATION (differing dump periods concatenated instead of refused)'),
 ('/tmp/mut2/C19/2', 'C19-4', 'C19', 'yes (after strengthening: parts of different subarrays and spectral windows, patterns drawn independently)', 'parts whose subarray pattern differs from their spectral-window pattern', 'VIOLATION (select(subarray, spw) selected the wrong parts)'),
 ('/tmp/mut2/C19/3', 'C19-5', 'C19', 'yes', 'sensor caches with the allow_repeats property and two consecutive compscans with the same label', 'VIOLATION'),
]
T += [
 ('/tmp/mut2/C07/1', 'C07-3', 'C07', 'yes', 'index= on an irregular chunking whose last chunk is larger than an earlier one and a slice stopping at least two chunks before the end', 'VIOLATION (_prune_chunks differs from the model / lazy read differs from x[index])'),
 ('/tmp/mut2/C07/2', 'C07-4', 'C07', 'yes', 'mark_complete called twice for the same name on the NPY store', 'VIOLATION'),
 ('/tmp/mut2/C07/3', 'C07-5', 'C07', 'yes', 'the S3 back-end with array names containing "_" below the bucket (object keys / two names differing only by _ vs -)', 'VIOLATION (S3 endpoint holds other keys than the documented ones)'),
 ('/tmp/mut2/C08/1', 'C08-3', 'C08', 'yes', 'a connect timeout (black-holed host) on the S3 store', 'VIOLATION (classification table / unreachable store reported as missing chunk)'),
 ('/tmp/mut2/C08/2', 'C08-4', 'C08', 'yes (after strengthening: wrong shapes that keep the number of elements)', 'an NPY chunk whose stored shape differs from the promised one but has the same number of elements', 'VIOLATION (wrongshape returned as data, BadChunk is due)'),
 ('/tmp/mut2/C08/3', 'C08-5', 'C08', 'yes', 'direct_write=True and an OS failure inside the write / truncate of the temporary file', 'VIOLATION (failed put reported as success; reader sees neither old nor new)'),
 ('/tmp/mut2/C17/1', 'C17-3', 'C17', 'yes', 'a capture before the applicable fix date with a known CBF dump period', 'VIOLATION (start/end times do not bracket the dumps by half a dump)'),
 ('/tmp/mut2/C17/2', 'C17-4', 'C17', 'yes (after strengthening: the timestamps= override of the data source)', 'the timestamps= override together with a dumps preselect that is a proper sub-range', 'VIOLATION'),
 ('/tmp/mut2/C17/3', 'C17-5', 'C17', 'yes', 'a positive non-unit preselect step on a metadata-only source (chunk_store=None)', 'VIOLATION (illegal preselect accepted)'),
 ('/tmp/mut2/C18/1', 'C18-3', 'C18', 'yes (after strengthening: the older chunk_info layout without prefix items)', 'an archived flags stream whose chunk_info has no prefix item and relies on its <cbid>_<stream>_chunk_name key', 'VIOLATION'),
 ('/tmp/mut2/C18/2', 'C18-4', 'C18', 'yes', 'the same key given in the URL query and as a keyword with different values', 'VIOLATION'),
 ('/tmp/mut2/C18/3', 'C18-5', 'C18', 'yes', 'a file that exists but is not a valid RDB dump', 'VIOLATION'),
 ('/tmp/mut2/C20/1', 'C20-3', 'C20', 'yes (after strengthening: _get_props is a yield point in the quick tier too)', 'two threads first-extracting different sensors and a preemption inside the loop over the shared props dict', 'VIOLATION (RuntimeError: dictionary changed size during iteration on a schedule)'),
 ('/tmp/mut2/C20/2', 'C20-4', 'C20', 'yes', 'a preemption between the two statements that build channel_freqs, reader using the values at access time', 'VIOLATION'),
 ('/tmp/mut2/C20/3', 'C20-5', 'C20', 'yes (after strengthening: per-session state privacy of the sessions the store makes; theorem pool_session_state_private)', 'two concurrent requests with different retry policies and a preemption between setting the policy and sending', 'VIOLATION (two sessions borrowed at the same time share one transport adapter)'),
]


def main(extra=None):
    for src, sid, prop, caught, needs, result in T + (extra or []):
        if not os.path.isdir(src):
            continue
        if not (os.path.exists(os.path.join(src, 'patch.diff')) and os.path.exists(os.path.join(src, 'demo.py'))):
            print('incomplete', src)
            continue
        subprocess.check_call([os.path.join(HERE, 'keep_seeded.py'), src, sid, prop, caught, needs, result])


if __name__ == '__main__':
    main()
    sys.exit(0)
