"""Shared plumbing for the katdal Lean-proof checks.

Every property check does the same five things:
  1. (re)generate Lean tables from /repo and `lake build` the property's theorems + driver
  2. audit the theorems' axioms and the sources for forbidden constructs
  3. drive /repo's current code and the compiled Lean model with the same cases
  4. on disagreement: shrink, consult known_findings.json, report
  5. write evidence/<id>.json

Exit codes: 0 = held, 1 = violation (VIOLATION line printed), 2 = check itself broken.
"""
import hashlib
import json
import os
import random
import re
import subprocess
import sys
import time
import traceback

VERIF = os.path.dirname(os.path.dirname(os.path.abspath(__file__)))
LEAN = os.path.join(VERIF, 'lean')
BIN = os.path.join(LEAN, '.lake', 'build', 'bin')
ALLOWED_AXIOMS = {'propext', 'Classical.choice', 'Quot.sound'}
FORBIDDEN = re.compile(r'\b(sorry|admit|native_decide|bv_decide|implemented_by)\b|^\s*axiom\s|\bunsafe\s|maxHeartbeats\s+0\b',
                       re.M)


class Broken(Exception):
    """The check machinery itself failed (exit 2), not the property."""


def strip_lean_comments(src):
    out, i, depth = [], 0, 0
    n = len(src)
    while i < n:
        if src.startswith('/-', i):
            depth += 1
            i += 2
        elif depth and src.startswith('-/', i):
            depth -= 1
            i += 2
        elif depth:
            i += 1
        elif src.startswith('--', i):
            j = src.find('\n', i)
            i = n if j < 0 else j
        else:
            out.append(src[i])
            i += 1
    return ''.join(out)


def run_cmd(cmd, cwd=None, timeout=3600, env=None):
    p = subprocess.run(cmd, cwd=cwd, stdout=subprocess.PIPE, stderr=subprocess.STDOUT, text=True,
                       timeout=timeout, env=env)
    return p.returncode, p.stdout


def lean_files_for(prop):
    """Lean sources the audit greps: the property file and everything it (transitively) imports
    from this project, plus the property's driver."""
    seen, todo = set(), [f'KatdalModel.Props.{prop}', f'Driver.{prop}']
    while todo:
        mod = todo.pop()
        path = os.path.join(LEAN, *mod.split('.')) + '.lean'
        if mod in seen or not os.path.exists(path):
            continue
        seen.add(mod)
        for m in re.finditer(r'^\s*import\s+((?:KatdalModel|Driver)\.[A-Za-z0-9_.]+)', open(path).read(), re.M):
            todo.append(m.group(1))
    return sorted(os.path.join(LEAN, *m.split('.')) + '.lean' for m in seen)


def theorem_names(prop):
    path = os.path.join(LEAN, 'KatdalModel', 'Props', f'{prop}.lean')
    src = strip_lean_comments(open(path).read())
    names = re.findall(r'^\s*theorem\s+([A-Za-z0-9_.\']+)', src, re.M)
    ns = re.search(r'^\s*namespace\s+([A-Za-z0-9_.]+)', src, re.M)
    prefix = ns.group(1) + '.' if ns else ''
    return [prefix + n for n in names]


def build_and_audit(prop, tier, extra_targets=()):
    """Returns dict(obligations, discharged, theorems, build_ok, build_log, axioms)."""
    t0 = time.time()
    # 1. regenerate tables from the current /repo
    rc, out = run_cmd([sys.executable, os.path.join(VERIF, 'tools', 'extract_tables.py')], cwd=VERIF)
    if rc != 0:
        raise Broken('extract_tables failed:\n' + out)
    tables_note = out.strip()
    exe = f'kd_{prop.lower()}'
    rc, out = run_cmd(['lake', 'build', exe] + list(extra_targets), cwd=LEAN)
    if rc != 0:
        raise Broken('model driver does not build:\n' + out[-3000:])
    rc, out = run_cmd(['lake', 'build', f'KatdalModel.Props.{prop}'], cwd=LEAN)
    info = dict(build_ok=(rc == 0), build_log=out[-4000:], tables=tables_note, theorems=[], axioms={},
                obligations=0, discharged=0)
    names = theorem_names(prop)
    info['theorems'] = names
    info['obligations'] = len(names)
    if rc != 0:
        info['build_s'] = time.time() - t0
        return info
    # 2. grep audit (comments stripped)
    for f in lean_files_for(prop):
        m = FORBIDDEN.search(strip_lean_comments(open(f).read()))
        if m:
            raise Broken(f'forbidden construct {m.group(0)!r} in {f}')
    # 3. axiom audit
    work = os.path.join(VERIF, '.work')
    os.makedirs(work, exist_ok=True)
    audit = os.path.join(work, f'Audit_{prop}_{os.getpid()}.lean')
    with open(audit, 'w') as fh:
        fh.write(f'import KatdalModel.Props.{prop}\n')
        for n in names:
            fh.write(f'#print axioms {n}\n')
    try:
        rc, out = run_cmd(['lake', 'env', 'lean', audit], cwd=LEAN)
    finally:
        os.unlink(audit)
    if rc != 0:
        raise Broken('axiom audit failed to run:\n' + out[-3000:])
    axioms = {}
    for m in re.finditer(r"'([^']+)' depends on axioms: \[([^\]]*)\]", out):
        axioms[m.group(1)] = [a.strip() for a in m.group(2).replace('\n', ' ').split(',') if a.strip()]
    for m in re.finditer(r"'([^']+)' does not depend on any axioms", out):
        axioms[m.group(1)] = []
    bad = {}
    for n in names:
        if n not in axioms:
            raise Broken(f'axiom audit printed nothing for {n}:\n{out[-2000:]}')
        extra = set(axioms[n]) - ALLOWED_AXIOMS
        if extra:
            bad[n] = sorted(extra)
    if bad:
        raise Broken(f'theorems depend on non-standard axioms: {bad}')
    info['axioms'] = axioms
    info['discharged'] = len(names)
    if tier == 'thorough':
        rc, out = run_cmd(['lake', 'env', 'leanchecker', f'KatdalModel.Props.{prop}'], cwd=LEAN, timeout=3600)
        info['leanchecker'] = 'ok' if rc == 0 else out[-2000:]
        if rc != 0:
            raise Broken('leanchecker rejected the compiled proofs:\n' + out[-2000:])
    info['build_s'] = time.time() - t0
    return info


def run_model(prop, lines, exe=None):
    """Pipe request lines to the compiled model driver; returns one reply per line."""
    if not lines:
        return []
    exe = exe or os.path.join(BIN, f'kd_{prop.lower()}')
    p = subprocess.run([exe], input='\n'.join(lines) + '\n', stdout=subprocess.PIPE, stderr=subprocess.PIPE,
                       text=True, timeout=3600)
    if p.returncode != 0:
        raise Broken(f'model driver {exe} failed: {p.stderr[-2000:]}')
    out = p.stdout.split('\n')
    if out and out[-1] == '':
        out.pop()
    if len(out) != len(lines):
        raise Broken(f'model driver answered {len(out)} lines for {len(lines)} requests')
    return out


def load_findings(prop):
    """known_findings.json (merged, authoritative) plus per-property files in known_findings.d/."""
    out = []
    path = os.path.join(VERIF, 'known_findings.json')
    if os.path.exists(path):
        out += json.load(open(path))['findings']
    d = os.path.join(VERIF, 'known_findings.d')
    if os.path.isdir(d):
        for nm in sorted(os.listdir(d)):
            if nm.endswith('.json'):
                out += json.load(open(os.path.join(d, nm)))['findings']
    return [f for f in out if f['property'] == prop]


class Ctx:
    """Per-run accumulator: counts, samples, tags, violations, known-finding hits."""

    def __init__(self, prop, tier, seed):
        self.prop, self.tier, self.seed = prop, tier, seed
        self.rng = random.Random(seed * 1000003 + int(prop[1:]))
        self.evaluations = 0
        self.distinct = set()
        self.samples = []
        self.tags = {}
        self.violations = []        # (case, what)
        self.kf_hits = {}           # finding id -> (what, count)
        self.advisory = []
        self.traces_validated = 0
        self.findings = load_findings(prop)
        self.matchers = {}
        self.t0 = time.time()
        self.assumptions = []
        self.extra = {}

    def q(self, quick, thorough):
        return thorough if self.tier == 'thorough' else quick

    def tag(self, *tags):
        for t in tags:
            self.tags[t] = self.tags.get(t, 0) + 1

    def count(self, case_key, nontrivial=True, sample=None):
        self.evaluations += 1
        if nontrivial:
            h = hashlib.sha1(repr(case_key).encode()).hexdigest()[:16]
            self.distinct.add(h)
        if sample is not None and len(self.samples) < 8:
            self.samples.append(sample)

    def violation(self, case, what):
        """A case on which the implementation breaks the property."""
        for f in self.findings:
            if f.get('status') != 'known':
                continue
            m = self.matchers.get(f['matcher'])
            if m is None:
                raise Broken(f"known finding {f['id']} names unknown matcher {f['matcher']}")
            try:
                hit = m(case, what)
            except Exception:
                hit = False
            if hit:
                w, c = self.kf_hits.get(f['id'], (f['what'], 0))
                self.kf_hits[f['id']] = (w, c + 1)
                return False
        self.violations.append((case, what))
        return True

    def advise(self, msg):
        if len(self.advisory) < 50:
            self.advisory.append(msg)


def write_evidence(ctx, build, rule, checker_cmd, trusted_base, explanation=None):
    ev = {
        'property_id': ctx.prop,
        'tier': ctx.tier,
        'seed': ctx.seed,
        'level': 'proof',
        'coverage': {
            'obligations': build['obligations'],
            'discharged': build['discharged'],
            'checker_cmd': checker_cmd,
            'trusted_base': trusted_base,
            'theorems': build['theorems'],
            'axioms_used': sorted({a for v in build['axioms'].values() for a in v}),
            'evaluations': ctx.evaluations,
            'distinct_nontrivial': len(ctx.distinct),
            'rule': rule,
            'samples': ctx.samples or ['(no correspondence cases run)'],
            'traces_validated_against_impl': ctx.traces_validated,
            'branch_tags': dict(sorted(ctx.tags.items())),
            'known_findings_hit': {k: v[1] for k, v in ctx.kf_hits.items()},
            'advisory': ctx.advisory,
            'exhaustive': False,
            **ctx.extra,
        },
        'assumptions': ctx.assumptions,
        'wall_s': round(time.time() - ctx.t0, 2),
        'violations': len(ctx.violations),
    }
    if explanation:
        ev['coverage']['explanation'] = explanation
    os.makedirs(os.path.join(VERIF, 'evidence'), exist_ok=True)
    with open(os.path.join(VERIF, 'evidence', f'{ctx.prop}.json'), 'w') as fh:
        json.dump(ev, fh, indent=1, default=str)


def write_replay(ctx, kind, case, what, broken=None):
    os.makedirs(os.path.join(VERIF, 'replays'), exist_ok=True)
    name = f'{ctx.prop}_{ctx.tier}_{ctx.seed}_{int(time.time())}.json'
    path = os.path.join('replays', name)
    with open(os.path.join(VERIF, path), 'w') as fh:
        json.dump({'property': ctx.prop, 'tier': ctx.tier, 'seed': ctx.seed, 'kind': kind, 'case': case,
                   'what': what, 'broken': broken}, fh, indent=1, default=str)
    return path


def ddmin(items, fails):
    """Delta-debugging minimisation of a list under predicate `fails`."""
    items = list(items)
    n = 2
    while len(items) >= 2:
        chunk = max(1, len(items) // n)
        reduced = False
        for i in range(0, len(items), chunk):
            cand = items[:i] + items[i + chunk:]
            if cand and fails(cand):
                items, n, reduced = cand, max(n - 1, 2), True
                break
        if not reduced:
            if chunk == 1:
                break
            n = min(len(items), n * 2)
    return items


def finish(ctx, build, rule, checker_cmd, trusted_base, shrink=None, explanation=None):
    """Common epilogue: evidence, KNOWN-FINDING lines, VIOLATION line, exit code."""
    rc = 0
    lines = []
    for fid, (what, cnt) in sorted(ctx.kf_hits.items()):
        lines.append(f'KNOWN-FINDING: property={ctx.prop} {what} [{fid}; {cnt} case(s) this run]')
    if not build['build_ok']:
        # A proof obligation or the driver no longer builds.  Not by itself a violation of the
        # property: the caller has already searched for a failing input (ctx.violations).
        if not ctx.violations:
            path = write_replay(ctx, 'no-failing-input-found', None,
                                'lake build failed for the property theorems or the model driver',
                                broken=build['build_log'][-1500:])
            lines.append(f'VIOLATION property={ctx.prop} replay={path} no-failing-input-found')
            rc = 1
    if ctx.violations:
        case, what = ctx.violations[0]
        if shrink is not None:
            try:
                case, what = shrink(case, what)
            except Exception:
                traceback.print_exc()
        path = write_replay(ctx, 'failing-input', case, what)
        print(f'  first violating case: {json.dumps(case, default=str)[:600]}')
        print(f'  what: {what[:600]}')
        print(f'  ({len(ctx.violations)} violating case(s) in this run)')
        if os.environ.get('VERIF_DEBUG'):
            seen = {}
            for c, w in ctx.violations:
                key = re.sub(r'[0-9]+', 'N', w)[:80]
                seen.setdefault(key, []).append(c)
            for k, cs in seen.items():
                print(f'   [{len(cs)}] {k} :: {json.dumps(cs[0], default=str)[:300]}')
        lines.append(f'VIOLATION property={ctx.prop} replay={path}')
        rc = 1
    write_evidence(ctx, build, rule, checker_cmd, trusted_base, explanation)
    for ln in lines:
        print(ln)
    print(f'{ctx.prop} {ctx.tier} seed={ctx.seed}: theorems {build["discharged"]}/{build["obligations"]}, '
          f'cases {ctx.evaluations} ({len(ctx.distinct)} distinct non-trivial), '
          f'violations {len(ctx.violations)}, {time.time() - ctx.t0:.1f}s')
    return rc
