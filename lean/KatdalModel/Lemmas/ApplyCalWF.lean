/-
  C13: what `calc_correction` builds is well-formed (so that `calc_correction_per_corrprod` cannot
  raise and the composition theorem applies) whenever the correction sensors have the shapes the
  correction calculators produce: at least `nT` dumps, and per product one common number of
  channels that is 1, the number of data channels or the number of channels of the product's stream.
-/
import KatdalModel.Lemmas.ApplyCalCalc
import KatdalModel.Lemmas.ApplyCalInterp
open Np

namespace ApplyCal

variable {S F : Type}

theorem argminFirst_lt [LinearOrder F] (l : List F) (hne : l ≠ []) : argminFirst l < l.length := by
  obtain ⟨m, hm, _⟩ := argminFirst_spec l hne
  by_contra h
  rw [List.getElem?_eq_none (by omega)] at hm
  cases hm

theorem fetchSensors_mem (sensors : String → String → Option (List (List S))) (name : String) :
    ∀ (inputs : List String) (corr : List (List (List S))), fetchSensors sensors name inputs = some corr →
      ∀ s ∈ corr, ∃ inp, sensors name inp = some s
  | [], corr, h => by simp [fetchSensors] at h; subst h; simp
  | inp :: t, corr, h => by
    unfold fetchSensors at h
    cases hs : sensors name inp with
    | none => simp [hs] at h
    | some s0 =>
      cases hr : fetchSensors sensors name t with
      | none => simp [hs, hr] at h
      | some r =>
        simp [hs, hr] at h
        subst h
        intro s hsm
        rcases List.mem_cons.mp hsm with rfl | hsm
        · exact ⟨inp, hs⟩
        · exact fetchSensors_mem sensors name t r hr s hsm

theorem foldl_max_const (n : Nat) : ∀ (l : List Nat) (a : Nat), (∀ x ∈ l, x = n) → a ≤ n → l ≠ [] →
    l.foldl max a = n
  | [], _, _, _, h => absurd rfl h
  | x :: t, a, hx, ha, _ => by
    have hxn : x = n := hx x (List.mem_cons_self ..)
    simp only [List.foldl_cons]
    cases t with
    | nil => simp only [List.foldl_nil]; omega
    | cons y t' =>
      exact foldl_max_const n (y :: t') (max a x) (fun z hz => hx z (List.mem_cons_of_mem _ hz))
        (by omega) (by simp)

/-- `corrNChans` of corrections whose vectors all have `n` channels (and at least one dump) -/
theorem corrNChans_uniform (corr : List (List (List S))) (n : Nat) (hne : corr ≠ [])
    (h : ∀ s ∈ corr, s ≠ [] ∧ ∀ g ∈ s, g.length = n) : corrNChans corr = .ok n := by
  unfold corrNChans
  cases corr with
  | nil => exact absurd rfl hne
  | cons c0 rest =>
    simp only
    have hm : (c0 :: rest).mapM firstLen = .ok ((c0 :: rest).map fun _ => n) := by
      apply mapM_ok_map
      intro c hc
      obtain ⟨hcne, hg⟩ := h c hc
      cases c with
      | nil => exact absurd rfl hcne
      | cons g _ => simp [firstLen, hg g (List.mem_cons_self ..)]
    rw [hm]
    simp only [bind, Except.bind, pure, Except.pure]
    congr 1
    exact foldl_max_const n _ 0 (by simp) (by omega) (by simp)

section wf
variable [Field F] [LinearOrder F]

/-- the sensors of every product have the shape the correction calculators produce -/
def SensorShapes (sensors : String → String → Option (List (List S))) (dataFreqs : List F)
    (allCalFreqs : String → Option (List F)) (nT : Nat) : Prop :=
  ∀ name stream ty, parseCalProduct name = some (stream, ty) → ∀ cf, allCalFreqs stream = some cf →
    cf ≠ [] ∧ ∃ n, (n = 1 ∨ n = dataFreqs.length ∨ n = cf.length) ∧
      ∀ inp s, sensors name inp = some s → nT ≤ s.length ∧ ∀ g ∈ s, g.length = n

theorem expandMap_ok (dataFreqs calFreqs : List F) (hne : calFreqs ≠ []) :
    (expandMap dataFreqs calFreqs).length = dataFreqs.length ∧
    ∀ k ∈ expandMap dataFreqs calFreqs, k < calFreqs.length := by
  constructor
  · simp [expandMap]
  · intro k hk
    simp only [expandMap, List.mem_map] at hk
    obtain ⟨f, _, rfl⟩ := hk
    have := argminFirst_lt (calFreqs.map fun g => absF (f - g)) (by simpa using hne)
    simpa using this

theorem productOf_wf (sensors : String → String → Option (List (List S))) (inputs : List String)
    (dataFreqs : List F) (allCalFreqs : String → Option (List F)) (atol : F) (nT : Nat) (hT : 0 < nT)
    (hshape : SensorShapes sensors dataFreqs allCalFreqs nT) (name : String) (p : Product S)
    (h : productOf sensors inputs dataFreqs allCalFreqs atol name = some p) :
    wfProduct p inputs.length nT dataFreqs.length = true := by
  unfold productOf at h
  split at h
  · simp at h
  · rename_i stream ty hparse
    split at h
    · simp at h
    · rename_i corr hfetch
      split at h
      · simp at h
      · rename_i cf hcf
        obtain ⟨hcfne, n, hn, hs⟩ := hshape name stream ty hparse cf hcf
        have hcorr : ∀ s ∈ corr, nT ≤ s.length ∧ ∀ g ∈ s, g.length = n := by
          intro s hsm
          obtain ⟨inp, hinp⟩ := fetchSensors_mem sensors name inputs corr hfetch s hsm
          exact hs inp s hinp
        split at h
        · simp at h
        · rename_i n' hn'
          simp only [Option.some.injEq] at h
          subst h
          have hlen := (fetchSensors_some sensors name inputs corr hfetch).1
          have hne : corr ≠ [] := by
            intro hc; subst hc; simp [corrNChans] at hn'
          have hnn : n' = n := by
            have := corrNChans_uniform corr n hne (fun s hsm => by
              obtain ⟨h1, h2⟩ := hcorr s hsm
              refine ⟨?_, h2⟩
              intro hs0; subst hs0; simp at h1; omega)
            rw [this] at hn'
            exact (Except.ok.inj hn').symm
          subst hnn
          simp only [wfProduct, Bool.and_eq_true, beq_iff_eq, List.all_eq_true, decide_eq_true_eq]
          refine ⟨hlen, ?_⟩
          intro s hsm
          obtain ⟨h1, h2⟩ := hcorr s hsm
          refine ⟨h1, ?_⟩
          intro g hg
          have hgl := h2 g hg
          -- which map was chosen
          unfold chooseMap
          split
          · rename_i h1'
            simp [chanOK, hgl, h1']
          · split
            · rename_i _ hd
              simp [chanOK, hgl, hd.1]
            · rename_i h1' hd
              obtain ⟨hel, hek⟩ := expandMap_ok dataFreqs cf hcfne
              have hnC : n' = cf.length := by
                rcases hn with hn | hn | hn
                · exact absurd hn h1'
                · by_contra hC
                  apply hd
                  refine ⟨hn, Or.inl ?_⟩
                  intro hcd
                  exact hC (by omega)
                · exact hn
              simp only [chanOK, Bool.and_eq_true, beq_iff_eq, List.all_eq_true, decide_eq_true_eq]
              refine ⟨hel, ?_⟩
              intro k hk
              have := hek k hk
              omega

end wf

end ApplyCal
