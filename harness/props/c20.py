"""C20 - lazily initialised shared state is safe under every thread interleaving.

Real katdal objects (DaskLazyIndexer, SpectralWindow, SensorCache, chunkstore_s3._Pool) are driven
by 2-3 real Python threads under the controlled scheduler of harness/sched.py.  For every explored
schedule
  * nothing may raise, no deadlock, and every thread's results must equal the single-thread results
    (a failure here is a concrete violation; replay = the schedule);
  * the sequence of abstract states observed at the yield points is sent to the Lean driver
    `kd_c20`, which checks that every observed transition is a step (<= FUEL steps of the moving
    thread) of the transition systems in KatdalModel/Model/Threads.lean - the systems the theorems
    of KatdalModel/Props/C20.lean are about.
Finally multi-threaded dask loads are compared with synchronous ones for several worker counts.
"""
import ast
import functools
import inspect
import json
import logging
import os
import textwrap
import time

import dask
import dask.array as da
import numpy as np

from harness import common, sched
from harness.common import Broken

RULE = ('cases = schedules of 2-3 real threads doing first accesses on one shared object, enumerated depth-first '
        'with a preemption bound (2 quick / 3 thorough; yield points = source lines of the methods of the anchored '
        'classes, in the thorough tier every line of the anchored files, plus failed lock acquisitions), then '
        'seeded random preemption plans when the tree is larger than the per-object budget.  Objects: DaskLazyIndexer '
        '(keep + transform; .dataset / [idx] / .shape; also an indexer nested in another), SpectralWindow.channel_freqs, '
        'SensorCache (raw float + categorical sensors, a virtual sensor and a virtual sensor over a virtual sensor; '
        'get(name) / cache[name] for equal and different names), chunkstore_s3._Pool with a counting factory '
        '(bodies that finish and bodies that raise).  Each schedule: no exception, no deadlock, results == '
        'single-thread results, and the observed abstract trace is validated step by step against the Lean '
        'transition system.  non-trivial = the schedule switches threads at least once; '
        'distinct = hash of (object, variant, schedule).  load cases = DaskLazyIndexer.get on DictChunkStore-backed '
        'arrays, threaded scheduler with 1-8 workers vs synchronous.')
TRUSTED = ['Lean 4.33 kernel', 'axioms: propext, Classical.choice, Quot.sound only',
           'hand-written transition systems KatdalModel/Model/Threads.lean tied to /repo by trace refinement '
           'under the controlled scheduler (harness/sched.py)',
           'CPython: a source line of the anchored code is the unit of interleaving (bytecode-level races inside '
           'one line are not explored); sys.settrace line events; frame introspection',
           'abstraction functions in harness/props/c20.py (AST classification of the anchored methods\' lines)',
           'dask scheduler internals are not modelled (load comparison is a sampled test)']
CHECKER = 'lake build KatdalModel.Props.C20 kd_c20 && lake env lean <#print axioms audit>'
FUEL = 6

ANCHOR_FILES = ('lazy_indexer.py', 'spectral_window.py', 'sensordata.py', 'chunkstore_s3.py')


# ------------------------------------------------------------------------------------------------
# abstraction helpers

def _func_ast(func):
    src = textwrap.dedent(inspect.getsource(func))
    tree = ast.parse(src)
    node = tree.body[0]
    first = func.__code__.co_firstlineno
    # inspect.getsource starts at co_firstlineno (the decorator line for decorated functions)
    return node, first - 1


def _is_self_attr(node, attr):
    return (isinstance(node, ast.Attribute) and isinstance(node.value, ast.Name) and node.value.id == 'self'
            and node.attr == attr)


def _mentions(node, attr):
    return any(_is_self_attr(n, attr) for n in ast.walk(node))


@functools.lru_cache(maxsize=None)
def lazy_line_map(func, value_attr, input_attr):
    """line number -> abstract pc class of the lazy-property getter `func`.

    'w' = the `with` line (acquiring, or releasing when the thread already owns the lock), 'c' = the
    emptiness check, 's' = publishing an already computed local (`self.<value> = name`),
    'x' = clearing the input, 'r' = return, everything else inside the function = 'm' (compute)."""
    node, off = _func_ast(func)
    out = {}

    def mark(n, tag, whole=True):
        last = n.end_lineno if whole else n.lineno
        for ln in range(n.lineno, last + 1):
            out[ln + off] = tag

    def walk(stmts):
        for st in stmts:
            if isinstance(st, ast.With):
                mark(st, 'w', whole=False)
                walk(st.body)
            elif isinstance(st, ast.If) and _mentions(st.test, value_attr):
                mark(st.test, 'c')
                walk(st.body)
                walk(st.orelse)
            elif isinstance(st, ast.Return):
                mark(st, 'r')
            elif (isinstance(st, ast.Assign) and len(st.targets) == 1 and _is_self_attr(st.targets[0], value_attr)):
                mark(st, 's' if isinstance(st.value, ast.Name) else 'm')
            elif (input_attr and isinstance(st, ast.Assign) and len(st.targets) == 1
                  and _is_self_attr(st.targets[0], input_attr)
                  and isinstance(st.value, ast.Constant) and st.value.value is None):
                mark(st, 'x')
            elif isinstance(st, ast.Expr) and isinstance(st.value, ast.Constant):
                continue        # docstring
            else:
                mark(st, 'm')
    walk(node.body)
    return out


@functools.lru_cache(maxsize=None)
def pool_line_maps(pool_cls):
    """line -> pc class for _Pool.get ('W' with, 'C' check, 'N' factory, 'P' pop),
    _Pool.put ('w' with, 'p' append) and _Pool.__call__ ('A' before get, 'u' afterwards)."""
    maps = {}
    node, off = _func_ast(pool_cls.get)
    m = {}
    for st in ast.walk(node):
        if isinstance(st, ast.With):
            m[st.lineno + off] = 'W'
        elif isinstance(st, ast.If):
            for ln in range(st.test.lineno, st.test.end_lineno + 1):
                m[ln + off] = 'C'
        elif isinstance(st, (ast.Return, ast.Assign, ast.Expr)):
            src = ast.dump(st)
            tag = 'N' if '_factory' in src else ('P' if "attr='pop'" in src else None)
            if tag:
                for ln in range(st.lineno, st.end_lineno + 1):
                    m[ln + off] = tag
    maps['get'] = m
    node, off = _func_ast(pool_cls.put)
    m = {}
    for st in ast.walk(node):
        if isinstance(st, ast.With):
            m[st.lineno + off] = 'w'
        elif isinstance(st, ast.Expr) and "attr='append'" in ast.dump(st):
            for ln in range(st.lineno, st.end_lineno + 1):
                m[ln + off] = 'p'
    maps['put'] = m
    call = pool_cls.__call__
    call = getattr(call, '__wrapped__', call)
    node, off = _func_ast(call)
    m = {}
    seen_get = False
    for st in node.body:
        if isinstance(st, ast.Expr) and isinstance(st.value, ast.Constant):
            continue
        tag = 'u' if seen_get else 'A'
        if not seen_get and "attr='get'" in ast.dump(st):
            seen_get = True
        for ln in range(st.lineno, st.end_lineno + 1):
            m[ln + off] = tag
    maps['call'] = m
    maps['call_code'] = call.__code__
    return maps


def class_codes(cls):
    """code objects of all functions / properties / static and class methods defined in `cls`"""
    out = []
    for v in vars(cls).values():
        f = v
        if isinstance(v, property):
            f = v.fget
        elif isinstance(v, (staticmethod, classmethod)):
            f = v.__func__
        f = getattr(f, '__wrapped__', f)
        code = getattr(f, '__code__', None)
        if code is not None:
            out.append(code)
    return out


def find_frame(worker, code, obj):
    """innermost active frame of `code` with `self is obj` in a parked worker"""
    for f in worker.frames():
        if f.f_code is code and f.f_locals.get('self') is obj:
            return f
    return None


def canon(x):
    """canonical, comparable form of a result"""
    if hasattr(x, 'events') and hasattr(x, 'indices'):     # CategoricalData
        x = x[:]
    if isinstance(x, np.ndarray):
        return ('arr', str(x.dtype.kind), x.shape, x.tolist())
    if isinstance(x, (list, tuple)):
        return [canon(v) for v in x]
    if isinstance(x, np.generic):
        return x.item()
    if isinstance(x, np.dtype):
        return str(x)
    return x


# ------------------------------------------------------------------------------------------------
# scenarios

class LazyMonitor:
    """abstraction of one lazily initialised attribute of one object to Threads.Lazy"""

    def __init__(self, obj, getter, value_attr, input_attr, lock_attr, nthreads, accesses, clears):
        self.obj, self.code = obj, getter.__code__
        self.value_attr, self.input_attr, self.lock_attr = value_attr, input_attr, lock_attr
        self.n, self.A, self.clears = nthreads, accesses, clears
        self.lines = lazy_line_map(getter, value_attr, input_attr)
        self.acc = [dict(frame=None, count=0) for _ in range(nthreads)]
        self.events = []

    def lock(self):
        lk = getattr(self.obj, self.lock_attr, None)
        return lk if isinstance(lk, sched.ILock) else None

    def observe(self, s, t):
        lk = self.lock()
        fresh = None          # the moving thread entered a new access during this step
        frames = {}
        for w in s.workers:
            a = self.acc[w.idx]
            f = find_frame(w, self.code, self.obj) if w.state != 'done' else None
            if f is not None and f is not a['frame']:
                a['count'] += 1
                if a['count'] > self.A:
                    raise Broken(f'thread {w.idx} made more than {self.A} accesses (harness bound)')
                if a['count'] > 1 and w.idx == t:
                    fresh = w.idx
            a['frame'] = f
            frames[w.idx] = f
        v = 1 if getattr(self.obj, self.value_attr) is not None else 0
        i = 1 if (self.input_attr is None or getattr(self.obj, self.input_attr) is not None) else 0

        def snapshot(between):
            """`between`: the state after the moving thread's previous access returned and before its
            next access (made without a yield point in between) entered the getter"""
            pcs, owner = [], None
            for w in s.workers:
                a = self.acc[w.idx]
                cnt = a['count'] - (1 if (between and w.idx == fresh) else 0)
                f = None if (between and w.idx == fresh) else frames[w.idx]
                for k in range(self.A):
                    if k < cnt - 1:
                        pcs.append('d')
                    elif k == cnt - 1:
                        if f is None:
                            pcs.append('d')
                        else:
                            tag = self.lines.get(f.f_lineno, 'm')
                            if tag == 'w':
                                tag = 'r' if (lk is not None and lk.owner == w.idx) else 'a'
                            pcs.append(tag)
                    else:
                        pcs.append('i')
                if lk is not None and lk.owner == w.idx and not (between and w.idx == fresh):
                    owner = w.idx * self.A + max(cnt - 1, 0)
            mt = 0
            if t is not None:
                cnt = self.acc[t]['count'] - (1 if (between and t == fresh) else 0)
                mt = t * self.A + max(cnt - 1, 0)
            return f"{mt}:{'_' if owner is None else owner}:{v}:{i}:{''.join(pcs)}"
        if fresh is not None:
            self.events.append(snapshot(True))
        self.events.append(snapshot(False))

    def request(self):
        return f"lazy 1 {1 if self.clears else 0} {self.n * self.A} {FUEL} {';'.join(self.events)}"


def _x3p1(a):
    return a * 3 + 1


def _neg(a):
    return -a


class DaskScenario:
    """DaskLazyIndexer over a small dask array with a keep and a transform."""
    kind = 'dask'

    def __init__(self, variant):
        self.variant = variant
        self.programs = variant['programs']
        self.n = len(self.programs)
        self.nested = variant.get('nested', False)
        self.name = f"dask{'-nested' if self.nested else ''}{'-bare' if variant.get('bare') else ''}-{self.n}t"

    def _make(self):
        from katdal.lazy_indexer import DaskLazyIndexer
        src = np.arange(4 * 6, dtype=np.int64).reshape(4, 6)
        base = da.from_array(src, chunks=(2, 3))
        if self.nested:
            inner = DaskLazyIndexer(base, (slice(1, 4), slice(None)), [_x3p1])
            outer = DaskLazyIndexer(inner, (slice(None), [0, 2, 3, 5]), [_neg])
            return dict(outer=outer, inner=inner)
        if self.variant.get('bare'):
            # no first-stage selection, no transforms (how the v4 reader builds its timestamps-like indexers)
            return dict(outer=DaskLazyIndexer(base))
        ind = DaskLazyIndexer(base, (slice(1, 4), [0, 2, 3, 5]), [_x3p1])
        return dict(outer=ind)

    def build(self, s):
        from katdal.lazy_indexer import DaskLazyIndexer
        objs = self._make()
        self.monitors = []
        getter = DaskLazyIndexer.dataset.fget
        A = max(len(p) for p in self.programs)
        for nm, o in objs.items():
            if s is not None:
                if hasattr(o, '_lock'):
                    o._lock = s.make_lock(False, f'{nm}._lock')
                self.monitors.append(LazyMonitor(o, getter, '_dataset', '_orig_dataset', '_lock', self.n, A, True))
        self.objs = objs
        return [self._fn(p) for p in self.programs]

    def _fn(self, program):
        def fn():
            out = []
            for op in program:
                tgt, _, what = op.partition('.')
                o = self.objs[tgt]
                if what == 'dataset':
                    out.append(np.asarray(o.dataset.compute(scheduler='synchronous')))
                elif what == 'getitem':
                    out.append(o[1:, ::2])
                elif what == 'shape':
                    out.append(tuple(o.shape))
                elif what == 'dtype':
                    out.append(str(o.dtype))
                elif what == 'len':
                    out.append(len(o))
                else:
                    raise Broken(f'unknown op {op}')
            return canon(out)
        return fn

    def final_check(self):
        for nm, o in self.objs.items():
            if o._dataset is not None and o._orig_dataset is not None:
                return f'{nm}: value published but the input was not released'
        return None


class SpwScenario:
    kind = 'spw'

    def __init__(self, variant):
        self.variant = variant
        self.programs = variant['programs']
        self.n = len(self.programs)
        self.name = f'spw-{self.n}t'

    def build(self, s):
        from katdal.spectral_window import SpectralWindow
        spw = SpectralWindow(1284e6, 0.0, 16, 'c856M4k', sideband=1, bandwidth=856e6)
        self.spw = spw
        self.monitors = []
        if s is not None:
            if hasattr(spw, '_channel_freqs_lock'):
                spw._channel_freqs_lock = s.make_lock(False, 'spw._channel_freqs_lock')
            A = max(len(p) for p in self.programs)
            self.monitors.append(LazyMonitor(spw, SpectralWindow.channel_freqs.fget, '_channel_freqs', None,
                                             '_channel_freqs_lock', self.n, A, False))
        return [self._fn(p) for p in self.programs]

    def _fn(self, program):
        def fn():
            out = []
            for op in program:
                if op == 'freqs':
                    out.append(self.spw.channel_freqs)
                elif op == 'freq3':
                    out.append(float(self.spw.channel_freqs[3]))
                else:
                    raise Broken(f'unknown op {op}')
            return canon(out)
        return fn

    def final_check(self):
        return None


# -- sensor cache --------------------------------------------------------------------------------

SENSOR_KEYS = ['foo', 'bar', 'cat', 'Virt/a/sum', 'Virt2/a/top', 'nope', 'Virt3/a/broken']
SENSOR_KINDS = 'r;r;r;v:0,1;v:3,0;m;v:0,5'


def _virt_sum(cache, name, x):
    """virtual sensor: creation looks up two raw sensors (recursive get) and stores the result"""
    v = cache.get('foo') + cache.get('bar')
    cache[name] = v
    return v


def _virt_top(cache, name, x):
    """virtual sensor over a virtual sensor"""
    v = cache.get(f'Virt/{x}/sum') * 2.0 + cache.get('foo')
    cache[name] = v
    return v


def _virt_broken(cache, name, x):
    """virtual sensor whose creation asks for an unknown sensor: the KeyError leaves two nested `get` calls"""
    v = cache.get('foo') + cache.get('nope')
    cache[name] = v
    return v


class CacheScenario:
    kind = 'cache'

    def __init__(self, variant):
        self.variant = variant
        self.programs = variant['programs']       # per thread: list of [how, key index]
        self.n = len(self.programs)
        self.name = f'cache-{self.n}t'

    def build(self, s):
        from katdal.sensordata import SensorCache, SensorGetter, SimpleSensorGetter
        self.SensorGetter = SensorGetter
        data = {}
        for name, ts, vals in [('foo', [4.0, 7.0], [3.0, 6.0]), ('bar', [1.0, 8.0], [10.0, 24.0]),
                               ('cat', [2.0, 6.0], ['hello', 'world'])]:
            data[name] = SimpleSensorGetter(name, np.asarray(ts), np.asarray(vals))
        virtual = {'Virt/{x}/sum': _virt_sum, 'Virt2/{x}/top': _virt_top, 'Virt3/{x}/broken': _virt_broken}
        cache = SensorCache(data, timestamps=np.arange(10.), dump_period=1.0, keep=slice(2, 8), virtual=virtual)
        self.cache = cache
        self.get_code = SensorCache.get.__code__
        self.events = []
        if s is not None and hasattr(cache, '_lock'):
            reentrant = 'RLock' in type(cache._lock).__name__
            self.reentrant_src = reentrant
            cache._lock = s.make_lock(reentrant, 'cache._lock')
        return [self._fn(p) for p in self.programs]

    def _fn(self, program):
        def fn():
            out = []
            for how, k in program:
                name = SENSOR_KEYS[k]
                try:
                    out.append(self.cache[name] if how == 'item' else self.cache.get(name))
                except KeyError:
                    # what get_with_fallback() does with an unknown name: note it and carry on
                    out.append('KeyError')
            return canon(out)
        return fn

    def observe(self, s, t):
        cache = self.cache
        lk = cache._lock if isinstance(getattr(cache, '_lock', None), sched.ILock) else None
        owner = '_' if lk is None or lk.owner is None else lk.owner
        depth = 0 if lk is None else lk.count
        bits = ''.join('1' if (nm in cache._raw and not isinstance(cache._raw[nm], self.SensorGetter)) else '0'
                       for nm in SENSOR_KEYS)
        stacks = []
        for w in s.workers:
            ks = []
            if w.state != 'done':
                for f in w.frames():
                    if f.f_code is self.get_code and f.f_locals.get('self') is cache:
                        nm = f.f_locals.get('name')
                        ks.append(str(SENSOR_KEYS.index(nm)) if nm in SENSOR_KEYS else '99')
            stacks.append(','.join(ks) if ks else '-')
        self.events.append(f"{0 if t is None else t}:{owner}:{depth}:{bits}:{'|'.join(stacks)}")

    def requests(self):
        progs = '|'.join(','.join(str(k) for _, k in p) if p else '-' for p in self.programs)
        keys = ','.join(str(i) for i in range(len(SENSOR_KEYS)))
        return [f"rcache 1 {self.n} {FUEL} {SENSOR_KINDS} {progs} {keys} {';'.join(self.events)}"]

    def final_check(self):
        return None


class _PoisonedNumpy:
    """numpy with a recognisable `empty`: memory that np.empty hands out is filled with NaN, so that a thread which
    reads an output array before its producer has filled it cannot receive, by accident of the allocator, the
    values an earlier run left in the same block (what a memory sanitizer does for C)"""

    def __getattr__(self, k):
        return getattr(np, k)

    @staticmethod
    def empty(shape, dtype=float, **kw):
        a = np.empty(shape, dtype, **kw)
        if a.dtype.kind in 'fc':
            a.fill(np.nan)
        return a


class RealCacheScenario:
    """The data set's own virtual sensors (katdal.dataset.DEFAULT_VIRTUAL_SENSORS, whose creation functions look up
    several sensors and register more than one result) first-accessed from several threads.  Judged on the values
    the threads obtain only; the lock protocol is the CacheScenario's."""
    kind = 'dvcache'

    def __init__(self, variant):
        self.variant = variant
        self.programs = variant['programs']       # per thread: list of sensor names
        self.n = len(self.programs)
        self.name = f'dvcache-{self.n}t'

    def build(self, s):
        import katpoint
        from katdal.categorical import CategoricalData
        from katdal.dataset import DEFAULT_SENSOR_PROPS, DEFAULT_VIRTUAL_SENSORS
        from katdal.sensordata import SensorCache
        from harness.props.c12 import ANT_ARRAY, ANT_M000
        import katdal.dataset
        if not isinstance(katdal.dataset.np, _PoisonedNumpy):
            katdal.dataset.np = _PoisonedNumpy()
        T = 4
        ts = 1600000000.0 + 8.0 * np.arange(T)
        ant, arr = katpoint.Antenna(ANT_M000), katpoint.Antenna(ANT_ARRAY)
        tgt = katpoint.construct_azel_target(0.4, 0.9)
        keep = np.array([False, True, True, False])
        cache = SensorCache({}, ts, 8.0, keep=keep, props=DEFAULT_SENSOR_PROPS, virtual=dict(DEFAULT_VIRTUAL_SENSORS))
        cache['Observation/target'] = CategoricalData([tgt], [0, T])
        cache['Antennas/m000/antenna'] = CategoricalData([ant], [0, T])
        cache['Antennas/array/antenna'] = CategoricalData([arr], [0, T])
        cache['Antennas/m000/az'] = 0.4 + 0.01 * np.arange(T)
        cache['Antennas/m000/el'] = 0.9 - 0.01 * np.arange(T)
        self.cache = cache
        if s is not None and hasattr(cache, '_lock'):
            cache._lock = s.make_lock('RLock' in type(cache._lock).__name__, 'cache._lock')
        return [self._fn(p) for p in self.programs]

    def _fn(self, program):
        def fn():
            out = []
            for name in program:
                if name in ('<repr>', '<str>'):
                    # walks over every name of the cache while other threads add names to it
                    text = repr(self.cache) if name == '<repr>' else str(self.cache)
                    out.append(bool(text))
                    continue
                v = np.asarray(self.cache[name], dtype=float)
                out.append(np.round(v, 9))
            return canon(out)
        return fn

    def observe(self, s, t):
        pass

    def requests(self):
        return []

    def final_check(self):
        return None


# -- pool -----------------------------------------------------------------------------------------

class _BodyError(Exception):
    pass


class _Item:
    def __init__(self, ident):
        self.ident = ident


class _TrackList(list):
    """the pool's free list; records which worker popped / appended which item"""
    scen = None

    def pop(self, *a):
        item = super().pop(*a)
        self.scen._obtained(item.ident)
        return item

    def append(self, item):
        super().append(item)
        self.scen._returned(item.ident)


class PoolScenario:
    kind = 'pool'

    def __init__(self, variant):
        self.variant = variant
        self.plans = variant['plans']        # per thread: string of '1' (body finishes) / '0' (body raises)
        self.n = len(self.plans)
        self.name = f'pool-{self.n}t'

    def _who(self):
        w = self.s.worker_of_current_thread() if self.s is not None else None
        return None if w is None else w.idx

    def _obtained(self, ident):
        t = self._who()
        if t is not None:
            self.held[t] = ident

    def _returned(self, ident):
        t = self._who()
        if t is not None:
            self.held[t] = None

    def _factory(self):
        ident = self.made
        self.made += 1
        self._obtained(ident)
        return _Item(ident)

    def build(self, s):
        from katdal.chunkstore_s3 import _Pool
        self.s = s
        self.made = 0
        self.held = [None] * self.n
        self.events = []
        self.direct = None
        pool = _Pool(self._factory)
        lst = _TrackList()
        lst.scen = self
        pool._pool = lst
        self.maps = pool_line_maps(_Pool)
        self.codes = {_Pool.get.__code__: 'get', _Pool.put.__code__: 'put', self.maps['call_code']: 'call'}
        if s is not None and hasattr(pool, '_lock'):
            pool._lock = s.make_lock(False, 'pool._lock')
        self.pool = pool
        return [self._fn(t, p) for t, p in enumerate(self.plans)]

    def _fn(self, t, plan):
        def fn():
            got = 0
            for b in plan:
                try:
                    with self.pool() as item:
                        if not isinstance(item, _Item):
                            raise Broken('pool handed out a foreign object')
                        got += 1
                        if b == '0':
                            raise _BodyError()
                except _BodyError:
                    self.held[t] = None
            return got
        return fn

    def observe(self, s, t):
        pool = self.pool
        lk = pool._lock if isinstance(getattr(pool, '_lock', None), sched.ILock) else None
        owner = '_' if lk is None or lk.owner is None else lk.owner
        free = [it.ident for it in reversed(pool._pool)]
        pcs = []
        for w in s.workers:
            if w.state == 'done':
                pcs.append('d')
                continue
            pc = 'i'
            for f in w.frames():
                which = self.codes.get(f.f_code)
                if which is None or f.f_locals.get('self') is not pool:
                    continue
                tag = self.maps[which].get(f.f_lineno)
                if which == 'get':
                    if tag == 'W':
                        tag = 'R' if (lk is not None and lk.owner == w.idx) else 'A'
                    pc = tag or 'C'
                elif which == 'put':
                    if tag == 'w':
                        tag = 'r' if (lk is not None and lk.owner == w.idx) else 'a'
                    pc = tag or 'p'
                else:
                    pc = tag or 'u'
                break
            pcs.append(pc)
        helds = ['_' if h is None else str(h) for h in self.held]
        live = [h for h in self.held if h is not None]
        if self.direct is None:
            if len(set(live)) != len(live):
                self.direct = f'item handed to two threads at once: held={self.held}'
            elif set(live) & set(free):
                self.direct = f'a borrowed item is also in the free list: held={self.held} free={free}'
            elif len(set(free)) != len(free):
                self.direct = f'free list holds an item twice: {free}'
        self.events.append(f"{0 if t is None else t}:{owner}:{','.join(map(str, free)) if free else '-'}:"
                           f"{self.made}:{''.join(pcs)}:{','.join(helds)}")

    def requests(self):
        plans = '|'.join(p if p else '-' for p in self.plans)
        return [f"pool 1 {self.n} {FUEL} {plans} {';'.join(self.events)}"]

    def final_check(self):
        return self.direct


def attach_lazy(scen):
    """give Dask/Spw scenarios the observe/requests interface via their monitors"""
    def observe(s, t):
        for m in scen.monitors:
            m.observe(s, t)

    def requests():
        return [m.request() for m in scen.monitors]
    scen.observe, scen.requests = observe, requests


def make_scenario(kind, variant):
    if kind == 'dask':
        sc = DaskScenario(variant)
        attach_lazy(sc)
    elif kind == 'spw':
        sc = SpwScenario(variant)
        attach_lazy(sc)
    elif kind == 'cache':
        sc = CacheScenario(variant)
    elif kind == 'pool':
        sc = PoolScenario(variant)
    elif kind == 'dvcache':
        sc = RealCacheScenario(variant)
    else:
        raise Broken(f'unknown scenario kind {kind}')
    return sc


# ------------------------------------------------------------------------------------------------
# running schedules

@functools.lru_cache(maxsize=None)
def traced_codes():
    from katdal.chunkstore_s3 import _Pool
    from katdal.lazy_indexer import DaskLazyIndexer
    from katdal.sensordata import SensorCache
    from katdal.spectral_window import SpectralWindow
    codes = class_codes(DaskLazyIndexer) + class_codes(_Pool)
    codes.append(SpectralWindow.channel_freqs.fget.__code__)
    # SensorCache: the public entry points; the long static helpers (_extract, _get_props) run under the
    # lock and are yield points in the thorough tier only
    # (_get_props iterates over the shared props dict: a yield point in every tier)
    for nm in ('get', '__getitem__', '__setitem__', '__delitem__', '__contains__', 'get_with_fallback', '_get_props',
               '__repr__', '__str__', '__iter__', '__len__'):
        f = getattr(SensorCache, nm, None)
        if f is not None and hasattr(f, '__code__'):
            codes.append(f.__code__)
    return tuple(codes)


@functools.lru_cache(maxsize=None)
def anchor_paths():
    import katdal
    d = os.path.dirname(katdal.__file__)
    return [os.path.join(d, f) for f in ANCHOR_FILES]


def sequential_results(kind, variant):
    """What a single thread obtains: the programs run to completion one after the other (a controlled run
    without any preemption, so that even a self-deadlock of the real code is detected instead of hanging).
    Returns (results, failure text | None, schedule)."""
    res, _ = run_one(kind, variant, sched.fixed_chooser([]), False)
    bad = None
    for t, e in enumerate(res['excs']):
        if e is not None:
            if isinstance(e, Broken):
                raise e
            bad = f'thread {t} raised {type(e).__name__}: {str(e)[:120]} (no preemption at all)'
            break
    if bad is None and res['deadlock']:
        bad = f"deadlock without any preemption: blocked = {res['blocked']}"
    return res['results'], bad, res['schedule']


def run_one(kind, variant, chooser, fine, timeout=30.0):
    """one controlled run; returns (result dict, scenario)"""
    s = sched.Scheduler(files=anchor_paths(), codes=traced_codes(), fine=fine, timeout=timeout)
    sc = make_scenario(kind, variant)
    fns = sc.build(s)
    try:
        res = s.run(fns, chooser, observe=sc.observe)
    except sched.SchedBroken as e:
        raise Broken(f'controlled scheduler failed on {sc.name}: {e}')
    res['final'] = sc.final_check()
    res['requests'] = sc.requests()
    return res, sc


def concrete_failure(res, expected):
    """text describing how this run breaks the property on the real code, or None"""
    for t, e in enumerate(res['excs']):
        if e is not None:
            if isinstance(e, Broken):
                raise e
            return f'thread {t} raised {type(e).__name__}: {str(e)[:120]}'
    if res['deadlock']:
        return f"deadlock: no thread can run, blocked = {res['blocked']}"
    for t, (got, want) in enumerate(zip(res['results'], expected)):
        if got != want:
            return f'thread {t} obtained {str(got)[:100]} but a single thread obtains {str(want)[:100]}'
    if res['final']:
        return res['final']
    return None


def preemptions(schedule):
    return sum(1 for a, b in zip(schedule, schedule[1:]) if a != b)


class Explorer:
    """drives sched.explore and keeps the generator's `exhausted` flag"""

    def __init__(self, run_once, bound, max_runs, rotate):
        self.gen = sched.explore(run_once, bound, max_runs, rotate)
        self.exhausted = False

    def __iter__(self):
        while True:
            try:
                yield next(self.gen)
            except StopIteration as e:
                self.exhausted = bool(e.value)
                return


def explore_scenario(ctx, kind, variant, bound, max_runs, fine, extra_random=0):
    """Explore one scenario.  Returns dict(concrete=(case, text)|None, requests=[(line, case)], runs=int)."""
    expected, seq_bad, seq_schedule = sequential_results(kind, variant)
    out = dict(concrete=None, requests=[], runs=0, exhausted=False, name=None)

    def case_of(schedule):
        return dict(object=kind, variant=variant, schedule=list(schedule), fine=fine)
    if seq_bad:
        out['concrete'] = (dict(case_of(seq_schedule), fine=False), seq_bad)
        out['name'] = make_scenario(kind, variant).name
        return out

    def handle(res, sc):
        out['name'] = sc.name
        out['runs'] += 1
        schedule = res['schedule']
        ctx.count((kind, json.dumps(variant, sort_keys=True), tuple(schedule)), preemptions(schedule) > 0,
                  sample={'object': sc.name, 'schedule': ''.join(map(str, schedule))[:120]})
        ctx.tag(f'obj-{sc.name}', f'preemptions-{min(preemptions(schedule), 9)}')
        if res['deadlock']:
            ctx.tag('deadlock')
        bad = concrete_failure(res, expected)
        if bad and out['concrete'] is None:
            out['concrete'] = (case_of(schedule), bad)
        for line in res['requests']:
            out['requests'].append((line, case_of(schedule)))
        return bad

    def run_once(chooser):
        return run_one(kind, variant, chooser, fine)

    ex = Explorer(run_once, bound, max_runs, rotate=ctx.seed)
    for res, sc in ex:
        if handle(res, sc):
            return out
    out['exhausted'] = ex.exhausted
    ctx.tag(f"{'exhaustive' if ex.exhausted else 'capped'}-bound{bound}-{out['name']}")
    if not ex.exhausted or extra_random:
        # the tree is larger than the budget (DFS has covered the late preemption points): add seeded
        # random preemption plans with up to bound+1 preemptions spread over the whole run
        res0, _ = run_one(kind, variant, sched.fixed_chooser([]), fine)
        length = max(1, len(res0['schedule']))
        nthreads = len(expected)
        for _ in range(extra_random or max_runs // 3):
            k = ctx.rng.randint(1, bound + 1)
            plan = {ctx.rng.randrange(length): ctx.rng.randrange(nthreads) for _ in range(k)}
            res, sc = run_one(kind, variant, sched.plan_chooser(plan), fine)
            if handle(res, sc):
                return out
    return out


def validate_traces(ctx, requests):
    """send the distinct trace lines to the Lean driver; returns list of (case, line, reply) that failed"""
    distinct = {}
    for line, case in requests:
        distinct.setdefault(line, case)
    lines = list(distinct)
    failed = []
    for i in range(0, len(lines), 2000):
        chunk = lines[i:i + 2000]
        for line, rep in zip(chunk, common.run_model('C20', chunk)):
            if rep.startswith('ok'):
                continue
            if rep == 'bad-op':
                raise Broken(f'driver rejected the request {line[:200]}')
            failed.append((distinct[line], line, rep))
    ctx.traces_validated += len(requests)
    ctx.extra['distinct_traces_validated'] = ctx.extra.get('distinct_traces_validated', 0) + len(lines)
    return failed


# ------------------------------------------------------------------------------------------------
# scenarios of one run

def variants(ctx):
    """[(kind, variant, preemption bound, max DFS runs)] - deterministic given the seed"""
    r = ctx.rng
    b2, b3 = ctx.q(2, 3), ctx.q(2, 3)
    q = ctx.q

    def pick(*alts):
        return alts[r.randrange(len(alts))]
    out = []
    # DaskLazyIndexer: .dataset / [idx] / .shape from 2 and 3 threads, and an indexer inside an indexer
    out.append(('dask', dict(programs=pick([['outer.dataset', 'outer.getitem'], ['outer.shape']],
                                           [['outer.getitem'], ['outer.shape', 'outer.dataset']],
                                           [['outer.len', 'outer.getitem'], ['outer.dataset']])), b2, q(400, 3000)))
    out.append(('dask', dict(programs=pick([['outer.getitem'], ['outer.shape'], ['outer.dataset']],
                                           [['outer.dataset'], ['outer.getitem'], ['outer.dtype']])), b3, q(300, 2500)))
    out.append(('dask', dict(nested=True, programs=pick([['outer.getitem'], ['inner.shape']],
                                                        [['outer.shape'], ['inner.getitem']],
                                                        [['inner.dataset'], ['outer.dataset']])), b2, q(300, 2500)))
    out.append(('dask', dict(bare=True, programs=pick([['outer.shape'], ['outer.dataset']],
                                                      [['outer.len', 'outer.getitem'], ['outer.getitem']],
                                                      [['outer.dataset'], ['outer.shape', 'outer.len']])), b2, q(300, 2500)))
    # SpectralWindow.channel_freqs
    out.append(('spw', dict(programs=pick([['freqs', 'freq3'], ['freqs']], [['freq3'], ['freqs', 'freqs']])),
                q(3, 4), q(300, 3000)))
    out.append(('spw', dict(programs=[['freqs'], ['freq3'], ['freqs']]), b3, q(250, 3000)))
    # SensorCache: same name, different names, virtual sensor whose creation recurses
    out.append(('cache', dict(programs=pick([[['get', 4]], [['item', 0], ['get', 3]]],
                                            [[['get', 3]], [['get', 3], ['item', 2]]],
                                            [[['item', 4]], [['get', 4]]])), b2, q(400, 4000)))
    out.append(('cache', dict(programs=pick([[['get', 3]], [['item', 3]], [['get', 2], ['item', 1]]],
                                            [[['get', 4]], [['item', 1]], [['get', 0]]])), b2, q(300, 3000)))
    # lookups that raise (unknown name; creation function that asks for one) before and between good ones
    out.append(('cache', dict(programs=pick([[['get', 5], ['get', 0]], [['item', 2], ['get', 3]]],
                                            [[['get', 6], ['item', 1]], [['get', 3]]],
                                            [[['item', 5], ['get', 6]], [['get', 6], ['item', 0]]])), b2, q(300, 3000)))
    # the data set's own virtual sensors, which register a pair / triple of results per call
    g = 'Antennas/m000/'
    for progs in ([[g + 'target_x_ARC_azel'], [g + 'target_y_ARC_azel', g + 'az']],
                  [[g + 'ra', g + 'parangle'], [g + 'dec', g + 'target_y_SIN_radec']],
                  [[g + 'lst', g + 'target_x_SSN_radec'], [g + 'target_y_SSN_radec', 'Timestamps/mjd', g + 'lst']],
                  [['<repr>', g + 'lst'], ['Timestamps/mjd', g + 'parangle']],
                  [['<str>'], [g + 'ra', '<repr>']]):
        # every single preemption point (bound 1 is exhaustive here), then seeded plans with two
        out.append(('dvcache', dict(programs=progs), 1, q(260, 3000)))
    # _Pool: borrow / return, bodies that raise
    out.append(('pool', dict(plans=pick(['11', '1'], ['11', '11'], ['10', '11'])), q(3, 4), q(500, 6000)))
    out.append(('pool', dict(plans=pick(['11', '1', '1'], ['1', '01', '11'])), b2, q(350, 5000)))
    # in every run whatever the seed: a body that raises first, then two borrowers at the same time
    out.append(('pool', dict(plans=['01', '11']), b2, q(350, 5000)))
    return out


def shrink_schedule(case, expected_fn):
    """shortest prefix of the failing schedule (then 'continue current thread') that still fails"""
    kind, variant, schedule, fine = case['object'], case['variant'], case['schedule'], case.get('fine', False)
    expected = expected_fn(kind, variant)[0]

    def fails(prefix):
        try:
            res, _ = run_one(kind, variant, sched.fixed_chooser(prefix), fine)
            return concrete_failure(res, expected)
        except Broken:
            return None
    best, what = schedule, fails(schedule)
    if not what:
        return case, None
    lo, hi = 0, len(schedule)
    while lo < hi:
        mid = (lo + hi) // 2
        w = fails(schedule[:mid])
        if w:
            hi, best, what = mid, schedule[:mid], w
        else:
            lo = mid + 1
    return dict(case, schedule=list(best)), what


# ------------------------------------------------------------------------------------------------
# multi-threaded load == synchronous load

def load_compare(ctx):
    from katdal.chunkstore_dict import DictChunkStore
    from katdal.lazy_indexer import DaskLazyIndexer
    r = ctx.rng
    bad = []
    for _ in range(ctx.q(10, 150)):
        shape = (r.randint(3, 10), r.randint(4, 16), r.randint(2, 5))
        n = int(np.prod(shape))
        vis = (np.arange(n, dtype=np.float32) * 0.5).reshape(shape)
        flags = (np.arange(n, dtype=np.uint8) % 7).reshape(shape).astype(np.uint8)
        chunks = tuple(tuple(_split(r, d)) for d in shape)
        store = DictChunkStore(vis=vis, flags=flags)
        keep = (slice(r.randint(0, 1), shape[0]), sorted(r.sample(range(shape[1]), r.randint(2, shape[1]))),
                slice(None))
        idx = (slice(None, None, r.choice([1, 2])), slice(r.randint(0, 1), None), r.randrange(shape[2]))
        case = dict(object='load', shape=shape, chunks=chunks, keep=[str(keep[0]), keep[1]], idx=str(idx))

        def build():
            dv = store.get_dask_array('vis', chunks, np.float32)
            df = store.get_dask_array('flags', chunks, np.uint8)
            return [DaskLazyIndexer(dv, keep, [_x3p1]), DaskLazyIndexer(df, keep)]
        with dask.config.set(scheduler='synchronous'):
            ref = DaskLazyIndexer.get(build(), idx)
        expect = [(vis[keep[0]][:, keep[1]] * 3 + 1)[idx], flags[keep[0]][:, keep[1]][idx]]
        if not all(np.array_equal(a, b) for a, b in zip(ref, expect)):
            bad.append((dict(case, workers=0), 'synchronous load differs from numpy indexing of the stored arrays'))
        for workers in (1, 2, 3, 4, 8):
            with dask.config.set(scheduler='threads', num_workers=workers):
                got = DaskLazyIndexer.get(build(), idx)
            ok = all(np.array_equal(a, b) and a.dtype == b.dtype for a, b in zip(got, ref))
            ctx.count(('load', shape, chunks, str(keep), str(idx), workers), True,
                      sample={'object': 'load', 'shape': shape, 'workers': workers})
            ctx.tag(f'load-workers-{workers}')
            if not ok:
                bad.append((dict(case, workers=workers), f'load with {workers} dask workers differs from synchronous load'))
    return bad


def _split(r, d):
    out = []
    while d > 0:
        c = r.randint(1, max(1, min(d, 4)))
        out.append(c)
        d -= c
    return out


def construction_state(ctx):
    """The lazily built array is derived from the state the indexer was constructed from: the first-stage index is
    given as a tuple of mask / index arrays (what DataSet._set_keep hands over), the caller then changes those arrays
    in place (what a later select() does) and only afterwards several threads do their first access."""
    import threading
    from katdal.lazy_indexer import DaskLazyIndexer
    bad = []
    rng = ctx.rng
    for k in range(6):
        T, F = rng.randint(4, 8), rng.randint(3, 6)
        src = np.arange(T * F, dtype=np.int64).reshape(T, F)
        x = da.from_array(src, chunks=(2, 2))
        mt = np.array([rng.random() < 0.5 for _ in range(T)])
        mf = np.array([rng.random() < 0.6 for _ in range(F)])
        if not mt.any():
            mt[0] = True
        if not mf.any():
            mf[0] = True
        keep = (mt, mf) if k % 2 == 0 else (mt, np.flatnonzero(mf))
        want = src[np.ix_(mt.copy(), mf.copy())]
        ind = DaskLazyIndexer(x, keep, [_x3p1] if k % 3 == 0 else [])
        if k % 3 == 0:
            want = _x3p1(want)
        # the owner re-uses its masks for the next selection
        mt[:] = ~mt
        mf[:] = True
        if k % 2:
            keep[1][...] = 0
        outs, errs = [None, None], [None, None]

        def work(i):
            try:
                with dask.config.set(scheduler='synchronous'):
                    outs[i] = np.asarray(ind[:]) if i else (tuple(ind.shape), np.asarray(ind[()]))[1]
            except Exception as e:   # noqa: BLE001
                errs[i] = e
        ths = [threading.Thread(target=work, args=(i,)) for i in range(2)]
        for t in ths:
            t.start()
        for t in ths:
            t.join(20)
        what = None
        for i in range(2):
            if errs[i] is not None:
                what = f'first access after the masks were re-used raised {type(errs[i]).__name__}: {str(errs[i])[:80]}'
            elif outs[i] is None or outs[i].shape != want.shape or not np.array_equal(outs[i], want):
                what = ('the first-stage masks were changed in place between construction and first access: the threads '
                        f'obtain an array of shape {None if outs[i] is None else outs[i].shape} built from the changed masks, '
                        f'the selection in force at construction has shape {want.shape}')
        ctx.tag('construction-state')
        ctx.count(('construction-state', k, T, F), True, sample={'object': 'lazy-indexer-construction-state'})
        if what:
            bad.append((dict(object='session-privacy', check='construction-state', k=k), what))
    return bad


def shared_mapping(ctx):
    """Two sensor caches (own lock, own dump timestamps) built over ONE mapping of sensor getters, each used by its own
    thread: what a thread obtains is the single-thread value for ITS cache whatever the other cache extracted first,
    and the caller's mapping still holds the getters."""
    import threading
    from katdal.sensordata import SensorCache, SensorGetter, SimpleSensorGetter
    bad = []
    for order in ((0, 1), (1, 0)):
        raw = {'temp': SimpleSensorGetter('temp', np.array([0.0, 10.0, 20.0]), np.array([5.0, 25.0, 15.0])),
               'mode': SimpleSensorGetter('mode', np.array([1.0, 12.0]), np.array(['idle', 'track']))}
        grids = [np.arange(0.0, 10.0, 2.0), np.arange(10.0, 20.0, 2.0)]
        want = []
        for g in grids:
            fresh = SensorCache(dict(raw), g, 2.0)
            want.append((np.asarray(fresh.get('temp')).tolist(), [str(x) for x in fresh.get('mode')]))
        caches = [SensorCache(raw, g, 2.0) for g in grids]
        got, errs = [None, None], [None, None]
        turn = [threading.Event(), threading.Event()]

        def work(i):
            try:
                turn[i].wait(10)
                got[i] = (np.asarray(caches[i].get('temp')).tolist(), [str(x) for x in caches[i].get('mode')])
            except Exception as e:   # noqa: BLE001
                errs[i] = e
            finally:
                turn[1 - i].set()
        ths = [threading.Thread(target=work, args=(i,)) for i in range(2)]
        for t in ths:
            t.start()
        turn[order[0]].set()
        for t in ths:
            t.join(20)
        what = None
        for i in range(2):
            if errs[i] is not None:
                what = f'cache {i} over a shared mapping raised {type(errs[i]).__name__}: {str(errs[i])[:80]}'
            elif got[i] != want[i]:
                what = (f'two caches over one mapping of getters, cache {order[0]} first: cache {i} returns {got[i][0][:3]}..., '
                        f'a single thread with that cache alone obtains {want[i][0][:3]}... (it was handed what the other '
                        f'cache extracted for other dumps)')
        if what is None and not all(isinstance(v, SensorGetter) for v in raw.values()):
            what = 'the mapping handed to the caches no longer holds the sensor getters (extraction results were stored in it)'
        ctx.tag('shared-mapping')
        ctx.count(('shared-mapping', order), True, sample={'object': 'two-caches-one-mapping'})
        if what:
            bad.append((dict(object='session-privacy', check='shared-mapping', order=list(order)), what))
    return bad


def session_privacy(ctx):
    """The hypothesis of `pool_session_state_private` (Props/C20.lean): the mutable per-request state of a borrowed
    S3 session (the transport adapter whose `max_retries` S3ChunkStore.request() sets before sending) belongs to that
    session alone.  Two sessions are borrowed at the same time from the store's own pool; the retry policy written
    to one must not show through the other, and nothing mutable is shared between them."""
    from katdal.chunkstore_s3 import S3ChunkStore
    url = 'http://127.0.0.1:9'
    bad = []
    for public_read in (False, True):
        store = S3ChunkStore(url, timeout=(0.1, 0.1), retries=0, public_read=public_read)
        pool = store._session_pool
        with pool() as a, pool() as b:
            what = None
            if a is b:
                what = 'two concurrent borrowers received the same session object'
            else:
                for prefix in a.adapters:
                    if prefix in b.adapters and a.adapters[prefix] is b.adapters[prefix]:
                        what = (f'two sessions borrowed at the same time share one transport adapter for {prefix!r}: '
                                f'the retry policy S3ChunkStore.request() sets on one is seen by the other')
                if what is None:
                    marker = object()
                    a.get_adapter(url).max_retries = marker
                    if b.get_adapter(url).max_retries is marker:
                        what = 'setting max_retries through one borrowed session changed the other session\'s policy'
                if what is None and (a.headers is b.headers or a.cookies is b.cookies):
                    what = 'two sessions borrowed at the same time share their headers / cookies object'
        ctx.tag('session-privacy')
        ctx.count(('session-privacy', public_read), True, sample={'object': 's3-session-privacy'})
        if what:
            bad.append((dict(object='session-privacy', public_read=public_read), what))
    return bad


def bucket_claim(ctx):
    """Shared state behind the pooled sessions: a bucket counts as verified only once its listing has succeeded.
    While the listing request of one thread is in flight (or after it failed) no other thread may find the bucket
    in `_verified_buckets`, or its own 404 would be reported as a plain missing chunk instead of an unavailable
    store.  Observed from inside the listing request itself, for a non-empty, an empty and a missing bucket."""
    from katdal.chunkstore import StoreUnavailable
    from katdal.chunkstore_s3 import S3ChunkStore
    from harness.props.c09 import FastFakeS3
    bad = []
    with FastFakeS3() as s3:
        for state in ('n', 'e', 'm'):
            s3.reset()
            bucket = f'claim-{state}'
            if state in ('n', 'e'):
                s3.buckets.add(bucket)
            if state == 'n':
                s3.objects[f'/{bucket}/zz-other'] = b'x'
            store = S3ChunkStore(s3.url, timeout=(20.0, 20.0), retries=0)
            seen = []
            orig = store.request

            def spy(method, url, *args, _orig=orig, _store=store, _seen=seen, **kwargs):
                if kwargs.get('params') == {'max-keys': 1}:
                    _seen.append(any(b.rstrip('/').endswith('/' + bucket) for b in _store._verified_buckets))
                return _orig(method, url, *args, **kwargs)
            store.request = spy
            try:
                store.get_chunk(f'{bucket}/x', (slice(0, 2),), np.uint8)
                outcome = 'data'
            except StoreUnavailable:
                outcome = 'unavailable'
            except Exception as e:   # noqa: BLE001
                outcome = type(e).__name__
            after = any(b.rstrip('/').endswith('/' + bucket) for b in store._verified_buckets)
            what = None
            if any(seen):
                what = (f'bucket ({ {"n": "non-empty", "e": "empty", "m": "missing"}[state]}) is already marked verified '
                        f'while its listing request is still in flight: a second thread hitting a 404 in that window '
                        f'reports a missing chunk where a single thread gets {outcome}')
            elif state != 'n' and after:
                what = f'bucket ({state}) is marked verified although its listing failed ({outcome})'
            ctx.tag('bucket-claim')
            ctx.count(('bucket-claim', state), True, sample={'object': 's3-bucket-claim', 'state': state})
            if what:
                bad.append((dict(object='session-privacy', check='bucket-claim', state=state), what))
    return bad


# ------------------------------------------------------------------------------------------------
# entry points

def _quiet():
    logging.getLogger('katdal').setLevel(logging.ERROR)
    logging.getLogger().setLevel(logging.ERROR)


def run(ctx):
    _quiet()
    build = common.build_and_audit('C20', ctx.tier)
    fine = ctx.tier == 'thorough'
    t0 = time.time()
    refinement = []          # (case, request line, driver reply, scenario name)
    with dask.config.set(scheduler='synchronous'):
        for kind, variant, bound, max_runs in variants(ctx):
            out = explore_scenario(ctx, kind, variant, bound, max_runs, fine)
            failed = validate_traces(ctx, out['requests'])
            if out['concrete'] is None and (failed or not build['build_ok']):
                # the real code no longer follows the verified protocol (or a proof broke): search harder
                # for a schedule on which the real code itself misbehaves
                ctx.tag('extended-search')
                more = explore_scenario(ctx, kind, variant, bound + 1, max_runs * 3, True, extra_random=max_runs)
                out['concrete'] = more['concrete']
            if out['concrete'] is not None:
                ctx.violation(*out['concrete'])
            for case, line, rep in failed[:3]:
                refinement.append((case, line, rep, out['name']))
    sched.mon_remove()
    ctx.extra['controlled_s'] = round(time.time() - t0, 1)
    for case, what in load_compare(ctx):
        ctx.violation(case, what)
    for case, what in session_privacy(ctx):
        ctx.violation(case, what)
    for case, what in bucket_claim(ctx):
        ctx.violation(case, what)
    for case, what in construction_state(ctx):
        ctx.violation(case, what)
    for case, what in shared_mapping(ctx):
        ctx.violation(case, what)
    ctx.assumptions = ['one source line of the anchored methods is the unit of interleaving',
                       'a transition observed between two yield points may bundle up to %d model steps of the '
                       'moving thread (line granularity is coarser than the model)' % FUEL]
    ctx.extra['refinement_failures'] = len(refinement)
    rc = common.finish(ctx, build, RULE, CHECKER, TRUSTED,
                       shrink=lambda c, w: _shrink(c, w))
    if refinement and not ctx.violations and build['build_ok']:
        case, line, rep, name = refinement[0]
        what = (f'trace refinement broken for {name}: the transitions observed in the real code are no longer steps '
                f'of the Lean transition system (driver: {rep[:160]}); no schedule was found on which the real code '
                f'raises, deadlocks or returns a different value')
        path = common.write_replay(ctx, 'no-failing-input-found', case, what,
                                   broken=dict(correspondence=name, request=line[:2000], reply=rep))
        print(f'  {what}')
        print(f'VIOLATION property={ctx.prop} replay={path} no-failing-input-found')
        rc = 1
    return rc


def _shrink(case, what):
    if case.get('object') in ('load', 'session-privacy'):
        return case, what
    c2, w2 = shrink_schedule(case, sequential_results)
    return (c2, w2) if w2 else (case, what)


def replay(ctx, rep):
    _quiet()
    build = common.build_and_audit('C20', 'quick')
    case = rep.get('case')
    if not case or case.get('object') in ('load', 'session-privacy'):
        # nothing schedule-shaped to replay: run the quick check again
        return run(ctx)
    kind, variant, schedule = case['object'], case['variant'], case['schedule']
    refinement = []
    with dask.config.set(scheduler='synchronous'):
        expected = sequential_results(kind, variant)[0]
        res, sc = run_one(kind, variant, sched.fixed_chooser(schedule), case.get('fine', False))
        ctx.count((kind, json.dumps(variant, sort_keys=True), tuple(res['schedule'])), True,
                  sample={'object': sc.name, 'schedule': ''.join(map(str, res['schedule']))[:120]})
        bad = concrete_failure(res, expected)
        if bad:
            ctx.violation(dict(case, schedule=res['schedule']), bad)
        refinement = validate_traces(ctx, [(ln, case) for ln in res['requests']])
    rc = common.finish(ctx, build, RULE, CHECKER, TRUSTED)
    if refinement and not ctx.violations and build['build_ok']:
        _, line, reply = refinement[0]
        what = f'trace refinement broken for {sc.name} on the replayed schedule (driver: {reply[:160]})'
        path = common.write_replay(ctx, 'no-failing-input-found', case, what,
                                   broken=dict(correspondence=sc.name, request=line[:2000], reply=reply))
        print(f'  {what}')
        print(f'VIOLATION property={ctx.prop} replay={path} no-failing-input-found')
        rc = 1
    return rc
