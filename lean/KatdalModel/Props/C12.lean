import KatdalModel.Model.Sensor
open Np Index Sensor

namespace C12

theorem placeholder_dummy_float : dummyVal .float = .nan := rfl

end C12
