/-
  C11 lemmas, part 7: float values with NaN (Model/Categorical.lean, Part 4).
  Comparison operators against the IEEE relation, the NaN-aware `add` / `remove` /
  `concatenate_categorical` mirrors.
-/
import KatdalModel.Lemmas.CatRemove
open Np

namespace Categorical

set_option linter.unusedSimpArgs false
set_option linter.unusedSectionVars false

variable {V : Type} [DecidableEq V]

/-! ### the comparison operators -/

theorem FV.cmp_ne (a b : FV) : FV.cmp .ne a b = !(FV.cmp .eq a b) := by
  cases a <;> cases b <;> simp [FV.cmp]

theorem CmpOp.holds_ne (r : Option Ordering) : CmpOp.holds .ne r = !(CmpOp.holds .eq r) := rfl

theorem FV.cmp_eq_holds_aux (op : CmpOp) (hop : op ≠ .ne) (a b : FV) : FV.cmp op a b = op.holds (FV.order a b) := by
  cases a with
  | nan i => cases op <;> cases b <;> simp [FV.cmp, FV.order, CmpOp.holds] at hop ⊢
  | num x =>
    cases b with
    | nan j => cases op <;> simp [FV.cmp, FV.order, CmpOp.holds] at hop ⊢
    | num y =>
      rcases Nat.lt_trichotomy x y with h | h | h
      · have hc : compare x y = .lt := Nat.compare_eq_lt.mpr h
        have h1 : x ≠ y := Nat.ne_of_lt h
        have h2 : ¬ y < x := Nat.lt_asymm h
        have h3 : x ≤ y := Nat.le_of_lt h
        have h4 : ¬ y ≤ x := Nat.not_le.mpr h
        cases op <;> simp [FV.cmp, FV.order, CmpOp.holds, hc, h, h1, h2, h3, h4] at hop ⊢
      · have hc : compare x y = .eq := Nat.compare_eq_eq.mpr h
        subst h
        cases op <;> simp [FV.cmp, FV.order, CmpOp.holds, hc] at hop ⊢
      · have hc : compare x y = .gt := Nat.compare_eq_gt.mpr h
        have h1 : x ≠ y := Nat.ne_of_gt h
        have h2 : ¬ x < y := Nat.lt_asymm h
        have h3 : y ≤ x := Nat.le_of_lt h
        have h4 : ¬ x ≤ y := Nat.not_le.mpr h
        cases op <;> simp [FV.cmp, FV.order, CmpOp.holds, hc, h, h1, h2, h3, h4] at hop ⊢

/-- the mirror of the wrapper's operators is the IEEE relation read through the operator -/
theorem FV.cmp_eq_holds (op : CmpOp) (a b : FV) : FV.cmp op a b = op.holds (FV.order a b) := by
  by_cases hop : op = .ne
  · subst hop
    rw [FV.cmp_ne, CmpOp.holds_ne, FV.cmp_eq_holds_aux .eq (by decide)]
  · exact FV.cmp_eq_holds_aux op hop a b

/-- with a NaN on either side every operator is False, `!=` is True -/
theorem FV.cmp_nan_left (op : CmpOp) (i : Nat) (y : FV) : FV.cmp op (.nan i) y = decide (op = .ne) := by
  cases op <;> cases y <;> simp [FV.cmp]

theorem FV.cmp_nan_right (op : CmpOp) (x : FV) (j : Nat) : FV.cmp op x (.nan j) = decide (op = .ne) := by
  cases op <;> cases x <;> simp [FV.cmp]

theorem FV.cmp_unordered (op : CmpOp) (x y : FV) (h : x.isNaN = true ∨ y.isNaN = true) :
    FV.cmp op x y = decide (op = .ne) := by
  rcases h with h | h
  · cases x with
    | num n => simp [FV.isNaN] at h
    | nan i => exact FV.cmp_nan_left op i y
  · cases y with
    | num n => simp [FV.isNaN] at h
    | nan j => exact FV.cmp_nan_right op x j

/-- on numbers `<=` is the negation of `>` and `>=` the negation of `<` … -/
theorem FV.le_eq_not_gt_num (a b : Nat) : FV.cmp .le (.num a) (.num b) = !(FV.cmp .gt (.num a) (.num b)) := by
  by_cases h : a ≤ b
  · have : ¬ b < a := Nat.not_lt.mpr h
    simp [FV.cmp, h, this]
  · have : b < a := Nat.lt_of_not_le h
    simp [FV.cmp, h, this]

theorem FV.ge_eq_not_lt_num (a b : Nat) : FV.cmp .ge (.num a) (.num b) = !(FV.cmp .lt (.num a) (.num b)) := by
  by_cases h : b ≤ a
  · have : ¬ a < b := Nat.not_lt.mpr h
    simp [FV.cmp, h, this]
  · have : a < b := Nat.lt_of_not_le h
    simp [FV.cmp, h, this]

/-- … and on an unordered pair it is not -/
theorem FV.le_ne_not_gt_unordered (x y : FV) (h : x.isNaN = true ∨ y.isNaN = true) :
    FV.cmp .le x y ≠ !(FV.cmp .gt x y) := by
  rw [FV.cmp_unordered .le x y h, FV.cmp_unordered .gt x y h]; decide

theorem FV.ge_ne_not_lt_unordered (x y : FV) (h : x.isNaN = true ∨ y.isNaN = true) :
    FV.cmp .ge x y ≠ !(FV.cmp .lt x y) := by
  rw [FV.cmp_unordered .ge x y h, FV.cmp_unordered .lt x y h]; decide

/-- **comparison of a float series with a value = per-dump comparison** (every series, NaN or not,
    well-formed or not; every operator; every operand) -/
theorem cmpOp_spec (c : Cat FV) (op : CmpOp) (other : FV) :
    c.cmpOp op other = specCmp c.perDump op other := by
  simp only [Cat.cmpOp, specCmp, cmp_perDump]
  apply List.map_congr_left
  intro o _
  cases o with
  | none => rfl
  | some x => simp [FV.cmp_eq_holds]

/-- the driver's codes: the comparison of a coded series -/
theorem cmpOp_mapV (c : Cat V) (dec : V → FV) (op : CmpOp) (other : FV) :
    (c.mapV dec).cmpOp op other = c.cmpPerDump (fun x => FV.cmp op (dec x) other) := by
  simp only [Cat.cmpOp, Cat.cmpPerDump, Cat.mapV, List.map_map]
  rfl

/-! ### `mapV` -/

theorem perDump_mapV {W : Type} [DecidableEq W] (f : V → W) (c : Cat V) :
    (c.mapV f).perDump = c.perDump.map (fun o => o.map f) := by
  simp only [Cat.perDump, Cat.values, Cat.mapV, List.map_append, List.map_replicate, expand_map, List.map_map,
    Option.map_none]
  congr 2
  apply List.map_congr_left
  intro i _
  simp [List.getElem?_map]

theorem numDumps_mapV {W : Type} [DecidableEq W] (f : V → W) (c : Cat V) : (c.mapV f).numDumps = c.numDumps := rfl

theorem wf_mapV {W : Type} [DecidableEq W] (f : V → W) (hf : Function.Injective f) (c : Cat V) (h : c.WF) :
    (c.mapV f).WF := by
  refine ⟨h.1, h.2.1, ?_, ?_⟩
  · intro i hi
    simpa [Cat.mapV] using h.2.2.1 i hi
  · exact (List.Pairwise.map f (fun a b hab hfab => hab (hf hfab)) h.2.2.2 : (List.map f c.uniq).Nodup)

theorem WF.wfi {c : Cat V} (h : c.WF) : c.WFi := ⟨h.1, h.2.1, h.2.2.1⟩

/-! ### `_comparable_values.index(value)` against the IEEE `==` -/

/-- `indexOfN?` is the position of the first unique value that compares `==` to `v` -/
theorem indexOfN_ieee (l : List FV) (v : FV) :
    indexOfN? FV.isNaN l v =
      (if l.findIdx (fun x => FV.cmp .eq x v) < l.length then some (l.findIdx (fun x => FV.cmp .eq x v)) else none) := by
  cases v with
  | nan j =>
    have : l.findIdx (fun x => FV.cmp .eq x (.nan j)) = l.length := by
      rw [List.findIdx_eq_length]
      intro x _
      simp [FV.cmp_nan_right]
    simp [indexOfN?, FV.isNaN, this]
  | num n =>
    have hp : (fun x => FV.cmp .eq x (.num n)) = (fun x => x == FV.num n) := by
      funext x
      cases x with
      | nan i => simp [FV.cmp]
      | num m =>
        by_cases hmn : m = n
        · simp [FV.cmp, hmn]
        · have hne : FV.num m ≠ FV.num n := fun hh => hmn (FV.num.inj hh)
          have h1 : (m == n) = false := beq_eq_false_iff_ne.mpr hmn
          have h2 : (FV.num m == FV.num n) = false := beq_eq_false_iff_ne.mpr hne
          simp only [FV.cmp, h1, h2]
    rw [hp]
    simp only [indexOfN?, FV.isNaN, Bool.false_eq_true, if_false, indexOf?, List.idxOf, List.findIdx_lt_length]
    by_cases hm : FV.num n ∈ l
    · simp [hm]
    · simp [hm]

/-! ### remove -/

theorem fillPrevG_eq_P {α : Type} [DecidableEq α] (bad : α) : ∀ (l : List α) (prev : α),
    fillPrevG bad prev l = fillPrevP (fun x => decide (x = bad)) prev l := by
  intro l
  induction l with
  | nil => intro prev; rfl
  | cons x t ih =>
    intro prev
    by_cases h : x = bad
    · simp [fillPrevG, fillPrevP, h, ih]
    · simp [fillPrevG, fillPrevP, h, ih]

theorem fillPrevP_congr {α : Type} (p q : α → Bool) : ∀ (l : List α) (prev : α), (∀ x ∈ l, p x = q x) →
    fillPrevP p prev l = fillPrevP q prev l := by
  intro l
  induction l with
  | nil => intro prev _; rfl
  | cons x t ih =>
    intro prev h
    have hx := h x (List.mem_cons_self ..)
    have ht : ∀ y ∈ t, p y = q y := fun y hy => h y (List.mem_cons_of_mem _ hy)
    simp only [fillPrevP, hx]
    rw [ih prev ht, ih x ht]

theorem fillPrevP_none {α : Type} (p : α → Bool) : ∀ (l : List α) (prev : α), (∀ x ∈ l, p x = false) →
    fillPrevP p prev l = l := by
  intro l
  induction l with
  | nil => intro prev _; rfl
  | cons x t ih =>
    intro prev h
    have hx := h x (List.mem_cons_self ..)
    simp only [fillPrevP, hx, Bool.false_eq_true, if_false]
    rw [ih x (fun y hy => h y (List.mem_cons_of_mem _ hy))]

/-- the dumps of a float series that compare `==` to `v` -/
def eqDump (v : FV) (o : Option FV) : Bool :=
  match o with
  | some x => FV.cmp .eq x v
  | none => false

/-- **remove(value) on a float series**: the dumps that compare `==` to the value (none, when the
    value is a NaN) take the value of the last earlier dump that does not; the series stays
    well-formed -/
theorem removeN_spec (c : Cat FV) (h : c.WF) (v : FV) (c' : Cat FV) (hrem : c.removeN FV.isNaN v = .ok c') :
    c'.perDump = fillPrevP (eqDump v) none c.perDump ∧ c'.WF ∧ c'.numDumps = c.numDumps := by
  cases v with
  | nan j =>
    simp only [Cat.removeN, FV.isNaN, if_true, pure, Except.pure, Except.ok.injEq] at hrem
    subst hrem
    refine ⟨?_, h, rfl⟩
    rw [fillPrevP_none]
    intro o _
    cases o with
    | none => rfl
    | some x => simp [eqDump, FV.cmp_nan_right]
  | num n =>
    simp only [Cat.removeN, FV.isNaN, Bool.false_eq_true, if_false] at hrem
    obtain ⟨hwf, hN, _⟩ := remove_wf c h (.num n) c' hrem
    refine ⟨?_, hwf, hN⟩
    rw [remove_perDump c h (.num n) c' hrem, fillPrevG_eq_P]
    apply fillPrevP_congr
    intro o _
    cases o with
    | none => simp [eqDump]
    | some x =>
      cases x with
      | nan i => simp [eqDump, FV.cmp]
      | num m => by_cases hmn : m = n <;> simp [eqDump, FV.cmp, hmn]

/-- a NaN cannot be removed: nothing compares `==` to it -/
theorem removeN_nan (nan : V → Bool) (c : Cat V) (v : V) (hv : nan v = true) : c.removeN nan v = .ok c := by
  simp [Cat.removeN, hv, pure, Except.pure]

theorem removeN_not_nan (nan : V → Bool) (c : Cat V) (v : V) (hv : nan v = false) : c.removeN nan v = c.remove v := by
  simp [Cat.removeN, hv]

/-! ### add -/

/-- `add` is `addAt` after the index decision -/
theorem add_eq_addAt_new (c : Cat V) (e : Nat) (v : V) (hv : v ∉ c.uniq) :
    c.add e (some v) = c.addAt e (c.uniq ++ [v]) c.uniq.length := by
  simp [Cat.add, Cat.addAt, indexOf?, hv, bind, Except.bind, pure, Except.pure]

/-- unless the value is a NaN that is already among the unique values, the NaN-aware `add` is `add` -/
theorem addN_eq_add (nan : V → Bool) (c : Cat V) (e : Nat) (v : V) (h : nan v = false ∨ v ∉ c.uniq) :
    c.addN nan e (some v) = c.add e (some v) := by
  by_cases hn : nan v = true
  · rcases h with h | h
    · rw [h] at hn; cases hn
    · simp only [Cat.addN, hn, if_true]
      exact (add_eq_addAt_new c e v h).symm
  · simp [Cat.addN, hn]

theorem addN_none (nan : V → Bool) (c : Cat V) (e : Nat) : c.addN nan e none = c.add e none := rfl

/-- **a value appended to the unique values regardless of whether it is there already** (what `add`
    does with a NaN): the per-dump list changes as documented for `add`, the structure stays
    well-formed apart from the distinctness of the unique values -/
theorem addAt_append_spec (c : Cat V) (h : c.WF) (e : Nat) (v : V) (he : e < c.numDumps) (c' : Cat V)
    (hadd : c.addAt e (c.uniq ++ [v]) c.uniq.length = .ok c') :
    c'.perDump = c.perDump.take e ++
      List.replicate ((c.ev.filter (fun x => decide (e < x))).headD 0 - e) (some v) ++
      c.perDump.drop ((c.ev.filter (fun x => decide (e < x))).headD 0) ∧
    c'.WFi ∧ c'.numDumps = c.numDumps ∧ c'.uniq = c.uniq ++ [v] := by
  -- the same series over `Option V`, where `none` is a value that is certainly new
  let c1 : Cat (Option V) := c.mapV some
  have h1 : c1.WF := wf_mapV some (fun a b hab => Option.some.inj hab) c h
  have hnd : (c1.uniq ++ [none]).Nodup := by
    rw [List.nodup_append]
    refine ⟨h1.2.2.2, by simp, ?_⟩
    intro a ha b hb
    simp only [List.mem_singleton] at hb
    subst hb
    simp only [c1, Cat.mapV, List.mem_map] at ha
    obtain ⟨x, _, hx⟩ := ha
    intro hab; rw [← hx] at hab; cases hab
  simp only [Cat.addAt, bind, Except.bind, pure, Except.pure] at hadd
  cases hx : getNat c.ev (c.ev.takeWhile (fun y => decide (y < e))).length with
  | error err => simp [hx] at hadd
  | ok x =>
    simp only [hx, Except.ok.injEq] at hadd
    have hlen : c1.uniq.length = c.uniq.length := by simp [c1, Cat.mapV]
    have hcore := add_perDump_core c1 h1 e none he (c1.uniq ++ [none]) c1.uniq.length (by simp)
      (fun i hi => List.getElem?_append_left hi) (by simp) (by simp) hnd x hx
    obtain ⟨x', hx', hwfN⟩ := add_core c1 h1 e he (c1.uniq ++ [none]) c1.uniq.length (by simp) (by simp) hnd
    have hxx : x' = x := by
      have : getNat c1.ev (c1.ev.takeWhile (fun y => decide (y < e))).length = .ok x := hx
      rw [this] at hx'
      exact (Except.ok.inj hx').symm
    subst hxx
    -- the result is the image of the `Option V` result under `getD v`
    have himg : c' = Cat.mapV (fun o : Option V => o.getD v)
        ({ uniq := c1.uniq ++ [none],
           idx := c1.idx.take (c1.ev.takeWhile (fun y => decide (y < e))).length ++ [c1.uniq.length] ++
             c1.idx.drop (if x' = e then (c1.ev.takeWhile (fun y => decide (y < e))).length + 1
                         else (c1.ev.takeWhile (fun y => decide (y < e))).length),
           ev := c1.ev.take (c1.ev.takeWhile (fun y => decide (y < e))).length ++ [e] ++
             c1.ev.drop (if x' = e then (c1.ev.takeWhile (fun y => decide (y < e))).length + 1
                        else (c1.ev.takeWhile (fun y => decide (y < e))).length) } : Cat (Option V)) := by
      rw [← hadd]
      simp [c1, Cat.mapV, List.map_map, Function.comp_def]
    have hpd1 : c1.perDump = c.perDump.map (fun o => o.map some) := perDump_mapV some c
    refine ⟨?_, ?_, ?_, ?_⟩
    · rw [himg, perDump_mapV, hcore, hpd1]
      simp [List.map_append, List.map_take, List.map_drop, List.map_map, Function.comp_def, Option.map_map, c1, Cat.mapV]
    · rw [himg]
      have hw := hwfN.1
      exact ⟨hw.1, hw.2.1, by intro i hi; simpa [Cat.mapV] using hw.2.2.1 i hi⟩
    · rw [himg]
      exact hwfN.2
    · rw [← hadd]

/-- **add(event, value) on any series and with any value, NaN included**: the per-dump list is
    overridden on `[event, next boundary)` and unchanged elsewhere; boundaries stay strictly
    increasing and end at the number of dumps, indices stay inside the unique values -/
theorem addN_spec (nan : V → Bool) (c : Cat V) (h : c.WF) (e : Nat) (v : V) (he : e < c.numDumps) (c' : Cat V)
    (hadd : c.addN nan e (some v) = .ok c') :
    c'.perDump = c.perDump.take e ++
      List.replicate ((c.ev.filter (fun x => decide (e < x))).headD 0 - e) (some v) ++
      c.perDump.drop ((c.ev.filter (fun x => decide (e < x))).headD 0) ∧
    c'.WFi ∧ c'.numDumps = c.numDumps := by
  by_cases hn : nan v = true
  · simp only [Cat.addN, hn, if_true] at hadd
    obtain ⟨a, b, d, _⟩ := addAt_append_spec c h e v he c' hadd
    exact ⟨a, b, d⟩
  · simp only [Cat.addN, hn, Bool.false_eq_true, if_false] at hadd
    obtain ⟨hw, hN⟩ := add_wf c h e (some v) he c' hadd
    exact ⟨add_perDump c h e v he c' hadd, WF.wfi hw, hN⟩

/-- the unique values stay pairwise distinct unless a NaN that is already there is added again -/
theorem addN_wf (nan : V → Bool) (c : Cat V) (h : c.WF) (e : Nat) (value : Option V) (he : e < c.numDumps)
    (hv : ∀ v, value = some v → nan v = false ∨ v ∉ c.uniq) (c' : Cat V) (hadd : c.addN nan e value = .ok c') :
    c'.WF ∧ c'.numDumps = c.numDumps := by
  cases value with
  | none => exact add_wf c h e none he c' hadd
  | some v =>
    rw [addN_eq_add nan c e v (hv v rfl)] at hadd
    exact add_wf c h e (some v) he c' hadd

/-- … and in that one case they do not: the same object is entered a second time -/
theorem addN_dup (nan : V → Bool) (c : Cat V) (e : Nat) (v : V) (hn : nan v = true) (hv : v ∈ c.uniq) (c' : Cat V)
    (hadd : c.addN nan e (some v) = .ok c') : ¬ c'.uniq.Nodup := by
  simp only [Cat.addN, hn, if_true, Cat.addAt, bind, Except.bind, pure, Except.pure] at hadd
  cases hx : getNat c.ev (c.ev.takeWhile (fun y => decide (y < e))).length with
  | error err => simp [hx] at hadd
  | ok x =>
    simp only [hx, Except.ok.injEq] at hadd
    subst hadd
    intro hnd
    rw [List.nodup_append] at hnd
    exact hnd.2.2 v hv v (by simp) rfl

/-! ### concatenate -/

theorem uniqAcc_prefix : ∀ (l acc : List V), acc <+: uniqAcc acc l := by
  intro l
  induction l with
  | nil => intro acc; exact List.prefix_refl _
  | cons x t ih =>
    intro acc
    simp only [uniqAcc]
    split
    · exact ih acc
    · exact List.IsPrefix.trans (List.prefix_append acc [x]) (ih (acc ++ [x]))

theorem idxOf_of_prefix (acc u : List V) (x : V) (hp : acc <+: u) (hx : x ∈ acc) : u.idxOf x = acc.idxOf x := by
  obtain ⟨r, rfl⟩ := hp
  simp [List.idxOf_append, hx]

/-- without NaN the NaN-aware `unique_in_order` is `unique_in_order` -/
theorem uniqueInOrderN_eq (nan : V → Bool) : ∀ (l acc : List V), (∀ x ∈ l, nan x = false) →
    uniqueInOrderN nan acc l = (uniqAcc acc l, l.map (fun x => (uniqAcc acc l).idxOf x)) := by
  intro l
  induction l with
  | nil => intro acc _; rfl
  | cons x t ih =>
    intro acc h
    have hx := h x (List.mem_cons_self ..)
    have ht : ∀ y ∈ t, nan y = false := fun y hy => h y (List.mem_cons_of_mem _ hy)
    by_cases hm : x ∈ acc
    · simp only [uniqueInOrderN, indexOfN?, hx, Bool.false_eq_true, if_false, indexOf?, hm, if_true, uniqAcc,
        List.map_cons]
      rw [ih acc ht, idxOf_of_prefix acc _ x (uniqAcc_prefix t acc) hm]
    · simp only [uniqueInOrderN, indexOfN?, hx, Bool.false_eq_true, if_false, indexOf?, hm, uniqAcc,
        List.map_cons]
      rw [ih (acc ++ [x]) ht, idxOf_of_prefix (acc ++ [x]) _ x (uniqAcc_prefix t (acc ++ [x])) (by simp)]
      congr 2
      simp [List.idxOf_append, hm]

theorem concatN_go_eq (r : List V × List Nat) : ∀ (parts : List (Cat V)) (off : Nat) (sts : List Nat),
    concatenateN.go r parts off sts = concatenate.go r parts off sts := by
  intro parts
  induction parts with
  | nil => intro off sts; simp [concatenateN.go, concatenate.go]
  | cons c t ih =>
    intro off sts
    cases sts with
    | nil => simp [concatenateN.go, concatenate.go]
    | cons st sts =>
      simp only [concatenateN.go, concatenate.go, ih]

/-- **without NaN among the unique values of the parts the NaN-aware concatenation is
    `concatenate`** (all theorems about `concatenate` apply) -/
theorem concatenateN_eq (nan : V → Bool) (parts : List (Cat V)) (rep : Bool)
    (h : ∀ p ∈ parts, ∀ x ∈ p.uniq, nan x = false) : concatenateN nan parts rep = concatenate parts rep := by
  have hall : ∀ x ∈ (parts.map (·.uniq)).flatten, nan x = false := by
    intro x hx
    simp only [List.mem_flatten, List.mem_map] at hx
    obtain ⟨l, ⟨p, hp, rfl⟩, hxl⟩ := hx
    exact h p hp x hxl
  have hu : uniqueInOrderN nan [] (parts.map (·.uniq)).flatten = uniqueInOrder (parts.map (·.uniq)).flatten := by
    rw [uniqueInOrderN_eq nan _ [] hall]
    rfl
  unfold concatenateN concatenate
  split
  · rfl
  · rfl
  · simp only [hu, concatN_go_eq]

end Categorical
