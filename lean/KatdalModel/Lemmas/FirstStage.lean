/-
  LazyIndexer first stage (`_lookup`) versus numpy's meaning of the first-stage index, and the
  second stage when the whole axis is kept (lookup = None).
-/
import KatdalModel.Lemmas.SecondStage
open Np Index LazyIx

namespace LazyIx

/-- effective lookup list when `_lookup` is `None`: positions 0..n-1 -/
def fullList (n : Nat) : List Int := rangeList 0 n 1

theorem fullList_length (n : Nat) : (fullList n).length = n := by
  unfold fullList; rw [rangeList_unit_length]; omega

theorem fullList_get (n k : Nat) (h : k < n) : (fullList n)[k]? = some (k : Int) := by
  unfold fullList
  rw [rangeList_unit_get 0 n k (by omega)]; simp

theorem fullList_map_get (n k : Nat) (h : k < n) : ((fullList n).map Int.toNat)[k]? = some k := by
  rw [List.getElem?_map, fullList_get n k h]; simp

theorem getNat_full (n k : Nat) (h : k < n) : getNat ((fullList n).map Int.toNat) k = .ok k := by
  unfold getNat; rw [fullList_map_get n k h]

theorem mapM_getNat_full (n : Nat) : ∀ (ks : List Nat), (∀ k ∈ ks, k < n) →
    ks.mapM (getNat ((fullList n).map Int.toNat)) = .ok ks := by
  intro ks
  induction ks with
  | nil => intro _; rfl
  | cons k t ih =>
    intro h
    rw [List.mapM_cons, getNat_full n k (h k (List.mem_cons_self ..)),
      ih (fun x hx => h x (List.mem_cons_of_mem _ hx))]
    rfl

/-- entries of a resolved selection are valid positions -/
def selValid (n : Nat) : Sel → Prop
  | .one k => k < n
  | .many ks => ∀ k ∈ ks, k < n

theorem compose_full (n : Nat) (s2 : Sel) (hv : selValid n s2) :
    composeList ((fullList n).map Int.toNat) s2 = .ok s2 := by
  cases s2 with
  | one k => simp only [composeList, getNat_full n k hv]; rfl
  | many ks => simp only [composeList, mapM_getNat_full n ks hv]; rfl

theorem normInt_lt' {n : Nat} {i : Int} {k : Nat} (h : normInt n i = .ok k) : k < n := by
  unfold normInt at h
  split at h
  · simp only [Except.ok.injEq] at h; omega
  · split at h
    · simp only [Except.ok.injEq] at h; omega
    · simp at h

theorem normList_lt' (n : Nat) : ∀ (l : List Int) (ks : List Nat), normList n l = .ok ks → ∀ k ∈ ks, k < n := by
  intro l
  induction l with
  | nil => intro ks h; simp [normList] at h; subst h; simp
  | cons i t ih =>
    intro ks h
    unfold normList at h
    cases hi : normInt n i with
    | error e => simp [hi, bind, Except.bind] at h
    | ok k =>
      cases hr : normList n t with
      | error e => simp [hi, hr, bind, Except.bind] at h
      | ok r =>
        simp [hi, hr, bind, Except.bind, pure, Except.pure] at h
        subst h
        intro x hx
        simp at hx
        rcases hx with rfl | hx
        · exact normInt_lt' hi
        · exact ih r hr x hx

theorem resolve_valid (n : Nat) (ix : Ix) (s : Sel) (h : ix.resolve n = .ok s) : selValid n s := by
  cases ix with
  | int i =>
    simp only [Ix.resolve] at h
    cases hk : normInt n i with
    | error e => simp [hk, bind, Except.bind] at h
    | ok k =>
      simp [hk, bind, Except.bind, pure, Except.pure] at h
      subst h; exact normInt_lt' hk
  | slice a b c =>
    simp only [Ix.resolve] at h
    cases hs : sliceList n a b c with
    | none => simp [hs] at h
    | some l =>
      simp [hs] at h
      subst h
      intro k hk
      simp only [List.mem_map] at hk
      obtain ⟨x, hx, rfl⟩ := hk
      have := sliceList_bounds hs x hx
      omega
  | mask m =>
    simp only [Ix.resolve] at h
    split at h
    · rename_i hlen
      simp at h; subst h
      intro k hk
      have := (nonzero_spec m).2 k hk
      omega
    · simp at h
  | list l =>
    simp only [Ix.resolve] at h
    cases hl : normList n l with
    | error e => simp [hl, bind, Except.bind] at h
    | ok ks =>
      simp [hl, bind, Except.bind, pure, Except.pure] at h
      subst h
      exact normList_lt' n l ks hl

theorem nonzeroFrom_all_true : ∀ (m : List Bool) (k : Nat), m.all id = true →
    nonzeroFrom k m = (rangeAux 1 m.length (k : Int)).map Int.toNat := by
  intro m
  induction m with
  | nil => intro k _; rfl
  | cons b t ih =>
    intro k h
    simp only [List.all_cons, Bool.and_eq_true, id] at h
    obtain ⟨hb, ht⟩ := h
    subst hb
    simp only [nonzeroFrom, List.length_cons, rangeAux, List.map_cons]
    rw [ih (k + 1) ht]
    have e : ((k + 1 : Nat) : Int) = (k : Int) + 1 := by omega
    rw [e]
    simp

theorem nonzero_all_true (m : List Bool) (h : m.all id = true) :
    nonzero m = (fullList m.length).map Int.toNat := by
  unfold nonzero fullList rangeList
  rw [nonzeroFrom_all_true m 0 h, rangeLen_unit]
  simp

/-- **Second stage with the whole axis kept** (`_lookup` is None) is numpy's meaning of the index. -/
theorem second_stage_full (n : Nat) (k2 : Ix) (hG : stage2InG n k2 = true) :
    (do let m ← mapThrough none k2; axisSelect n m) = k2.resolve n := by
  cases k2 with
  | int i => simp only [mapThrough, bind, Except.bind, axisSelect, Ix.resolve]
  | slice a b c =>
    simp only [stage2InG, decide_eq_true_eq] at hG
    simp only [mapThrough, bind, Except.bind, axisSelect, Ix.resolve]
    cases hi : sliceIndices n a b c with
    | none => simp [sliceList, hi]
    | some t =>
      obtain ⟨s, e, st⟩ := t
      obtain ⟨hne, hp, _⟩ := sliceIndices_bounds hi
      have hst : st = c.getD 1 := by
        unfold sliceIndices at hi
        simp only at hi
        split at hi
        · simp at hi
        · simp only [Option.some.injEq, Prod.mk.injEq] at hi; exact hi.2.2.symm
      have hpos : 0 < st := by omega
      obtain ⟨hs0, hsn, he0, hen⟩ := hp hpos
      have hread : readSlice n s e st = rangeList s e st := by
        unfold readSlice sliceList sliceIndices
        have h1 : ¬ (st = 0) := hne
        have h2 : ¬ (st < 0) := by omega
        have h3 : ¬ (s < 0) := by omega
        have h4 : ¬ (s > (n : Int)) := by omega
        have h5 : ¬ (e < 0) := by omega
        have h6 : ¬ (e > (n : Int)) := by omega
        simp only [Option.getD_some, h1, h2, h3, h4, h5, h6, if_false, Option.map]
      simp only [hread, if_true, sliceList, hi, Option.map]
  | mask m =>
    simp only [stage2InG, decide_eq_true_eq] at hG
    simp only [mapThrough, bind, Except.bind, axisSelect, Ix.resolve, hG, if_true]
  | list l =>
    simp only [stage2InG, Bool.and_eq_true, List.all_eq_true, decide_eq_true_eq] at hG
    obtain ⟨hinc, hlb⟩ := hG
    simp only [mapThrough, bind, Except.bind, Ix.resolve, normList_nonneg n l hlb, pure, Except.pure]
    cases l with
    | nil => rfl
    | cons a t => exact axisSelect_arr n (a :: t) (by simp) hinc hlb

end LazyIx
