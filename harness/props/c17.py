"""C17 - v4 time and frequency axes; preselection is equivalent to selection; spectral windows."""
import calendar
import json
import logging
import os
import shutil
import tempfile
from fractions import Fraction

import numpy as np

from harness import common, v4synth

RULE = ('open cases = synthetic v4 data set (T 2-9 dumps, F 1-9 channels odd/even, 1-2 antennas, random chunking) x '
        'capture start placed -8..+8 half-seconds around one of the three fix dates (or far away), int_time in '
        '{0.5,1,2,4}, time_offset dyadic, CBF generation (cbf_dev_N / cbf_N) x mode (c856M4k / c856M1k / bc856M4k), '
        'CBF dump period known / unknown (missing key, empty src_streams), the first 48 cases enumerate date x side x '
        'generation x mode x known; preselect absent / dumps / channels / both with slice bounds None, negative, '
        'beyond the axis, step None or 1 (5% empty ranges, 12% illegal: step 2/-1/0, list, int, unknown key), followed '
        'by 0-2 select() calls (slice, bool mask, int list, int); a few cases go through katdal.open() on an RDB file + '
        'NPY chunk store.  Compared exactly (all parameters dyadic): timestamps, freqs, time_offset, start/end time, '
        'channel width against the Lean spec (whole data set, same ranges, later selection relative) and the mirror '
        'model; vis/flags/weights (coordinate codes) and an interpolated float sensor against the whole data set opened '
        'from the same store with the shifted selection.  spw cases = SpectralWindow directly: n 1-12, both sidebands, '
        'width- or bandwidth-specified, dyadic (exact) and non-dyadic (rel. tol 1e-9 of bandwidth) parameters, every '
        'kind of subrange (incl. out-of-range / empty) and rechannelise 1-12.  non-trivial = data set opened (or window '
        'operation succeeded) with a proper subset preselected or selected / a window with more than one channel; '
        'distinct = hash of the model request line.')
TRUSTED = ['Lean 4.33 kernel', 'axioms: propext, Classical.choice, Quot.sound only',
           'hand-written model KatdalModel/Model/TimeFreq.lean tied to /repo by this differential run',
           'exact float arithmetic for dyadic parameters (the harness converts floats to Fractions, never rounds)',
           'DataSet.select(dumps=, channels=) has mask semantics (C02); last select per axis wins',
           'harness/v4synth.py synthetic data sets stand in for MeerKAT captures']
CHECKER = 'lake build KatdalModel.Props.C17 kd_c17 && lake env lean <#print axioms audit>'

FIX_DATES = [float(calendar.timegm((2019, 2, 11, 0, 0, 0))), float(calendar.timegm((2019, 3, 3, 0, 0, 0))),
             float(calendar.timegm((2019, 3, 15, 0, 0, 0)))]
FAR = [1400000000.0, 1600000000.0]
WIDTHS = [1e6, 208984.375, 26123.046875, 0.5e6, 3e6, 835937.5]
SENSOR = 'anc_air_temperature'

logging.getLogger('katdal').setLevel(logging.ERROR)


# ---------------------------------------------------------------- encoding

def fr(x):
    f = Fraction(x)
    return str(f.numerator) if f.denominator == 1 else f'{f.numerator}/{f.denominator}'


def unfr(s):
    return Fraction(s)


def enc_opt(v):
    return '_' if v is None else str(v)


def enc_preval(v):
    """v: None (absent) | ('s', a, b, c) | ('x', description)"""
    if v is None:
        return '_'
    if v[0] == 's':
        return 's:' + ':'.join(enc_opt(x) for x in v[1:])
    return 'x'


def enc_pre(pre):
    extra = [k for k in pre if k not in ('dumps', 'channels')]
    return '|'.join([enc_preval(pre.get('dumps')), enc_preval(pre.get('channels')), ';'.join(extra) if extra else '-'])


def enc_ix(ix):
    if ix is None:
        return '_'
    k = ix[0]
    if k == 'i':
        return f'i:{ix[1]}'
    if k == 's':
        return 's:' + ':'.join(enc_opt(x) for x in ix[1:])
    if k == 'm':
        return 'm:' + ''.join('1' if b else '0' for b in ix[1])
    return 'l:' + ','.join(str(v) for v in ix[1])


def enc_cfg(c):
    return ','.join([fr(c['sync']), fr(c['first']), fr(c['int']), fr(c['off']), str(c['T']), str(c['F']),
                     '_' if c['cbf'] is None else fr(c['cbf']), '1' if 'cbf_dev' in c['resources'] else '0',
                     '1' if 'c856M4k' in c['product'] else '0', fr(c['centre']), fr(c['F'] * c['width']),
                     fr(FIX_DATES[0]), fr(FIX_DATES[1]), fr(FIX_DATES[2])])


def py_preval(v):
    if v[0] == 's':
        return slice(v[1], v[2], v[3])
    kind = v[1]
    return {'list': [0, 1], 'int': 1, 'array': np.array([True]), 'none': None, 'tuple': (0, 2)}[kind]


def py_pre(pre):
    return {k: py_preval(v) for k, v in pre.items()}


def py_ix(ix, as_array):
    k = ix[0]
    if k == 'i':
        return int(ix[1])
    if k == 's':
        return slice(ix[1], ix[2], ix[3])
    if k == 'm':
        return np.array(ix[1], dtype=bool) if as_array else [bool(b) for b in ix[1]]
    return np.array(ix[1], dtype=int) if as_array else [int(v) for v in ix[1]]


# ---------------------------------------------------------------- generation

def gen_unit_slice(rng, n, empty_ok):
    for _ in range(50):
        def bound():
            r = rng.random()
            if r < 0.25:
                return None
            if r < 0.4:
                return rng.randint(-n - 2, n + 2)
            return rng.randint(-n, n)
        a, b = bound(), bound()
        lo, hi, _ = slice(a, b).indices(n)
        if (hi > lo) or empty_ok:
            return ('s', a, b, rng.choice([None, None, 1]))
    return ('s', None, None, None)


def gen_empty_slice(rng, n):
    a = rng.randint(0, n)
    b = rng.randint(0, a)
    return ('s', a, b, rng.choice([None, 1]))


def gen_bad_preselect(rng, T, F):
    r = rng.random()
    pre = {}
    if r < 0.45:
        key = rng.choice(['dumps', 'channels'])
        n = T if key == 'dumps' else F
        pre[key] = ('s', rng.choice([None, 0, 1]), rng.choice([None, n, n - 1]), rng.choice([2, 3, -1, -2, 0]))
        if rng.random() < 0.4:
            other = 'channels' if key == 'dumps' else 'dumps'
            pre[other] = gen_unit_slice(rng, F if other == 'channels' else T, False)
    elif r < 0.7:
        key = rng.choice(['dumps', 'channels'])
        pre[key] = ('x', rng.choice(['list', 'int', 'array', 'none', 'tuple']))
    else:
        key = rng.choice(['frequencies', 'corrprods', 'timerange', 'scans', 'ants', 'dump', 'Channels', 'pol'])
        pre[key] = ('s', None, None, None)
        if rng.random() < 0.5:
            pre['dumps'] = gen_unit_slice(rng, T, False)
    return pre


def gen_sel_ix(rng, n):
    """a later selection on an axis of length n >= 1"""
    r = rng.random()
    if r < 0.35:
        a = rng.choice([None, rng.randint(-n, n)])
        b = rng.choice([None, rng.randint(-n, n)])
        return ('s', a, b, rng.choice([None, 1, 1, 2, 3, -1]))
    if r < 0.65:
        p = rng.choice([0.2, 0.5, 0.8])
        return ('m', [rng.random() < p for _ in range(n)])
    if r < 0.9:
        k = rng.randint(1, n)
        return ('l', sorted(rng.sample(range(n), k)) if rng.random() < 0.7 else [rng.randrange(n) for _ in range(k)])
    return ('i', rng.randint(-n, n - 1))


def gen_open_case(rng, idx=None):
    T = rng.randint(2, 9)
    F = rng.randint(1, 9)
    int_time = rng.choice([0.5, 1.0, 2.0, 2.0, 4.0])
    if idx is not None and idx < 48:
        di, side, gen, mode, known = idx % 3, (idx // 3) % 2, (idx // 6) % 2, (idx // 12) % 2, (idx // 24) % 2
        date = FIX_DATES[di]
        t0 = date + (rng.choice([-4.0, -1.0, -0.5]) if side == 0 else rng.choice([0.0, 0.5, 3.0]))
        # keep the whole capture on one side for the enumerated block
        if side == 0:
            t0 -= T * int_time
        resources = ['cbf_dev_2', 'cbf_1'][gen]
        product = ['c856M4k', 'c856M1k'][mode]
        known = bool(known)
        off = 0.0
    else:
        r = rng.random()
        if r < 0.8:
            date = rng.choice(FIX_DATES)
            t0 = date + 0.5 * rng.randint(-8, 8)
            if rng.random() < 0.3:
                t0 -= rng.choice([0, 1, 2, 3]) * int_time
        else:
            t0 = rng.choice(FAR) + 0.25 * rng.randint(0, 4000)
        resources = rng.choice(['cbf_dev_1', 'cbf_dev_3', 'cbf_1', 'cbf_2'])
        # the subarray's resource list names the correlator among antennas and other proxies, in any order
        if rng.random() < 0.6:
            others = rng.sample(['m000', 'm001', 'anc_1', 'sdp_1', 'sdp_dev_2', 'ptuse_1'], rng.randint(1, 3))
            others.insert(rng.randint(0, len(others)), resources)
            resources = ','.join(others)
        product = rng.choice(['c856M4k', 'c856M4k', 'c856M1k', 'bc856M4k', 'c856M32k', 'c544M4k'])
        known = rng.random() < 0.75
        off = 0.0 if rng.random() < 0.5 else rng.choice([0.25, -0.25, 1.0, -1.0, 2.5, -3.75, 0.5, -0.5])
    first = 0.25 * rng.randint(0, 4000)
    cbf = rng.choice([0.25, 0.5, 0.125]) if known else None
    unknown_how = None if known else rng.choice(['nokeys', 'missing_int_time', 'empty_src', 'missing_scale'])
    n_ants = rng.choice([1, 2])
    cfg = dict(T=T, F=F, int=int_time, sync=t0 - first, first=first, off=off, cbf=cbf, unknown_how=unknown_how,
               resources=resources + ',sdp_1,' + ','.join(f'm{i:03}' for i in range(n_ants)), product=product,
               centre=rng.choice([1284e6, 1284e6 + 104492.1875, 816e6, 2406.25e6]), width=rng.choice(WIDTHS),
               n_ants=n_ants, seed=rng.randrange(2 ** 30),
               # the documented timestamps= override of the data source, given the very values telstate implies
               ts_override=rng.random() < 0.3)
    # preselect
    r = rng.random()
    pre = {}
    kind = 'valid'
    if r < 0.12:
        pre = gen_bad_preselect(rng, T, F)
        kind = 'illegal'
    elif r < 0.17:
        which = rng.choice(['dumps', 'channels', 'both'])
        if which in ('dumps', 'both'):
            pre['dumps'] = gen_empty_slice(rng, T)
        if which in ('channels', 'both'):
            pre['channels'] = gen_empty_slice(rng, F)
        if which == 'dumps' and rng.random() < 0.5:
            pre['channels'] = gen_unit_slice(rng, F, False)
        kind = 'empty'
    elif r < 0.85:
        which = rng.choice(['dumps', 'channels', 'both', 'both'])
        if which in ('dumps', 'both'):
            pre['dumps'] = gen_unit_slice(rng, T, False)
        if which in ('channels', 'both'):
            pre['channels'] = gen_unit_slice(rng, F, False)
    # later selections (relative to the preselected axes)
    nd = len(range(*slice(*pre['dumps'][1:3]).indices(T))) if pre.get('dumps', ('x',))[0] == 's' else T
    nc = len(range(*slice(*pre['channels'][1:3]).indices(F))) if pre.get('channels', ('x',))[0] == 's' else F
    selects = []
    if kind == 'valid':
        for _ in range(rng.choice([0, 1, 1, 2])):
            s = {}
            w = rng.choice(['dumps', 'channels', 'both'])
            if w in ('dumps', 'both') and nd:
                s['dumps'] = gen_sel_ix(rng, nd)
            if w in ('channels', 'both') and nc:
                s['channels'] = gen_sel_ix(rng, nc)
            selects.append(s)
    via = 'rdb' if (kind != 'illegal' and rng.random() < 0.04) else 'direct'
    return dict(kind='open', cfg=cfg, pre=pre, prekind=kind, selects=selects, via=via,
                arr=[rng.random() < 0.5 for _ in range(4)])


def gen_spw_case(rng):
    dyadic = rng.random() < 0.7
    n = rng.randint(1, 12)
    sb = rng.choice([-1, 1])
    if dyadic:
        centre = rng.choice([1000.0, 1284e6, 856e6 + 0.5, 1284e6 + 104492.1875])
        width = rng.choice([10.0, 0.5, 208984.375, 26123.046875, 1e6, 4.0])
        if rng.random() < 0.5:
            w, bw = width, None
        else:
            w, bw = rng.choice([None, 1.0]), width * n
    else:
        centre = rng.choice([1000.0, 1284e6, 1e9 / 3])
        if rng.random() < 0.5:
            w, bw = rng.choice([1e6 / 3, 0.1, 856e6 / 4096 * 1.1]), None
        else:
            w, bw = None, rng.choice([230.0, 856e6 / 3, 100.1])
    r = rng.random()
    if r < 0.5:
        if rng.random() < 0.75:
            a = rng.randint(0, n - 1)
            b = rng.randint(a + 1, n)
        else:
            a, b = rng.randint(-2, n + 1), rng.randint(-2, n + 2)
        op = ('sub', a, b)
    elif r < 0.9:
        op = ('rech', rng.randint(1, 12) if rng.random() < 0.8 else n)
    else:
        op = ('freqs',)
    return dict(kind='spw', centre=centre, width=w, bandwidth=bw, n=n, sb=sb, op=list(op), dyadic=dyadic)


# ---------------------------------------------------------------- implementation side

def cbf_attrs(cfg):
    corr, f_eng, instr = 'i0_baseline_correlation_products', 'i0_antenna_channelised_voltage', 'i0'
    attrs = {'sdp_l0_src_streams': [corr], corr + '_int_time': cfg['cbf'] if cfg['cbf'] is not None else 0.5,
             corr + '_n_accs': 408, corr + '_src_streams': [f_eng], f_eng + '_instrument_dev_name': instr,
             instr + '_scale_factor_timestamp': 1712000000.0}
    how = cfg['unknown_how']
    if how == 'nokeys':
        return {}
    if how == 'missing_int_time':
        del attrs[corr + '_int_time']
    elif how == 'empty_src':
        attrs['sdp_l0_src_streams'] = []
    elif how == 'missing_scale':
        del attrs[instr + '_scale_factor_timestamp']
    return attrs


def build_whole(case, store_dir=None):
    import random
    cfg = case['cfg']
    rng = random.Random(cfg['seed'])
    T, F = cfg['T'], cfg['F']
    sensors = {SENSOR: [(-2.0, 16.0), (0.75, 17.5), (T / 2.0, 12.25), (T + 1.5, 20.0)]}
    # F-engine delay tracking of one input (ADC sample count, delay, delay rate, phase, phase rate), updated every 2.5
    # dumps with a model that is not a straight line: the source of the applied_delay / applied_phase sensors
    scale = 1712000000.0
    t0 = cfg['sync'] + cfg['first']
    upd = []
    k = -1.5
    while k < T + 3:
        t = t0 + k * cfg['int']
        x = k * cfg['int']
        upd.append((k - 0.4, (int(round((t - cfg['sync']) * scale)), 1e-9 * (3.0 + 0.05 * x + 0.004 * x * x),
                              1e-9 * (0.05 + 0.008 * x), 0.1 + 0.03 * x - 0.002 * x * x, 0.03 - 0.004 * x)))
        k += 2.5
    sensors['i0_antenna_channelised_voltage_m000h_delay'] = upd
    delay_updates = [(cfg['sync'] + v[0] / scale, v[1], v[2], v[3], v[4]) for _, v in upd]
    syn = v4synth.make_v4(rng, T=T, F=F, n_ants=cfg['n_ants'], sync_time=cfg['sync'], first_timestamp=cfg['first'],
                          int_time=cfg['int'], center_freq=cfg['centre'], bandwidth=F * cfg['width'],
                          sub_product=cfg['product'], sub_pool_resources=cfg['resources'],
                          extra_attrs=cbf_attrs(cfg), extra_sensors=sensors, store_dir=store_dir,
                          activity=[(-40.0, 'slew'), (1.5, 'track')], targets=[(-40.0, v4synth.TARGETS[0])],
                          labels=[(-40.0, 'track')],
                          open_kwargs={'time_offset': cfg['off']}, seed=cfg['seed'])
    syn.delay_updates = delay_updates
    return syn


def open_pre(syn, case, pre_py):
    from katdal.datasources import TelstateDataSource, view_l0_capture_stream
    from katdal.visdatav4 import VisibilityDataV4
    view, cbid, sn = view_l0_capture_stream(syn.telstate, syn.cbid, syn.stream)
    kw = {}
    cfg = case['cfg']
    if cfg.get('ts_override'):
        kw['timestamps'] = cfg['sync'] + cfg['first'] + np.arange(cfg['T']) * cfg['int']
    src = TelstateDataSource(view, cbid, sn, chunk_store=syn.store, preselect=pre_py, **kw)
    return VisibilityDataV4(src, time_offset=case['cfg']['off'], preselect=pre_py)


def open_rdb(syn, case, pre_py, tmp):
    import katdal
    from katsdptelstate.rdb_writer import RDBWriter
    syn.telstate['capture_block_id'] = syn.cbid
    syn.telstate['stream_name'] = syn.stream
    d = os.path.join(tmp, syn.cbid)
    os.makedirs(d, exist_ok=True)
    path = os.path.join(d, f'{syn.cbid}_{syn.stream}.rdb')
    with RDBWriter(path) as w:
        w.save(syn.telstate)
    kw = {'preselect': pre_py} if pre_py is not None else {}
    return katdal.open(path, time_offset=case['cfg']['off'], **kw)


def snapshot(d, syn, with_meta):
    """observables of an opened data set in its current selection state"""
    T, F, B = syn.shape
    out = {}
    out['ts'] = [Fraction(float(x)) for x in d.timestamps]
    out['freqs'] = [Fraction(float(x)) for x in d.freqs]
    vis = np.asarray(d.vis[:])
    code = np.rint(vis.real).astype(np.int64)
    out['vis_ok'] = bool(np.array_equal(vis, (code + 0.5j * code).astype(np.complex64)))
    out['shape'] = tuple(int(x) for x in vis.shape)
    if vis.size:
        t_idx = code // (F * B)
        f_idx = (code // B) % F
        b_idx = code % B
        out['dumpPos'] = [int(x) for x in t_idx[:, 0, 0]]
        out['chanPos'] = [int(x) for x in f_idx[0, :, 0]]
        out['grid_ok'] = bool(np.array_equal(t_idx, t_idx[:, :1, :1] + 0 * t_idx)
                              and np.array_equal(f_idx, f_idx[:1, :, :1] + 0 * f_idx)
                              and np.array_equal(b_idx, np.arange(vis.shape[2])[None, None, :] + 0 * b_idx))
    else:
        out['dumpPos'] = None
        out['chanPos'] = None
        out['grid_ok'] = True
    out['flags'] = np.asarray(d.raw_flags[:])
    out['bflags'] = np.asarray(d.flags[:])
    out['weights'] = np.asarray(d.weights[:])
    out['sensor'] = np.asarray(d.sensor[SENSOR], dtype=float)
    try:
        out['delay'] = np.asarray(d.sensor['Correlator/Inputs/m000h/applied_delay'], dtype=float) * 1e9
        out['phase'] = np.asarray(d.sensor['Correlator/Inputs/m000h/applied_phase'], dtype=float)
    except KeyError:
        out['delay'] = out['phase'] = None         # no CBF attributes in this configuration
    if out['delay'] is not None and getattr(syn, 'delay_updates', None):
        # the documented function of the source sensor: between two updates the F-engine advances the delay (phase) of
        # the latest update with the delay rate (phase rate) of that update; before the first update its value is held
        ts = np.asarray(d.timestamps[:], dtype=float)
        ut = np.array([u[0] for u in syn.delay_updates])
        k = np.clip(np.searchsorted(ut, ts, side='right') - 1, 0, len(ut) - 1)
        dt = np.maximum(ts - ut[k], 0.0)
        out['delay_oracle'] = np.array([syn.delay_updates[i][1] + syn.delay_updates[i][2] * x for i, x in zip(k, dt)]) * 1e9
        out['phase_oracle'] = np.array([syn.delay_updates[i][3] + syn.delay_updates[i][4] * x for i, x in zip(k, dt)])
    if with_meta:
        out['off'] = Fraction(float(d.time_offset))
        out['start'] = Fraction(float(d.start_time.secs))
        out['end'] = Fraction(float(d.end_time.secs))
        out['width'] = Fraction(float(d.channel_width))
        out['period'] = Fraction(float(d.dump_period))
    return out


def effective_selection(selects):
    sd = sc = None
    for s in selects:
        sd = s.get('dumps', sd)
        sc = s.get('channels', sc)
    return sd, sc


def parse_list(s, conv):
    return [] if s == '-' else [conv(x) for x in s.split(';')]


def parse_obs(reply):
    if reply.startswith('E:'):
        return ('E', reply[2:])
    ts, fq, dp, cp, off, st, en = reply.split(' ')
    return dict(ts=parse_list(ts, unfr), freqs=parse_list(fq, unfr), dumpPos=parse_list(dp, int),
                chanPos=parse_list(cp, int), off=unfr(off), start=unfr(st), end=unfr(en))


def run_open_impl(case, tmpdir):
    """Open with preselect (P) and whole (W) from one store, apply selections, snapshot both."""
    res = dict(err=None, P=None, W=None, meta=None, stage=None)
    cfg, pre = case['cfg'], case['pre']
    store_dir = None
    if case['via'] == 'rdb':
        store_dir = tempfile.mkdtemp(dir=tmpdir)
    syn = build_whole(case, store_dir)
    res['syn'] = syn
    pre_py = py_pre(pre) if pre else None
    try:
        res['stage'] = 'open'
        if case['via'] == 'rdb':
            P = open_rdb(syn, case, pre_py, store_dir)
        else:
            P = open_pre(syn, case, pre_py if pre_py is not None else None)
        res['stage'] = 'meta'
        meta = dict(off=Fraction(float(P.time_offset)), start=Fraction(float(P.start_time.secs)),
                    end=Fraction(float(P.end_time.secs)), width=Fraction(float(P.channel_width)),
                    period=Fraction(float(P.dump_period)), shape=tuple(int(x) for x in P.shape))
        res['meta'] = meta
        res['stage'] = 'select'
        for k, s in enumerate(case['selects']):
            P.select(**{key: py_ix(ix, case['arr'][k % 4]) for key, ix in s.items()})
        res['stage'] = 'read'
        res['P'] = snapshot(P, syn, False)
    except Exception as e:   # noqa: BLE001
        res['err'] = f'{type(e).__name__}: {str(e)[:120]}'
    if case['prekind'] == 'illegal':
        # the same request on a metadata-only source (no chunk store behind it to complain later)
        from katdal.datasources import TelstateDataSource, view_l0_capture_stream
        view, cbid, sn = view_l0_capture_stream(syn.telstate, syn.cbid, syn.stream)
        try:
            src = TelstateDataSource(view, cbid, sn, chunk_store=None, preselect=pre_py)
            res['meta_only'] = f'accepted ({len(src.timestamps)} timestamps)'
        except Exception as e:   # noqa: BLE001
            res['meta_only'] = None
    return res


def whole_snapshot(res, case, model_obs):
    """The whole data set with the selection the property says is equivalent (positions from the spec reply)."""
    syn = res['syn']
    W = syn.dataset
    T, F, _ = syn.shape
    sd, sc = effective_selection(case['selects'])
    pre = case['pre']
    if sd is None and sc is None and case['selects'] == []:
        # "selecting the same ranges": hand the very same slices to select()
        kw = {}
        if 'dumps' in pre:
            kw['dumps'] = py_preval(pre['dumps'])
        if 'channels' in pre:
            kw['channels'] = py_preval(pre['channels'])
        W.select(**kw)
    else:
        dm = np.zeros(T, dtype=bool)
        dm[model_obs['dumpPos']] = True
        cm = np.zeros(F, dtype=bool)
        cm[model_obs['chanPos']] = True
        W.select(dumps=dm, channels=cm)
    return snapshot(W, syn, False)


def stored_expect(syn, dpos, cpos):
    st = syn.stored
    ix = np.ix_(dpos, cpos)
    flags = st['flags'][ix]
    weights = st['weights'][ix] * st['weights_channel'][ix][..., np.newaxis]
    return flags, weights


def judge_open(ctx, case, mrep, srep, vrep, res):
    """Returns violation text or None."""
    spec = parse_obs(srep)
    mirror = parse_obs(mrep)
    legal = (vrep == 'ok')
    ctx.tag('pre-' + case['prekind'], 'via-' + case['via'])
    if not legal:
        if res['err'] is None:
            return f"illegal preselect {case['pre']} was accepted"
        if res['stage'] != 'open':
            return f"illegal preselect {case['pre']} was only rejected at stage {res['stage']}: {res['err']}"
        if res.get('meta_only'):
            return f"illegal preselect {case['pre']} was {res['meta_only']} by a metadata-only TelstateDataSource"
        ctx.tag('rejected')
        return None
    if isinstance(spec, tuple):
        # later selection invalid for numpy (cannot happen with the generators) - property silent
        ctx.tag('invalid-selection')
        return None
    if res['err'] is not None:
        return (f"opening/reading with legal preselect raised {res['err']} at stage {res['stage']} "
                f"(the whole data set with the same ranges selected has {len(spec['ts'])} dumps, "
                f"{len(spec['freqs'])} channels)")
    P, meta = res['P'], res['meta']
    # --- closed-form axes and metadata (spec reply)
    if P['ts'] != spec['ts']:
        d = [float(a - b) for a, b in zip(P['ts'], spec['ts'])][:4]
        return f"timestamps differ from sync+first+i*int+offset(-cbf) of the same dumps: impl-spec={d}, lengths {len(P['ts'])}/{len(spec['ts'])}"
    if meta['off'] != spec['off']:
        return f"time_offset {float(meta['off'])} != documented {float(spec['off'])}"
    if P['freqs'] != spec['freqs']:
        return f"freqs {[float(x) for x in P['freqs']][:4]} != centre+(k-N//2)*bw/N of the same channels {[float(x) for x in spec['freqs']][:4]}"
    if meta['start'] != spec['start'] or meta['end'] != spec['end']:
        return (f"start/end time {float(meta['start'])},{float(meta['end'])} do not bracket first/last dump by half a dump "
                f"({float(spec['start'])},{float(spec['end'])})")
    cfg = case['cfg']
    if meta['width'] != Fraction(cfg['width']) or meta['period'] != Fraction(cfg['int']):
        return f"channel_width/dump_period {float(meta['width'])},{float(meta['period'])} != {cfg['width']},{cfg['int']}"
    # --- data: which stored samples are shown
    if not (P['vis_ok'] and P['grid_ok']):
        return 'visibilities are not a rectangular selection of the stored samples'
    exp_shape = (len(spec['dumpPos']), len(spec['chanPos']), res['syn'].shape[2])
    if P['shape'] != exp_shape:
        return f"vis shape {P['shape']} != {exp_shape}"
    if P['dumpPos'] is not None and (P['dumpPos'] != spec['dumpPos'] or P['chanPos'] != spec['chanPos']):
        return (f"vis rows/columns are stored dumps {P['dumpPos']} channels {P['chanPos']}, "
                f"expected dumps {spec['dumpPos']} channels {spec['chanPos']}")
    eflags, eweights = stored_expect(res['syn'], spec['dumpPos'], spec['chanPos'])
    if not np.array_equal(P['flags'], eflags):
        return 'raw_flags differ from the stored flags of the selected dumps/channels'
    if not np.array_equal(P['bflags'], eflags != 0):
        return 'flags differ from (stored flags != 0) of the selected dumps/channels'
    if not np.array_equal(P['weights'], eweights):
        return 'weights differ from the stored weights of the selected dumps/channels'
    # --- implementation against itself: whole data set, same ranges, shifted selection
    try:
        W = whole_snapshot(res, case, spec)
    except Exception as e:   # noqa: BLE001
        return f'whole data set with the equivalent selection raised {type(e).__name__}: {e}'
    for key in ('ts', 'freqs'):
        if P[key] != W[key]:
            return f'{key} with preselect differ from whole+select: {[float(x) for x in P[key]][:3]} vs {[float(x) for x in W[key]][:3]}'
    for key in ('flags', 'bflags', 'weights'):
        if not np.array_equal(P[key], W[key]):
            return f'{key} with preselect differ from whole+select'
    if P['dumpPos'] != W['dumpPos'] or P['chanPos'] != W['chanPos']:
        return 'vis with preselect differ from whole+select'
    if P['sensor'].shape != W['sensor'].shape or not np.allclose(P['sensor'], W['sensor'], rtol=1e-9, atol=1e-9,
                                                                  equal_nan=True):
        return f"sensor values with preselect {P['sensor'][:4]} differ from whole+select {W['sensor'][:4]}"
    if P['delay'] is not None:
        ctx.tag('applied-delay-sensor-compared')
        for key in ('delay', 'phase'):
            o = P.get(key + '_oracle')
            if o is not None and (o.shape != P[key].shape or not np.allclose(P[key], o, rtol=1e-6, atol=1e-6)):
                j = int(np.argmax(np.abs(P[key] - o))) if o.shape == P[key].shape else 0
                return (f'applied_{key} of m000h at dump {j} is {P[key][j] if o.shape == P[key].shape else P[key].shape}, '
                        f'the F-engine model of its source sensor (latest update advanced with its {key} rate) gives '
                        f'{o[j]}')
    for key in ('delay', 'phase'):
        if (P[key] is None) != (W[key] is None):
            return f'the applied_{key} sensor exists only with / only without the preselect'
        if P[key] is not None and (P[key].shape != W[key].shape or not np.allclose(P[key], W[key], rtol=1e-9, atol=1e-9,
                                                                                  equal_nan=True)):
            return (f'applied_{key} of m000h with preselect {P[key][-3:]} differs from whole+select {W[key][-3:]} '
                    f'(last dumps)')
    # --- mirror model should track the implementation exactly
    if isinstance(mirror, tuple) or mirror['ts'] != P['ts'] or mirror['freqs'] != P['freqs'] or \
            mirror['off'] != meta['off'] or mirror['start'] != meta['start'] or mirror['end'] != meta['end']:
        ctx.advise(f'mirror model differs from implementation (which agrees with the spec) on {enc_cfg(cfg)} {enc_pre(case["pre"])}')
    return None


# ---------------------------------------------------------------- spectral windows

def spw_line(case, op):
    w = '_' if case['width'] is None else fr(case['width'])
    bw = '_' if case['bandwidth'] is None else fr(case['bandwidth'])
    base = f"{fr(case['centre'])} {w} {case['n']} {case['sb']} {bw}"
    if op[0] == 'sub':
        return f'spwsub {base} {op[1]} {op[2]}'
    if op[0] == 'rech':
        return f'spwrech {base} {op[1]}'
    return f'spw {base}'


def parse_spw(reply):
    if reply.startswith('E:'):
        return ('E', reply[2:])
    c, w, bw, n, sb, fq, e1, e2 = reply.split(' ')
    return dict(centre=unfr(c), width=unfr(w), bandwidth=unfr(bw), n=int(n), sb=int(sb), freqs=parse_list(fq, unfr),
                e1=unfr(e1), e2=unfr(e2))


def close(a, b, scale, exact):
    if exact:
        return Fraction(float(a)) == b
    return abs(float(a) - float(b)) <= 1e-9 * scale


def judge_spw(ctx, case, rep_base, rep_op):
    from katdal.spectral_window import SpectralWindow
    kw = {}
    if case['bandwidth'] is not None:
        kw['bandwidth'] = case['bandwidth']
    w0 = SpectralWindow(case['centre'], case['width'], case['n'], 'c856M4k', case['sb'], 'L', **kw)
    base = parse_spw(rep_base)
    exact = case['dyadic'] and not (case['op'][0] == 'rech' and case['op'][1] not in (1, 2, 4, 8, case['n']))
    scale = max(abs(float(base['bandwidth'])), abs(case['centre']) * 1e-3, 1.0)
    ctx.tag('spw-' + case['op'][0], 'spw-odd' if case['n'] % 2 else 'spw-even', 'spw-lsb' if case['sb'] < 0 else 'spw-usb',
            'spw-exact' if exact else 'spw-tol')

    def cmp_window(w, m, what):
        if w.num_chans != m['n'] or w.sideband != m['sb']:
            return f'{what}: num_chans/sideband {w.num_chans},{w.sideband} != {m["n"]},{m["sb"]}'
        for attr, key in (('centre_freq', 'centre'), ('channel_width', 'width'), ('bandwidth', 'bandwidth')):
            if not close(getattr(w, attr), m[key], scale, exact):
                return f'{what}: {attr} {getattr(w, attr)!r} != {float(m[key])!r}'
        f = w.channel_freqs
        if len(f) != len(m['freqs']) or not all(close(a, b, scale, exact) for a, b in zip(f, m['freqs'])):
            return f'{what}: channel_freqs {list(f)[:4]} != {[float(x) for x in m["freqs"]][:4]}'
        return None
    v = cmp_window(w0, base, 'window')
    if v:
        return v
    # the documented formula, independently of the model
    N = case['n']
    cw = Fraction(case['width']) if case['bandwidth'] is None else Fraction(case['bandwidth']) / N
    for k, f in enumerate(w0.channel_freqs):
        want = Fraction(case['centre']) + case['sb'] * (k - N // 2) * cw
        if not close(f, want, scale, exact):
            return f'channel {k} frequency {f!r} != centre + sideband*(k - N//2)*width = {float(want)!r}'
    op = case['op']
    if op[0] == 'freqs':
        return None
    m = parse_spw(rep_op)
    if op[0] == 'sub':
        a, b = op[1], op[2]
        valid = 0 <= a < b <= N
        try:
            w1 = w0.subrange(a, b)
        except IndexError:
            if valid:
                return f'subrange({a},{b}) of {N} channels raised IndexError'
            ctx.tag('spw-sub-rejected')
            return None
        except Exception as e:   # noqa: BLE001
            return f'subrange({a},{b}) raised {type(e).__name__}'
        if not valid:
            return f'subrange({a},{b}) of {N} channels was accepted (documented: IndexError unless non-empty subinterval)'
        if isinstance(m, tuple):
            ctx.advise(f'mirror model rejects subrange({a},{b}) of {N}')
        else:
            v = cmp_window(w1, m, 'subrange')
            if v:
                return v
        # spec: channel centres aligned with the original
        f0, f1 = w0.channel_freqs, w1.channel_freqs
        if len(f1) != b - a or not all(close(x, Fraction(float(y)), scale, exact) for x, y in zip(f1, f0[a:b])):
            return f'subrange({a},{b}) channel centres {list(f1)[:4]} != original channels {list(f0[a:b])[:4]}'
        if not close(w1.channel_width, Fraction(float(w0.channel_width)), scale, exact):
            return 'subrange changed the channel width'
        if w1.product != w0.product or w1.band != w0.band or w1.sideband != w0.sideband:
            return 'subrange changed product/band/sideband'
        return None
    mch = op[1]
    w1 = w0.rechannelise(mch)
    v = cmp_window(w1, m, 'rechannelise')
    if v:
        return v
    if mch == N and w1 != w0:
        return 'rechannelise(same) is not the identity'
    if w1.num_chans != mch:
        return f'rechannelise({mch}) has {w1.num_chans} channels'

    def edges(w):
        f = w.channel_freqs
        half = Fraction(float(w.channel_width)) / 2
        return Fraction(float(f[0])) - w.sideband * half, Fraction(float(f[-1])) + w.sideband * half
    e0, e1 = edges(w0), edges(w1)
    tol = 0 if exact else Fraction(1e-9 * scale)
    if abs(e0[0] - e1[0]) > tol or abs(e0[1] - e1[1]) > tol:
        return (f'rechannelise({mch}) moved the band edges: {float(e0[0])},{float(e0[1])} -> '
                f'{float(e1[0])},{float(e1[1])}')
    if not close(w1.bandwidth, Fraction(float(w0.bandwidth)), scale, exact):
        return 'rechannelise changed the bandwidth'
    return None


# ---------------------------------------------------------------- fix rule grid (model formula vs table)

def fix_grid_lines():
    lines = []
    d = FIX_DATES
    for t in [d[0] - 1, d[0], d[0] + 1, d[1] - 1, d[1], d[1] + 1, d[2] - 1, d[2], d[2] + 1]:
        for cmc2 in (0, 1):
            for k4 in (0, 1):
                lines.append(f'fix {fr(t)} {fr(d[0])} {fr(d[1])} {fr(d[2])} {cmc2} {k4}')
    return lines


# ---------------------------------------------------------------- driver

def request_lines(case):
    if case['kind'] == 'open':
        sd, sc = effective_selection(case['selects'])
        tail = f"{enc_cfg(case['cfg'])} {enc_pre(case['pre'])} {enc_ix(sd)} {enc_ix(sc)}"
        return ['open ' + tail, 'spec ' + tail, 'validate ' + enc_pre(case['pre'])]
    return [spw_line(case, ['freqs']), spw_line(case, case['op']), 'validate _|_|-']


def evaluate(ctx, cases, tmpdir):
    lines = []
    for c in cases:
        lines += request_lines(c)
    replies = common.run_model('C17', lines)
    bad = []
    for i, c in enumerate(cases):
        r0, r1, r2 = replies[3 * i:3 * i + 3]
        if 'bad-op' in (r0, r1, r2):
            raise common.Broken(f'model driver rejected {lines[3 * i:3 * i + 3]}')
        if c['kind'] == 'open':
            res = run_open_impl(c, tmpdir)
            v = judge_open(ctx, c, r0, r1, r2, res)
            cfg = c['cfg']
            ctx.tag('cbf-known' if cfg['cbf'] is not None else 'cbf-unknown-' + str(cfg['unknown_how']),
                    'gen-cmc2' if 'cbf_dev' in cfg['resources'] else 'gen-cmc1',
                    'mode-4k' if 'c856M4k' in cfg['product'] else 'mode-other',
                    'offset' if cfg['off'] else 'no-offset', f"selects-{len(c['selects'])}",
                    'F-odd' if cfg['F'] % 2 else 'F-even')
            if res['meta'] is not None and cfg['cbf'] is not None:
                ctx.tag('workaround-applied' if res['meta']['off'] != Fraction(cfg['off']) else 'workaround-not-applied')
            nontriv = res['P'] is not None and (bool(c['pre']) or bool(c['selects']))
            ctx.count(lines[3 * i], nontriv, sample={'request': lines[3 * i][:200], 'spec': r1[:160]})
            if res['P'] is not None:
                ctx.traces_validated += 1
        else:
            try:
                v = judge_spw(ctx, c, r0, r1)
            except Exception as e:   # noqa: BLE001
                v = f'SpectralWindow raised {type(e).__name__}: {e}'
            ctx.count(lines[3 * i + 1], c['n'] > 1, sample={'request': lines[3 * i + 1], 'model': r1[:160]})
        if v:
            bad.append((c, v))
    return bad


def still_fails(ctx_proto, case, tmpdir):
    ctx = common.Ctx(ctx_proto.prop, ctx_proto.tier, ctx_proto.seed)
    try:
        return bool(evaluate(ctx, [case], tmpdir))
    except Exception:   # noqa: BLE001
        return False


def shrink(ctx, case, what):
    if case['kind'] != 'open':
        return case, what
    tmpdir = tempfile.mkdtemp(prefix='c17s_')
    try:
        cur = json.loads(json.dumps(case))
        changed = True
        while changed:
            changed = False
            cands = []
            if cur['selects']:
                cands.append(dict(cur, selects=cur['selects'][:-1]))
                cands.append(dict(cur, selects=[]))
            for k in list(cur['pre']):
                p2 = {kk: vv for kk, vv in cur['pre'].items() if kk != k}
                cands.append(dict(cur, pre=p2))
            if cur['cfg']['off']:
                cands.append(dict(cur, cfg=dict(cur['cfg'], off=0.0)))
            if cur['via'] != 'direct':
                cands.append(dict(cur, via='direct'))
            if cur['cfg']['n_ants'] > 1:
                cands.append(dict(cur, cfg=dict(cur['cfg'], n_ants=1,
                                                resources=cur['cfg']['resources'].replace(',m001', ''))))
            for cand in cands:
                cand = norm_case(json.loads(json.dumps(cand)))
                if still_fails(ctx, cand, tmpdir):
                    cur, changed = cand, True
                    break
        bad = evaluate(common.Ctx(ctx.prop, ctx.tier, ctx.seed), [norm_case(cur)], tmpdir)
        return cur, (bad[0][1] if bad else what)
    finally:
        shutil.rmtree(tmpdir, ignore_errors=True)


def norm_case(c):
    """after a JSON round trip: tuples back where the code expects them"""
    if c.get('kind') == 'open':
        c['pre'] = {k: tuple(v) for k, v in c['pre'].items()}
        c['selects'] = [{k: (tuple(v) if v[0] != 'm' and v[0] != 'l' else (v[0], list(v[1]))) for k, v in s.items()}
                        for s in c['selects']]
    return c


# ---------------------------------------------------------------- known-finding matchers

def _ranges(case):
    cfg, pre = case['cfg'], case['pre']
    out = {}
    for key, n in (('dumps', cfg['T']), ('channels', cfg['F'])):
        v = pre.get(key)
        if v is None:
            out[key] = (0, n)
        elif v[0] == 's' and v[3] in (None, 1):
            lo, hi, _ = slice(v[1], v[2]).indices(n)
            out[key] = (lo, hi)
        else:
            return None
    return out


def m_empty_preselect(case, what):
    """legal unit-step preselect whose dump or channel range is empty: cannot be opened / read"""
    if case.get('kind') != 'open' or set(case['pre']) - {'dumps', 'channels'}:
        return False
    r = _ranges(case)
    if r is None:
        return False
    empty = r['dumps'][1] <= r['dumps'][0] or r['channels'][1] <= r['channels'][0]
    return empty and 'raised' in what


def m_straddle(case, what):
    """dump preselect that skips the first dumps of a capture straddling the applicable fix date, CBF dump
    period known: the workaround is decided on the first preselected dump instead of the capture start"""
    if case.get('kind') != 'open':
        return False
    r = _ranges(case)
    cfg = case['cfg']
    if r is None or cfg['cbf'] is None or r['dumps'][0] == 0:
        return False
    cmc2, k4 = 'cbf_dev' in cfg['resources'], 'c856M4k' in cfg['product']
    fd = FIX_DATES[0] if (cmc2 and k4) else FIX_DATES[1] if cmc2 else FIX_DATES[2]
    t_first = Fraction(cfg['sync']) + Fraction(cfg['first']) + Fraction(cfg['off'])
    t_pre = t_first + r['dumps'][0] * Fraction(cfg['int'])
    differs = (t_first < fd) != (t_pre < fd)
    symptom = any(w in what for w in ('timestamps', 'time_offset', 'start/end', 'sensor', 'ts with preselect'))
    return differs and symptom


MATCHERS = {'c17_empty_preselect_cannot_open': m_empty_preselect,
            'c17_preselect_straddles_fix_date': m_straddle}


def corpus_cases():
    d = os.path.join(common.VERIF, 'corpus', 'C17')
    out = []
    if os.path.isdir(d):
        for nm in sorted(os.listdir(d)):
            out.append(norm_case(json.load(open(os.path.join(d, nm)))['case']))
    return out


def list_open_cases(ctx, tmpdir):
    """several RDB files opened together: a channels preselect is equivalent to selecting those channels afterwards,
    a dumps preselect (whose indices would mean something else in every file) is refused with IndexError"""
    import random
    import katdal
    from katsdptelstate.rdb_writer import RDBWriter
    out = []
    paths = []
    F = 6
    for k in range(2):
        sd = tempfile.mkdtemp(dir=tmpdir)
        rng = random.Random(ctx.seed * 7 + k)
        syn = v4synth.make_v4(rng, T=5, F=F, n_ants=1, store_dir=sd, sync_time=1.6e9 + 1000.0 * k, cbid=f'16000000{k}0',
                              seed=11 + k)
        syn.telstate['capture_block_id'] = syn.cbid
        syn.telstate['stream_name'] = syn.stream
        d = os.path.join(sd, syn.cbid)
        os.makedirs(d, exist_ok=True)
        path = os.path.join(d, f'{syn.cbid}_{syn.stream}.rdb')
        with RDBWriter(path) as w:
            w.save(syn.telstate)
        paths.append(path)
    case = dict(kind='listopen', paths=len(paths))
    for pre in (dict(dumps=slice(1, 4)), dict(dumps=slice(0, 5), channels=slice(1, 3))):
        try:
            dd = katdal.open(paths, preselect=pre)
            out.append((dict(case, pre=str(pre)),
                        f'katdal.open of {len(paths)} files accepted preselect={pre} ({len(dd.timestamps)} dumps): a dumps '
                        f'preselect on several files is neither refused nor equivalent to selecting those dumps afterwards'))
        except IndexError:
            ctx.tag('listopen-dumps-refused')
        except Exception as e:   # noqa: BLE001
            out.append((dict(case, pre=str(pre)), f'katdal.open of several files with preselect={pre} raised '
                                                  f'{type(e).__name__} instead of IndexError'))
    try:
        whole = katdal.open(paths)
        whole.select(channels=slice(1, 4))
        part = katdal.open(paths, preselect=dict(channels=slice(1, 4)))
        same = (np.array_equal(whole.freqs, part.freqs) and np.array_equal(whole.timestamps[:], part.timestamps[:])
                and np.array_equal(np.asarray(whole.vis[:]), np.asarray(part.vis[:])))
        if not same:
            out.append((dict(case, pre='channels'), 'several files opened with a channels preselect differ from opening '
                                                    'them whole and selecting those channels'))
        ctx.tag('listopen-channels-equivalent')
    except Exception as e:   # noqa: BLE001
        out.append((dict(case, pre='channels'), f'several files with a channels preselect raised {type(e).__name__}: '
                                                f'{str(e)[:100]}'))
    ctx.count(('listopen',), True, sample={'listopen': len(paths)})
    return out


def run(ctx):
    ctx.matchers.update(MATCHERS)
    build = common.build_and_audit('C17', ctx.tier)
    n_open = ctx.q(330, 6000)
    n_spw = ctx.q(500, 20000)
    tmpdir = tempfile.mkdtemp(prefix='c17_')
    try:
        # model-internal sanity: the code's boolean formula equals the documented table around every date
        grid = fix_grid_lines()
        for ln, rep in zip(grid, common.run_model('C17', grid)):
            a, b = rep.split(' ')
            if a != b:
                raise common.Broken(f'model fix rule formula != table on {ln}')
        cases = corpus_cases()
        cases += [gen_open_case(ctx.rng, i) for i in range(n_open)]
        cases += [gen_spw_case(ctx.rng) for _ in range(n_spw)]
        bad = evaluate(ctx, cases, tmpdir)
        if not bad and not build['build_ok']:
            more = [gen_open_case(ctx.rng, 100 + i) for i in range(4 * n_open)] + \
                   [gen_spw_case(ctx.rng) for _ in range(4 * n_spw)]
            bad = evaluate(ctx, more, tmpdir)
        for c, v in bad:
            ctx.violation(c, v)
        for c, v in list_open_cases(ctx, tmpdir):
            ctx.violation(c, v)
        ctx.assumptions = ['floats of the implementation are exact for the dyadic parameters generated',
                           'select() has mask semantics and the last selection per axis wins (C02)',
                           'coordinate-coded arrays make the identity of every stored sample visible']
        return common.finish(ctx, build, RULE, CHECKER, TRUSTED, shrink=lambda c, w: shrink(ctx, c, w))
    finally:
        shutil.rmtree(tmpdir, ignore_errors=True)


def replay(ctx, rep):
    ctx.matchers.update(MATCHERS)
    build = common.build_and_audit('C17', 'quick')
    tmpdir = tempfile.mkdtemp(prefix='c17r_')
    try:
        c = norm_case(rep['case'])
        for cc, v in evaluate(ctx, [c], tmpdir):
            ctx.violation(cc, v)
        return common.finish(ctx, build, RULE, CHECKER, TRUSTED)
    finally:
        shutil.rmtree(tmpdir, ignore_errors=True)
