/-
  ConcatenatedLazyIndexer head axis, slice index with positive step: the per-part slices
  `slice(chunk_start, stop - offset, stride)` with
  `chunk_start = start - offset if start >= offset else (start - offset) % stride`
  (concatdata.py:139-148) read exactly the positions of `range(start, stop, stride)`.
-/
import KatdalModel.Lemmas.ConcatHead
open Np Index LazyIx

namespace Np

/-- first element of the progression `s, s + st, …` that is `≥ x` -/
def nextGE (s st x : Int) : Int := if s ≥ x then s else x + (s - x) % st

theorem nextGE_of_ge {s st x : Int} (h : s ≥ x) : nextGE s st x = s := by simp [nextGE, h]
theorem nextGE_of_lt {s st x : Int} (h : ¬ s ≥ x) : nextGE s st x = x + (s - x) % st := by simp [nextGE, h]

theorem nextGE_ge (s st x : Int) (hst : 0 < st) : x ≤ nextGE s st x := by
  unfold nextGE
  split
  · omega
  · have := Int.emod_nonneg (s - x) (by omega : st ≠ 0); omega

theorem nextGE_lt (s st x : Int) (hst : 0 < st) (h : s < x) : nextGE s st x < x + st := by
  unfold nextGE
  rw [if_neg (by omega)]
  have := Int.emod_lt_of_pos (s - x) hst; omega

/-- the progression step: moving the start one stride on does not change the first element `≥ x`
    while the start is still below `x` -/
theorem nextGE_step (s st x : Int) (hst : 0 < st) (h : s < x) : nextGE (s + st) st x = nextGE s st x := by
  unfold nextGE
  rw [if_neg (by omega : ¬ s ≥ x)]
  by_cases h2 : s + st ≥ x
  · rw [if_pos h2]
    have e : s - x = (s - x + st) + st * (-1) := by omega
    rw [e, Int.add_mul_emod_self_left, Int.emod_eq_of_lt (by omega) (by omega)]
    omega
  · rw [if_neg h2]
    have e : s + st - x = (s - x) + st * 1 := by omega
    rw [e, Int.add_mul_emod_self_left]

/-- a positive-step range splits at any threshold `x` -/
theorem rangeList_split (st : Int) (hst : 0 < st) (x e : Int) :
    ∀ (k : Nat) (s : Int), (x - s).toNat ≤ k →
      rangeList s e st = rangeList s (min e x) st ++ rangeList (nextGE s st x) e st := by
  intro k
  induction k with
  | zero =>
    intro s hk
    have hsx : s ≥ x := by omega
    rw [rangeList_pos_nil hst (by omega : min e x ≤ s)]
    simp [nextGE, hsx]
  | succ k ih =>
    intro s hk
    by_cases hsx : s ≥ x
    · rw [rangeList_pos_nil hst (by omega : min e x ≤ s)]
      simp [nextGE, hsx]
    · by_cases hse : s < e
      · rw [rangeList_pos_cons hst hse, rangeList_pos_cons hst (by omega : s < min e x),
          ih (s + st) (by omega), nextGE_step s st x hst (by omega)]
        simp
      · have h1 := nextGE_ge s st x hst
        rw [rangeList_pos_nil hst (by omega : e ≤ s), rangeList_pos_nil hst (by omega : min e x ≤ s),
          rangeList_pos_nil hst (by omega : e ≤ nextGE s st x)]
        simp

/-- taking the first element `≥ y` of a progression already advanced to `≥ x ≤ y` -/
theorem nextGE_nextGE (s st x y : Int) (hst : 0 < st) (hxy : x ≤ y) :
    nextGE (nextGE s st x) st y = nextGE s st y := by
  by_cases hsx : s ≥ x
  · simp [nextGE, hsx]
  · have hlt := nextGE_lt s st x hst (by omega)
    have hge := nextGE_ge s st x hst
    -- n = s - st * q
    have hn : nextGE s st x = s - st * ((s - x) / st) := by
      unfold nextGE
      rw [if_neg hsx, Int.emod_def]; omega
    have hsy : ¬ s ≥ y := by omega
    by_cases hny : nextGE s st x ≥ y
    · rw [nextGE_of_ge hny, nextGE_of_lt hsy]
      have e : s - y = (nextGE s st x - y) + st * ((s - x) / st) := by rw [hn]; omega
      rw [e, Int.add_mul_emod_self_left, Int.emod_eq_of_lt (by omega) (by omega)]
      omega
    · rw [nextGE_of_lt hny, nextGE_of_lt hsy]
      have e : s - y = (nextGE s st x - y) + st * ((s - x) / st) := by rw [hn]; omega
      rw [e, Int.add_mul_emod_self_left]

/-- shifting a range by an offset -/
theorem rangeAux_shift (st off : Int) : ∀ (k : Nat) (x : Int),
    rangeAux st k (x + off) = (rangeAux st k x).map (· + off) := by
  intro k
  induction k with
  | zero => intro x; rfl
  | succ k ih =>
    intro x
    simp only [rangeAux, List.map_cons]
    have e : x + off + st = (x + st) + off := by omega
    rw [e, ih]

theorem rangeList_shift (s e st off : Int) :
    rangeList (s + off) (e + off) st = (rangeList s e st).map (· + off) := by
  unfold rangeList
  have : rangeLen (s + off) (e + off) st = rangeLen s e st := by
    unfold rangeLen
    have e1 : e + off - (s + off) = e - s := by omega
    have e2 : s + off - (e + off) = s - e := by omega
    rw [e1, e2]
  rw [this, rangeAux_shift]

end Np

namespace LazyIx

theorem emod_eq (a b : Int) : a.emod b = a % b := rfl

theorem startsFrom_get : ∀ (lens : List Nat) (off p : Nat), p < lens.length →
    (startsFrom off lens)[p]? = some (off + total (lens.take p)) := by
  intro lens
  induction lens with
  | nil => intro off p h; simp at h
  | cons l t ih =>
    intro off p hp
    cases p with
    | zero => simp [startsFrom, total]
    | succ p =>
      simp only [startsFrom, List.getElem?_cons_succ, List.take_succ_cons, total_cons]
      rw [ih (off + l) p (by simpa using hp)]
      congr 1; omega

theorem startsFrom_length : ∀ (lens : List Nat) (off : Nat), (startsFrom off lens).length = lens.length := by
  intro lens
  induction lens with
  | nil => intro off; rfl
  | cons l t ih => intro off; simp [startsFrom, ih]

theorem startsFrom_le : ∀ (lens : List Nat) (off : Nat), ∀ s ∈ startsFrom off lens, s ≤ off + total lens := by
  intro lens
  induction lens with
  | nil => intro off s hs; simp [startsFrom] at hs
  | cons l t ih =>
    intro off s hs
    simp only [startsFrom, List.mem_cons] at hs
    rw [total_cons]
    rcases hs with rfl | hs
    · omega
    · have := ih (off + l) s hs; omega

theorem partStarts_getD (lens : List Nat) (p : Nat) (hp : p < lens.length) :
    (partStarts lens).getD p 0 = total (lens.take p) := by
  rw [partStarts_eq, List.getD_eq_getElem?_getD, startsFrom_get lens 0 p hp]
  simp

theorem total_take_mono (lens : List Nat) (p q : Nat) (h : p ≤ q) :
    total (lens.take p) ≤ total (lens.take q) := by
  obtain ⟨d, rfl⟩ := Nat.exists_eq_add_of_le h
  induction d with
  | zero => exact Nat.le_refl _
  | succ d ih =>
    have ih := ih (by omega)
    by_cases hq : p + d < lens.length
    · rw [show p + (d + 1) = p + d + 1 by omega, total_take_succ lens (p + d) hq]; omega
    · rw [List.take_of_length_le (by omega : lens.length ≤ p + (d + 1))]
      rw [List.take_of_length_le (by omega : lens.length ≤ p + d)] at ih
      exact ih

theorem takeWhile_all {α} (q : α → Bool) : ∀ (l : List α), (∀ x ∈ l, q x = true) → l.takeWhile q = l := by
  intro l
  induction l with
  | nil => intro _; rfl
  | cons a t ih =>
    intro h
    rw [List.takeWhile_cons, h a (List.mem_cons_self ..)]
    simp only [if_true]
    rw [ih (fun x hx => h x (List.mem_cons_of_mem _ hx))]

theorem total_take_le (lens : List Nat) (p : Nat) : total (lens.take p) ≤ total lens := by
  have := total_take_mono lens p (max p lens.length) (by omega)
  rwa [List.take_of_length_le (by omega : lens.length ≤ max p lens.length)] at this

/-- `find_indexer(total)` is the last part -/
theorem findIndexer_total (lens : List Nat) :
    findIndexer (partStarts lens) (total lens : Int) = (lens.length : Int) - 1 := by
  unfold findIndexer searchsortedRight
  rw [partStarts_eq]
  have : ((startsFrom 0 lens).map Int.ofNat).takeWhile (· ≤ (total lens : Int)) = (startsFrom 0 lens).map Int.ofNat := by
    apply takeWhile_all
    intro x hx
    simp only [List.mem_map] at hx
    obtain ⟨y, hy, rfl⟩ := hx
    have := startsFrom_le lens 0 y hy
    simp only [Int.ofNat_eq_natCast, decide_eq_true_eq]; omega
  rw [this]
  simp [startsFrom_length]

/-- where `find_indexer(e)` lands for `0 ≤ e ≤ total` -/
theorem findIndexer_stop (lens : List Nat) (hne : lens ≠ []) (e : Nat) (he : e ≤ total lens) :
    ∃ pe : Nat, findIndexer (partStarts lens) (e : Int) = (pe : Int) ∧ pe < lens.length ∧
      total (lens.take pe) ≤ e ∧ e ≤ total (lens.take (pe + 1)) := by
  have hlen : 0 < lens.length := List.length_pos_iff.mpr hne
  by_cases hlt : e < total lens
  · obtain ⟨k, l, _, h2, h3, h4, h5, h6⟩ := findIndexer_locate lens 0 0 e (by omega) (by simpa using hlt)
    rw [← partStarts_eq] at h2
    rw [startsFrom_get lens 0 k h3] at h4
    simp only [Nat.zero_add, Option.some.injEq] at h4
    refine ⟨k, h2, h3, by omega, ?_⟩
    rw [total_take_succ lens k h3]; omega
  · have : e = total lens := by omega
    subst this
    refine ⟨lens.length - 1, ?_, by omega, total_take_le _ _, ?_⟩
    · rw [findIndexer_total]; omega
    · rw [List.take_of_length_le (by omega)]; exact Nat.le_refl _

theorem resolve_slice_nonneg (n : Nat) (cs e' st : Int) (hst : 0 < st) (hcs : 0 ≤ cs) (he : 0 ≤ e') :
    Ix.resolve n (.slice (some cs) (some e') (some st)) =
      .ok (.many ((rangeList cs (min e' n) st).map Int.toNat)) := by
  have h1 : ¬ (st = 0) := by omega
  have h2 : ¬ (st < 0) := by omega
  have h3 : ¬ (cs < 0) := by omega
  have h5 : ¬ (e' < 0) := by omega
  simp only [Ix.resolve, sliceList, sliceIndices, Option.getD_some, h1, h2, h3, h5, if_false, Option.map]
  congr 3
  by_cases hc : cs > (n : Int)
  · simp only [hc, if_true]
    by_cases hen : e' > (n : Int)
    · simp only [hen, if_true]
      rw [rangeList_pos_nil hst (by omega), rangeList_pos_nil hst (by omega)]
    · simp only [hen, if_false]
      rw [rangeList_pos_nil hst (by omega), rangeList_pos_nil hst (by omega)]
  · simp only [hc, if_false]
    by_cases hen : e' > (n : Int)
    · simp only [hen, if_true]; congr 1; omega
    · simp only [hen, if_false]; congr 1; omega

theorem runPart_slice (lens : List Nat) (k : Nat) (cs e' st : Int) (hk : k < lens.length)
    (hst : 0 < st) (hcs : 0 ≤ cs) (he : 0 ≤ e') :
    runPart lens k (.slice (some cs) (some e') (some st)) =
      .ok ((rangeList cs (min e' (lens.getD k 0)) st).map fun j => (k, j.toNat)) := by
  unfold runPart
  rw [getNat_getD lens k hk]
  have h2 := second_stage_full (lens.getD k 0) (.slice (some cs) (some e') (some st)) (by simp [stage2InG, hst])
  simp only [bind, Except.bind] at h2
  simp only [bind, Except.bind, getitem1, mkLookup_full]
  simp only [mapThrough] at h2 ⊢
  rw [h2, resolve_slice_nonneg _ cs e' st hst hcs he]
  simp [pure, Except.pure, List.map_map]

/-- the per-part body of the slice branch of `ConcatenatedLazyIndexer.__getitem__` -/
def sliceChunk (lens : List Nat) (s e st : Int) (ind : Int) : Except Err (List (Nat × Nat)) := do
  let p ← pyListIdx lens.length ind
  let off : Int := (((partStarts lens).getD p 0 : Nat) : Int)
  let cs : Int := if s ≥ off then s - off else pyMod (s - off) st
  runPart lens p (.slice (some cs) (some (e - off)) (some st))

theorem map_toNat_shift (R : List Int) (off : Nat) (h : ∀ x ∈ R, 0 ≤ x) :
    (R.map (· + (off : Int))).map Int.toNat = (R.map Int.toNat).map (· + off) := by
  induction R with
  | nil => rfl
  | cons a t ih =>
    simp only [List.map_cons]
    rw [ih (fun x hx => h x (List.mem_cons_of_mem _ hx))]
    congr 1
    have := h a (List.mem_cons_self ..)
    omega

/-- one part's chunk is the part of the progression that falls inside that part -/
theorem sliceChunk_spec (lens : List Nat) (s e st : Int) (hst : 0 < st) (p : Nat)
    (hp : p < lens.length) (he : (total (lens.take p) : Int) ≤ e) :
    ∃ r, sliceChunk lens s e st (p : Int) = .ok r ∧
      ((rangeList (nextGE s st (total (lens.take p))) (min e (total (lens.take (p + 1)))) st).map Int.toNat).mapM
        (locateF lens) = .ok r := by
  have hidx : pyListIdx lens.length ((p : Nat) : Int) = .ok p := by
    unfold pyListIdx normInt
    have : (0 : Int) ≤ (p : Int) ∧ (p : Int) < (lens.length : Int) := by omega
    rw [if_pos this]; simp
  let off : Nat := total (lens.take p)
  have hcs : (if s ≥ (off : Int) then s - off else pyMod (s - off) st) = nextGE s st off - off := by
    unfold nextGE
    simp only [pyMod, if_pos hst]
    split <;> simp [emod_eq] <;> omega
  have hge := nextGE_ge s st off hst
  let cs : Int := nextGE s st off - off
  let m : Int := min (e - off) (lens.getD p 0)
  refine ⟨(rangeList cs m st).map fun j => (p, j.toNat), ?_, ?_⟩
  · simp only [sliceChunk, hidx, bind, Except.bind, partStarts_getD lens p hp]
    rw [hcs]
    exact runPart_slice lens p cs (e - off) st hp hst (by omega) (by omega)
  · have e1 : nextGE s st off = cs + off := by omega
    have e2 : min e ((total (lens.take (p + 1)) : Nat) : Int) = m + off := by
      rw [total_take_succ lens p hp]; omega
    rw [e1, e2, rangeList_shift]
    have hb : ∀ x ∈ rangeList cs m st, cs ≤ x ∧ x < m := rangeList_pos_bounds st hst _ cs m (Nat.le_refl _)
    rw [map_toNat_shift _ off (fun x hx => by have := hb x hx; omega)]
    have := mapM_locate_part lens p off ((rangeList cs m st).map Int.toNat) hp rfl (by
      intro j hj
      simp only [List.mem_map] at hj
      obtain ⟨x, hx, rfl⟩ := hj
      have := hb x hx
      omega)
    unfold locateF
    rw [this, List.map_map]
    rfl

theorem sliceLoop (lens : List Nat) (s e st : Int) (hst : 0 < st) (pe : Nat) (hpe : pe < lens.length)
    (he1 : (total (lens.take pe) : Int) ≤ e) (he2 : e ≤ (total (lens.take (pe + 1)) : Int)) :
    ∀ (k p : Nat), p + k = pe + 1 →
      ∃ chunks, (rangeList (p : Int) ((pe : Int) + 1) 1).mapM (sliceChunk lens s e st) = .ok chunks ∧
        ((rangeList (nextGE s st (total (lens.take p))) e st).map Int.toNat).mapM (locateF lens)
          = .ok chunks.flatten := by
  intro k
  induction k with
  | zero =>
    intro p hp
    have : p = pe + 1 := by omega
    subst this
    refine ⟨[], ?_, ?_⟩
    · rw [rangeList_pos_nil (by omega) (by push_cast; omega)]; rfl
    · have := nextGE_ge s st (total (lens.take (pe + 1))) hst
      rw [rangeList_pos_nil hst (by omega)]; rfl
  | succ k ih =>
    intro p hp
    have hple : p ≤ pe := by omega
    obtain ⟨chunks', hc1, hc2⟩ := ih (p + 1) (by omega)
    have hmono := total_take_mono lens p pe hple
    obtain ⟨r, hr1, hr2⟩ := sliceChunk_spec lens s e st hst p (by omega) (by omega)
    refine ⟨r :: chunks', ?_, ?_⟩
    · rw [rangeList_unit_cons (by omega : (p : Int) < (pe : Int) + 1), List.mapM_cons, hr1]
      have : (p : Int) + 1 = ((p + 1 : Nat) : Int) := by push_cast; rfl
      rw [this, hc1]; rfl
    · rw [rangeList_split st hst (total (lens.take (p + 1))) e _ _ (Nat.le_refl _),
        nextGE_nextGE s st _ _ hst (by have := total_take_mono lens p (p + 1) (by omega); omega),
        List.map_append, List.mapM_append, hr2, hc2]
      rfl

theorem concatHead_slice_unfold (lens : List Nat) (a b c : Option Int) :
    concatHead lens (.slice a b c) =
      (match sliceIndices (total lens) a b c with
      | none => .error .value
      | some (s, e0, st) =>
        let e : Int := if st > 0 then max e0 s else e0
        let inds := rangeList (findIndexer (partStarts lens) s) (findIndexer (partStarts lens) e + 1) 1
        if inds.isEmpty then .error .value
        else do
          let chunks ← inds.mapM (sliceChunk lens s e st)
          pure (false, chunks.flatten)) := rfl

/-- the slice branch once start/stop are known, whenever the part holding the start is not after
    the part holding the stop -/
theorem sliceBody_spec (lens : List Nat) (sN eN : Nat) (st : Int) (hpos : 0 < st)
    (hsn : sN ≤ total lens) (hen : eN ≤ total lens) (hlens : lens ≠ [])
    (hord : findIndexer (partStarts lens) (sN : Int) ≤ findIndexer (partStarts lens) (eN : Int)) :
    (if (rangeList (findIndexer (partStarts lens) (sN : Int)) (findIndexer (partStarts lens) (eN : Int) + 1) 1).isEmpty
      then (.error .value : Except Err (Bool × List (Nat × Nat)))
      else do
        let chunks ← (rangeList (findIndexer (partStarts lens) (sN : Int))
          (findIndexer (partStarts lens) (eN : Int) + 1) 1).mapM (sliceChunk lens sN eN st)
        pure (false, chunks.flatten)) =
    (match ((rangeList (sN : Int) (eN : Int) st).map Int.toNat).mapM (locateF lens) with
     | .error err => .error err
     | .ok r => .ok (false, r)) := by
  obtain ⟨ps, h2, h3, h4, _⟩ := findIndexer_stop lens hlens sN hsn
  obtain ⟨pe, hpe1, hpe2, hpe3, hpe4⟩ := findIndexer_stop lens hlens eN hen
  have hle : ps ≤ pe := by rw [h2, hpe1] at hord; omega
  obtain ⟨chunks, hc1, hc2⟩ := sliceLoop lens (sN : Int) (eN : Int) st hpos pe hpe2 (by omega) (by omega)
    (pe + 1 - ps) ps (by omega)
  rw [nextGE_of_ge (by omega)] at hc2
  simp only [h2, hpe1]
  have hcons : rangeList (ps : Int) ((pe : Int) + 1) 1 = (ps : Int) :: rangeList ((ps : Int) + 1) ((pe : Int) + 1) 1 :=
    rangeList_unit_cons (by omega)
  have hnotempty : (rangeList (ps : Int) ((pe : Int) + 1) 1).isEmpty = false := by rw [hcons]; rfl
  rw [hnotempty, hc1, hc2]
  rfl

/-- `find_indexer` is monotone on `[0, total]` -/
theorem findIndexer_mono (lens : List Nat) (hlens : lens ≠ []) (x y : Nat) (hxy : x ≤ y) (hy : y ≤ total lens) :
    findIndexer (partStarts lens) (x : Int) ≤ findIndexer (partStarts lens) (y : Int) := by
  obtain ⟨px, h1, _, h3, _⟩ := findIndexer_stop lens hlens x (by omega)
  obtain ⟨py, g1, g2, _, g4⟩ := findIndexer_stop lens hlens y hy
  rw [h1, g1]
  by_cases h : px ≤ py
  · omega
  · exfalso
    have := total_take_mono lens (py + 1) px (by omega)
    have hxy' : x = y := by omega
    subst hxy'
    rw [h1] at g1
    omega

/-- **Concatenated indexer, positive-step slice head index**: every start/stop/stride (negative,
    `None`, out of range, empty selections included), every number and size of parts (at least one
    part; empty parts allowed) -/
theorem concatHead_slice (lens : List Nat) (hlens : lens ≠ []) (a b c : Option Int) (hc : c.getD 1 > 0) :
    concatHead lens (.slice a b c) = concatSpec lens (.slice a b c) := by
  cases hi : sliceIndices (total lens) a b c with
  | none =>
    rw [concatHead_slice_unfold, hi]
    simp [concatSpec, Ix.resolve, sliceList, hi, bind, Except.bind]
  | some t =>
    obtain ⟨s, e, st⟩ := t
    obtain ⟨hst0, hp, _⟩ := sliceIndices_bounds hi
    have hst : st = c.getD 1 := by
      unfold sliceIndices at hi
      simp only at hi
      split at hi
      · simp at hi
      · simp only [Option.some.injEq, Prod.mk.injEq] at hi; exact hi.2.2.symm
    have hpos : 0 < st := by omega
    obtain ⟨hs0, hsn, he0, hen⟩ := hp hpos
    obtain ⟨sN, rfl⟩ := Int.eq_ofNat_of_zero_le hs0
    obtain ⟨eN, rfl⟩ := Int.eq_ofNat_of_zero_le he0
    -- the stop actually used: max(stop, start)
    have hmax : (if st > 0 then max (eN : Int) (sN : Int) else (eN : Int)) = ((max eN sN : Nat) : Int) := by
      rw [if_pos hpos]; omega
    have hbody := sliceBody_spec lens sN (max eN sN) st hpos (by omega) (by omega) hlens
      (findIndexer_mono lens hlens sN (max eN sN) (by omega) (by omega))
    rw [concatHead_slice_unfold, hi]
    simp only [hmax]
    rw [hbody]
    -- the spec side: range(start, max(stop, start)) = range(start, stop)
    have hrange : rangeList (sN : Int) ((max eN sN : Nat) : Int) st = rangeList (sN : Int) (eN : Int) st := by
      by_cases h : sN < eN
      · rw [show max eN sN = eN by omega]
      · rw [rangeList_pos_nil hpos (by omega), rangeList_pos_nil hpos (by omega)]
    rw [hrange]
    generalize hY : List.mapM (locateF lens) (List.map Int.toNat (rangeList (sN : Int) (eN : Int) st)) = Y
    simp only [concatSpec, Ix.resolve, sliceList, hi, Option.map, bind, Except.bind]
    generalize hX : List.mapM (m := Except Err) _ (List.map Int.toNat (rangeList (sN : Int) (eN : Int) st)) = X
    have hXY : X = Y := hX.symm.trans hY
    rw [hXY]
    cases Y <;> rfl

end LazyIx
