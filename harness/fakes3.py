"""In-memory S3 look-alike on loopback with scripted per-request faults (used by C07/C08/C09).

    with FakeS3() as s3:
        s3.objects['/bucket/arr/00000_00000.npy'] = b'...'      # key = URL path
        s3.script('/bucket/arr/00000_00000.npy', [('status', 503), ('truncate', 40), ('ok',)])
        store = S3ChunkStore(s3.url, ...)
        ...
        s3.requests  -> [(method, path, query, fault_applied), ...]

Faults (consumed one per request to that path, FIFO; when the queue is empty the request is
served normally):
    ('ok',)            serve normally
    ('status', code)   answer with that HTTP status and a small text body
    ('truncate', k)    send headers with the full Content-Length, then only k body bytes, then close
    ('reset', k)       like truncate, but close with SO_LINGER 0 so the client sees a connection reset
    ('stall', secs)    send headers (and no body), sleep `secs`, then close
    ('garbage', bytes) answer 200 with the given bytes as body

Other knobs: `s3.buckets` (set of existing bucket names; listing a missing one gives 404),
`s3.require_token` (str or None: 401 unless `Authorization: Bearer <it>`), `s3.forbidden` (403 to all).
"""
import http.server
import socket
import struct
import threading
import time
import urllib.parse


class _Handler(http.server.BaseHTTPRequestHandler):
    protocol_version = 'HTTP/1.1'

    def log_message(self, *args):   # silence
        pass

    @property
    def s3(self):
        return self.server.s3

    def _send(self, code, body=b'', ctype='text/plain', extra=()):
        self.send_response(code)
        if code >= 400 and getattr(self.s3, 'bare_errors', False):
            # an error answered with a bare status line: no body, no Content-Type (a proxy in front of the store)
            body = b''
        else:
            self.send_header('Content-Type', ctype)
        self.send_header('Content-Length', str(len(body)))
        for k, v in extra:
            self.send_header(k, v)
        self.end_headers()
        if self.command != 'HEAD':
            self.wfile.write(body)

    def _auth_ok(self):
        s3 = self.s3
        if s3.forbidden:
            self._send(403, b'forbidden')
            return False
        if s3.require_token is not None:
            if self.headers.get('Authorization') != f'Bearer {s3.require_token}':
                self._send(401, b'unauthorised')
                return False
        return True

    def _next_fault(self, path):
        with self.s3.lock:
            q = self.s3.faults.get(path)
            if q:
                return q.pop(0)
            if self.s3.global_faults:
                return self.s3.global_faults.pop(0)
        return ('ok',)

    def _serve_body(self, body, fault):
        kind = fault[0]
        if kind == 'garbage':
            body = fault[1]
            kind = 'ok'
        if kind == 'ok':
            self._send(200, body, 'application/octet-stream')
            return
        if kind == 'status':
            self._send(fault[1], b'scripted fault')
            return
        # partial bodies: promise everything, deliver a prefix
        self.send_response(200)
        self.send_header('Content-Type', 'application/octet-stream')
        self.send_header('Content-Length', str(len(body)))
        self.end_headers()
        if kind in ('truncate', 'reset'):
            k = max(0, min(int(fault[1]), len(body)))
            self.wfile.write(body[:k])
            self.wfile.flush()
            if kind == 'reset':
                self.connection.setsockopt(socket.SOL_SOCKET, socket.SO_LINGER, struct.pack('ii', 1, 0))
            self.close_connection = True
            try:
                self.connection.shutdown(socket.SHUT_RDWR) if kind == 'truncate' else None
            except OSError:
                pass
            self.connection.close()
        elif kind == 'stall':
            self.wfile.flush()
            time.sleep(float(fault[1]))
            self.close_connection = True

    def do_GET(self):
        url = urllib.parse.urlsplit(self.path)
        path = urllib.parse.unquote(url.path)
        query = urllib.parse.parse_qs(url.query)
        fault = self._next_fault(path)
        self.s3.log(self.command, path, url.query, fault)
        if not self._auth_ok():
            return
        parts = path.lstrip('/').split('/', 1)
        bucket = parts[0]
        if fault[0] == 'status':
            self._send(fault[1], b'scripted fault')
            return
        if len(parts) == 1 or parts[1] == '':
            # bucket listing
            if bucket not in self.s3.buckets:
                self._send(404, b'<Error><Code>NoSuchBucket</Code></Error>', 'application/xml')
                return
            keys = sorted(k for k in self.s3.objects if k.startswith('/' + bucket + '/'))
            mk = int(query.get('max-keys', ['1000'])[0])
            body = '<?xml version="1.0"?><ListBucketResult>' + ''.join(
                f'<Contents><Key>{k[len(bucket) + 2:]}</Key></Contents>' for k in keys[:mk]) + '</ListBucketResult>'
            self._send(200, body.encode(), 'application/xml')
            return
        with self.s3.lock:
            body = self.s3.objects.get(path)
        if body is None:
            self._send(404, b'<Error><Code>NoSuchKey</Code></Error>', 'application/xml')
            return
        self._serve_body(body, fault)

    do_HEAD = do_GET

    def do_PUT(self):
        url = urllib.parse.urlsplit(self.path)
        path = urllib.parse.unquote(url.path)
        n = int(self.headers.get('Content-Length', '0'))
        data = self.rfile.read(n) if n else b''
        fault = self._next_fault(path)
        self.s3.log(self.command, path, url.query, fault)
        if not self._auth_ok():
            return
        if fault[0] == 'status':
            self._send(fault[1], b'scripted fault')
            return
        parts = path.lstrip('/').split('/', 1)
        bucket = parts[0]
        if len(parts) == 1 or parts[1] == '':
            if url.query:      # ?policy, ?lifecycle
                self._send(200)
                return
            if bucket in self.s3.buckets:
                self._send(409, b'BucketAlreadyOwnedByYou')
            else:
                self.s3.buckets.add(bucket)
                self._send(200)
            return
        if bucket not in self.s3.buckets:
            self._send(404, b'<Error><Code>NoSuchBucket</Code></Error>', 'application/xml')
            return
        with self.s3.lock:
            self.s3.objects[path] = data
        self._send(200)


class FakeS3:
    def __init__(self):
        self.objects = {}
        self.buckets = set()
        self.faults = {}
        self.global_faults = []
        self.requests = []
        self.require_token = None
        self.forbidden = False
        self.lock = threading.Lock()
        self._server = None
        self._thread = None

    def script(self, path, faults):
        with self.lock:
            self.faults[path] = list(faults)

    def log(self, method, path, query, fault):
        with self.lock:
            self.requests.append((method, path, query, fault))

    def clear_log(self):
        with self.lock:
            del self.requests[:]

    def __enter__(self):
        self._server = http.server.ThreadingHTTPServer(('127.0.0.1', 0), _Handler)
        self._server.daemon_threads = True
        self._server.s3 = self
        self.url = f'http://127.0.0.1:{self._server.server_address[1]}'
        self._thread = threading.Thread(target=self._server.serve_forever, kwargs={'poll_interval': 0.05},
                                        daemon=True)
        self._thread.start()
        return self

    def __exit__(self, *exc):
        self._server.shutdown()
        self._server.server_close()
        self._thread.join(timeout=5)
        return False
