/-
  Lemmas about `calc_correction`'s set-up phase (core Lean only): the sorted input list, the
  input1/input2 index lookup, the product loop with its dict semantics, the channel-map choice and
  the late binding of the nearest-channel table.
-/
import KatdalModel.Lemmas.ApplyCalCompose
open Np

namespace ApplyCal

variable {S F : Type}

/-! ### `sorted(set(ravel(corrprods)))` -/

theorem mem_insertSorted {x a : String} : ∀ {l : List String}, x ∈ insertSorted a l ↔ x = a ∨ x ∈ l
  | [] => by simp [insertSorted]
  | b :: t => by
    unfold insertSorted
    split
    · simp
    · split
      · rename_i h; subst h; simp
      · simp only [List.mem_cons, mem_insertSorted (l := t)]
        constructor
        · rintro (h | h | h) <;> simp [h]
        · rintro (h | h | h) <;> simp [h]

theorem mem_sortedInputs {x : String} : ∀ {cps : List (String × String)},
    x ∈ sortedInputs cps ↔ ∃ cp ∈ cps, x = cp.1 ∨ x = cp.2
  | [] => by simp [sortedInputs]
  | cp :: t => by
    have ih := mem_sortedInputs (x := x) (cps := t)
    unfold sortedInputs at ih ⊢
    simp only [List.foldr_cons, mem_insertSorted, ih, List.mem_cons, exists_eq_or_imp]
    constructor
    · rintro (h | h | h)
      · exact Or.inl (Or.inl h)
      · exact Or.inl (Or.inr h)
      · exact Or.inr h
    · rintro ((h | h) | h)
      · exact Or.inl h
      · exact Or.inr (Or.inl h)
      · exact Or.inr (Or.inr h)

/-- `inputs.index(label)` finds the label -/
theorem getElem?_idxOf {l : List String} {x : String} (h : x ∈ l) : l[l.idxOf x]? = some x := by
  have hlt : l.idxOf x < l.length := List.idxOf_lt_length_iff.mpr h
  rw [List.getElem?_eq_getElem hlt, List.getElem_idxOf hlt]

/-! ### sensor lookup -/

theorem fetchSensors_some (sensors : String → String → Option (List (List S))) (name : String) :
    ∀ (inputs : List String) (corr : List (List (List S))), fetchSensors sensors name inputs = some corr →
      corr.length = inputs.length ∧ ∀ i, i < inputs.length → corr[i]? = (inputs[i]?).bind (sensors name)
  | [], corr, h => by
    simp [fetchSensors] at h; subst h; simp
  | inp :: t, corr, h => by
    unfold fetchSensors at h
    cases hs : sensors name inp with
    | none => simp [hs] at h
    | some s =>
      cases hr : fetchSensors sensors name t with
      | none => simp [hs, hr] at h
      | some r =>
        simp [hs, hr] at h
        subst h
        obtain ⟨hl, hi⟩ := fetchSensors_some sensors name t r hr
        refine ⟨by simp [hl], ?_⟩
        intro i hi'
        cases i with
        | zero => simp [hs]
        | succ j =>
          simp only [List.length_cons] at hi'
          simpa using hi j (by omega)

/-! ### the product loop -/

section loop
variable [Sub F] [Neg F] [Zero F] [LT F] [DecidableLT F]
variable (sensors : String → String → Option (List (List S))) (inputs : List String)
  (dataFreqs : List F) (allCalFreqs : String → Option (List F)) (atol : F)

/-- what the loop body makes of one product name (`none`: missing sensor, bad name, no stream
    frequencies, empty corrections) -/
def productOf (name : String) : Option (Product S) :=
  match parseCalProduct name with
  | none => none
  | some (stream, _) =>
    match fetchSensors sensors name inputs with
    | none => none
    | some corr =>
      match allCalFreqs stream with
      | none => none
      | some calFreqs =>
        match corrNChans corr with
        | .error _ => none
        | .ok n => some { name := name, corr := corr, cmap := chooseMap atol n dataFreqs calFreqs }

theorem productOf_name {name : String} {p : Product S}
    (h : productOf sensors inputs dataFreqs allCalFreqs atol name = some p) : p.name = name := by
  unfold productOf at h
  split at h
  · simp at h
  · split at h
    · simp at h
    · split at h
      · simp at h
      · split at h
        · simp at h
        · simp at h; subst h; rfl

theorem productOf_fetch {name : String} {p : Product S}
    (h : productOf sensors inputs dataFreqs allCalFreqs atol name = some p) :
    fetchSensors sensors name inputs = some p.corr := by
  unfold productOf at h
  split at h
  · simp at h
  · split at h
    · simp at h
    · rename_i corr hc
      split at h
      · simp at h
      · split at h
        · simp at h
        · simp at h; subst h; exact hc

/-- every product in the dict is what the loop body makes of its own name -/
def LoopInv (acc : List (Product S)) (last : Option (List Nat)) : Prop :=
  (∀ p ∈ acc, productOf sensors inputs dataFreqs allCalFreqs atol p.name = some p) ∧
  (∀ e, last = some e → ∃ p ∈ acc, p.cmap = .expand e)

theorem mem_dictSet {d : List (Product S)} {p q : Product S} (h : q ∈ dictSet d p) : q = p ∨ q ∈ d := by
  unfold dictSet at h
  split at h
  · simp only [List.mem_map] at h
    obtain ⟨r, hr, rfl⟩ := h
    split
    · exact Or.inl rfl
    · exact Or.inr hr
  · simp only [List.mem_append, List.mem_singleton] at h
    rcases h with h | h
    · exact Or.inr h
    · exact Or.inl h

theorem self_mem_dictSet_of_inv {d : List (Product S)} {p : Product S}
    (hd : ∀ q ∈ d, productOf sensors inputs dataFreqs allCalFreqs atol q.name = some q)
    (hp : productOf sensors inputs dataFreqs allCalFreqs atol p.name = some p) :
    p ∈ dictSet d p ∧ ∀ q ∈ d, q ∈ dictSet d p := by
  unfold dictSet
  split
  · rename_i hany
    simp only [List.any_eq_true, beq_iff_eq] at hany
    obtain ⟨r, hr, hrn⟩ := hany
    have hrp : r = p := by
      have := hd r hr
      rw [hrn, hp] at this
      exact (Option.some.inj this).symm
    constructor
    · simp only [List.mem_map]
      exact ⟨r, hr, by simp [hrn]⟩
    · intro q hq
      simp only [List.mem_map]
      refine ⟨q, hq, ?_⟩
      split
      · rename_i hqn
        simp only [beq_iff_eq] at hqn
        have := hd q hq
        rw [hqn, hp] at this
        exact Option.some.inj this
      · rfl
  · constructor
    · simp
    · intro q hq; simp [hq]

theorem productLoop_inv (skip : Bool) : ∀ (names : List String) (acc : List (Product S)) (last : Option (List Nat))
    (r : List (Product S) × Option (List Nat)),
    LoopInv sensors inputs dataFreqs allCalFreqs atol acc last →
    productLoop sensors inputs dataFreqs allCalFreqs atol skip names acc last = .ok r →
    LoopInv sensors inputs dataFreqs allCalFreqs atol r.1 r.2
  | [], acc, last, r, hinv, h => by
    simp [productLoop] at h; subst h; exact hinv
  | name :: rest, acc, last, r, hinv, h => by
    unfold productLoop at h
    split at h
    · simp at h
    · rename_i stream ty hparse
      split at h
      · split at h
        · exact productLoop_inv skip rest acc last r hinv h
        · simp at h
      · rename_i corr hfetch
        split at h
        · simp at h
        · rename_i calFreqs hcf
          cases hn : corrNChans corr with
          | error e => simp [hn, bind, Except.bind] at h
          | ok n =>
            simp only [hn, bind, Except.bind] at h
            refine productLoop_inv skip rest _ _ r ?_ h
            have hp : productOf sensors inputs dataFreqs allCalFreqs atol name
                = some { name := name, corr := corr, cmap := chooseMap atol n dataFreqs calFreqs } := by
              simp [productOf, hparse, hfetch, hcf, hn]
            obtain ⟨hmem, hall⟩ := self_mem_dictSet_of_inv sensors inputs dataFreqs allCalFreqs atol
              (d := acc) (p := { name := name, corr := corr, cmap := chooseMap atol n dataFreqs calFreqs })
              hinv.1 hp
            constructor
            · intro q hq
              rcases mem_dictSet hq with rfl | hq
              · exact hp
              · exact hinv.1 q hq
            · intro e he
              generalize chooseMap atol n dataFreqs calFreqs = cm at he hmem hall ⊢
              cases cm with
              | expand e' =>
                simp only [Option.some.injEq] at he
                subst he
                exact ⟨_, hmem, rfl⟩
              | broadcast =>
                simp only at he
                obtain ⟨q, hq, hqe⟩ := hinv.2 e he
                exact ⟨q, hall q hq, hqe⟩
              | direct =>
                simp only at he
                obtain ⟨q, hq, hqe⟩ := hinv.2 e he
                exact ⟨q, hall q hq, hqe⟩

/-! ### late binding -/

theorem lateBind_eq_self (last : Option (List Nat)) (ps : List (Product S))
    (h : ∀ e, last = some e → ∀ p ∈ ps, ∀ e', p.cmap = .expand e' → e' = e) : lateBind last ps = ps := by
  unfold lateBind
  cases last with
  | none => rfl
  | some e =>
    simp only
    conv => rhs; rw [← List.map_id ps]
    apply List.map_congr_left
    intro p hp
    split
    · rename_i e' hc
      have := h e rfl p hp e' hc
      subst this
      cases p
      simp_all
    · rfl

theorem lateBind_name_corr (last : Option (List Nat)) (ps : List (Product S)) :
    (lateBind last ps).map (fun p => (p.name, p.corr)) = ps.map (fun p => (p.name, p.corr)) := by
  unfold lateBind
  cases last with
  | none => rfl
  | some e =>
    simp only [List.map_map]
    apply List.map_congr_left
    intro p _
    simp only [Function.comp]
    split <;> rfl

end loop

/-! ### by-label reading of the spec -/

theorem corrAt_eq_byLabel (A : CAlg S F) (sensors : String → String → Option (List (List S)))
    (inputs : List String) (p : Product S) (hf : fetchSensors sensors p.name inputs = some p.corr)
    (l : String) (hl : l ∈ inputs) (t f : Nat) :
    corrAt A p (inputs.idxOf l) t f = corrByLabel A sensors p.name p.cmap l t f := by
  obtain ⟨_, hi⟩ := fetchSensors_some sensors p.name inputs p.corr hf
  have hlt : inputs.idxOf l < inputs.length := List.idxOf_lt_length_iff.mpr hl
  have := hi _ hlt
  rw [getElem?_idxOf hl] at this
  simp only [Option.bind_some] at this
  unfold corrAt corrByLabel
  rw [this]

theorem specFactor_eq_byLabel (A : CAlg S F) (sensors : String → String → Option (List (List S)))
    (inputs : List String) (l1 l2 : String) (h1 : l1 ∈ inputs) (h2 : l2 ∈ inputs) (t f : Nat) :
    ∀ (prods : List (Product S)) (init : S),
      (∀ p ∈ prods, fetchSensors sensors p.name inputs = some p.corr) →
      prods.foldl (fun acc p => A.mul acc (A.mul (corrAt A p (inputs.idxOf l1) t f)
          (A.conj (corrAt A p (inputs.idxOf l2) t f)))) init
        = (prods.map fun p => (p.name, p.cmap)).foldl (fun acc p => A.mul acc
            (A.mul (corrByLabel A sensors p.1 p.2 l1 t f) (A.conj (corrByLabel A sensors p.1 p.2 l2 t f)))) init
  | [], _, _ => rfl
  | p :: rest, init, h => by
    simp only [List.foldl_cons, List.map_cons]
    rw [corrAt_eq_byLabel A sensors inputs p (h p (List.mem_cons_self ..)) l1 h1,
      corrAt_eq_byLabel A sensors inputs p (h p (List.mem_cons_self ..)) l2 h2]
    exact specFactor_eq_byLabel A sensors inputs l1 l2 h1 h2 t f rest _
      (fun q hq => h q (List.mem_cons_of_mem _ hq))

theorem zip_map_pair {α β γ : Type} (l : List α) (f : α → β) (g : α → γ) :
    (l.map f).zip (l.map g) = l.map (fun x => (f x, g x)) := by
  induction l with
  | nil => rfl
  | cons a t ih => simp [ih]

end ApplyCal
