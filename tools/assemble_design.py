#!/venv/bin/python
"""Assemble DESIGN.md from design.d/ (head, per-property notes in id order, tail, seeded table)."""
import json
import os

HERE = os.path.dirname(os.path.dirname(os.path.abspath(__file__)))
D = os.path.join(HERE, 'design.d')


def all_findings():
    import glob
    out = []
    for f in [os.path.join(HERE, 'known_findings.json')] + sorted(glob.glob(os.path.join(HERE, 'known_findings.d', '*.json'))):
        d = json.load(open(f))
        out += d['findings'] if isinstance(d, dict) else d
    return out


def findings_table(status):
    rows = []
    for e in sorted(all_findings(), key=lambda e: (e['property'], e['id'])):
        if e.get('status') != status:
            continue
        what = e['what']
        if what.startswith('fixed: '):
            what = what.split(' ', 3)[3] if len(what.split(' ', 3)) > 3 else what
        what = what.replace('|', '\\|').replace('\n', ' ')
        if len(what) > 330:
            what = what[:327] + '...'
        if status == 'fixed':
            rows.append(f"| {e['property']} | `{e.get('commit', '?')}` | {e['id']} | {what} |")
        else:
            rows.append(f"| {e['property']} | {e['id']} | {what} |")
    head = ('| property | /repo commit | finding | what failed |\n|---|---|---|---|\n' if status == 'fixed'
            else '| property | finding | what fails (specific input family; a narrow matcher recognises only this) |\n|---|---|---|\n')
    return head + '\n'.join(rows) + '\n'


def strengthened(prop):
    """what was added to the property's check after a seeded change slipped through (from seeded/*/meta.json)"""
    import re
    sd = os.path.join(HERE, 'seeded')
    rows = []
    for nm in sorted(os.listdir(sd)) if os.path.isdir(sd) else []:
        mp = os.path.join(sd, nm, 'meta.json')
        if not nm.startswith(prop + '-') or not os.path.exists(mp):
            continue
        m = json.load(open(mp))
        c = m.get('caught_by_check', '')
        mt = re.search(r'after (?:strengthening|the [^)]*?)[:]? ?(.*)\)\s*$', c)
        if 'after' in c:
            why = c[c.index('after'):]
            why = why[:-1] if why.endswith(')') else why
            rows.append(f'* {nm}: {why}')
    if not rows:
        return ''
    return ('\n**Added to this check after seeded changes slipped through** (section 7):\n' + '\n'.join(rows) + '\n')


def main():
    parts = [open(os.path.join(D, '00_head.md')).read()]
    for n in range(1, 21):
        p = os.path.join(D, f'C{n:02d}.md')
        if os.path.exists(p):
            text = open(p).read().strip()
            # demote headings by two levels so that they nest under section 3
            lines = []
            for ln in text.split('\n'):
                if ln.startswith('#'):
                    ln = '##' + ln
                lines.append(ln)
            parts.append('\n' + '\n'.join(lines) + '\n' + strengthened(f'C{n:02d}'))
        else:
            parts.append(f'\n### C{n:02d} — (check not built yet)\n')
    tail = open(os.path.join(D, '99_tail.md')).read()
    tail = tail.replace('@@FIXED_TABLE@@', findings_table('fixed')).replace('@@KNOWN_TABLE@@', findings_table('known'))
    parts.append(tail)
    sd = os.path.join(HERE, 'seeded')
    if os.path.isdir(sd):
        rows = []
        for nm in sorted(os.listdir(sd)):
            mp = os.path.join(sd, nm, 'meta.json')
            if os.path.exists(mp):
                m = json.load(open(mp))
                rows.append(f"| {nm} | {m['breaks_property']} | {m['needs_to_manifest']} | {m['caught_by_check']} |")
        if rows:
            parts.append('\n| seeded change | property | needs in order to manifest | caught |\n|---|---|---|---|\n'
                         + '\n'.join(rows) + '\n')
    with open(os.path.join(HERE, 'DESIGN.md'), 'w') as fh:
        fh.write(''.join(parts))
    print('DESIGN.md assembled:', sum(len(p) for p in parts), 'bytes')


if __name__ == '__main__':
    main()
