/-
  C11 lemmas, part 6: the effect of `remove` on the per-dump list.
-/
import KatdalModel.Lemmas.CatAdd
open Np

namespace Categorical

set_option linter.unusedSimpArgs false
set_option linter.unusedSectionVars false

variable {V : Type} [DecidableEq V]

/-- every entry equal to `bad` takes the value of the last entry before it that is not `bad`
    (`prev` to start with) -/
def fillPrevG {α : Type} [DecidableEq α] (bad : α) : α → List α → List α
  | _, [] => []
  | prev, x :: t => if x = bad then prev :: fillPrevG bad prev t else x :: fillPrevG bad x t

section generic
variable {α : Type} [DecidableEq α]

theorem fillPrevG_replicate_bad (bad prev : α) (n : Nat) (X : List α) :
    fillPrevG bad prev (List.replicate n bad ++ X) = List.replicate n prev ++ fillPrevG bad prev X := by
  induction n with
  | zero => simp
  | succ n ih => simp [List.replicate_succ, fillPrevG, ih]

theorem fillPrevG_replicate_good (bad y prev : α) (hy : y ≠ bad) (n : Nat) (hn : 0 < n) (X : List α) :
    fillPrevG bad prev (List.replicate n y ++ X) = List.replicate n y ++ fillPrevG bad y X := by
  induction n generalizing prev with
  | zero => omega
  | succ n ih =>
    cases n with
    | zero => simp [List.replicate_succ, fillPrevG, hy]
    | succ m =>
      have := ih y (by omega)
      simp only [List.replicate_succ, List.cons_append, fillPrevG, hy, if_false] at this ⊢
      rw [this]

theorem fillPrevG_replicate_self (bad cur : α) (n : Nat) (X : List α) (h : cur ≠ bad) :
    fillPrevG bad cur (List.replicate n cur ++ X) = List.replicate n cur ++ fillPrevG bad cur X := by
  cases n with
  | zero => simp
  | succ m => exact fillPrevG_replicate_good bad cur cur h (m + 1) (by omega) X

theorem fillPrevG_rep_self (bad cur : α) (n : Nat) (h : cur ≠ bad) :
    fillPrevG bad cur (List.replicate n cur) = List.replicate n cur := by
  have := fillPrevG_replicate_self bad cur n [] h
  simpa [fillPrevG] using this

theorem fillPrevG_rep_bad (bad prev : α) (n : Nat) :
    fillPrevG bad prev (List.replicate n bad) = List.replicate n prev := by
  have := fillPrevG_replicate_bad bad prev n []
  simpa [fillPrevG] using this

theorem fillPrevG_rep_good (bad y prev : α) (hy : y ≠ bad) (n : Nat) (hn : 0 < n) :
    fillPrevG bad prev (List.replicate n y) = List.replicate n y := by
  have := fillPrevG_replicate_good bad y prev hy n hn []
  simpa [fillPrevG] using this

/-- dropping the pairs that carry `bad` = filling the `bad` stretches with the previous value -/
theorem filter_expand (N : Nat) (bad : α) : ∀ (Q : List (α × Nat)) (a : Nat) (cur : α),
    cur ≠ bad → (Q.map (·.2)).Pairwise (· < ·) → (∀ q ∈ Q, a ≤ q.2 ∧ q.2 < N) → a ≤ N →
    expandFrom N a cur (Q.filter (fun q => decide (q.1 ≠ bad))) = fillPrevG bad cur (expandFrom N a cur Q) := by
  intro Q
  induction Q with
  | nil =>
    intro a cur hc _ _ _
    simp only [List.filter_nil, expandFrom]
    rw [fillPrevG_rep_self bad cur (N - a) hc]
  | cons p t ih =>
    intro a cur hc hs hN haN
    obtain ⟨y, d⟩ := p
    have hst : (d :: t.map (·.2)).Pairwise (· < ·) := by simpa using hs
    have hst' := List.pairwise_cons.mp hst
    have had : a ≤ d := (hN (y, d) (List.mem_cons_self ..)).1
    have hdN : d < N := (hN (y, d) (List.mem_cons_self ..)).2
    have hNt : ∀ q ∈ t, d ≤ q.2 ∧ q.2 < N := fun q hq =>
      ⟨Nat.le_of_lt (hst'.1 q.2 (List.mem_map_of_mem hq)), (hN q (List.mem_cons_of_mem _ hq)).2⟩
    have hNt' : ∀ q ∈ t, a ≤ q.2 ∧ q.2 < N := fun q hq => ⟨by have := (hNt q hq).1; omega, (hNt q hq).2⟩
    simp only [expandFrom]
    rw [fillPrevG_replicate_self bad cur (d - a) _ hc]
    by_cases hy : y = bad
    · subst hy
      simp only [List.filter_cons, ne_eq, not_true_eq_false, decide_false, Bool.false_eq_true, if_false]
      rw [ih a cur hc hst'.2 hNt' haN]
      cases t with
      | nil =>
        simp only [expandFrom]
        rw [fillPrevG_rep_self y cur (N - a) hc, fillPrevG_rep_bad y cur (N - d)]
        rw [List.replicate_append_replicate]
        congr 1; omega
      | cons q u =>
        obtain ⟨z, dz⟩ := q
        have hddz : d < dz := hst'.1 dz (by simp)
        simp only [expandFrom]
        rw [fillPrevG_replicate_self y cur (dz - a) _ hc]
        rw [fillPrevG_replicate_bad y cur (dz - d) _]
        rw [← List.append_assoc, List.replicate_append_replicate]
        congr 2; omega
    · have hyd : decide (y ≠ bad) = true := by simpa using hy
      simp only [List.filter_cons, hyd, if_true, expandFrom]
      rw [ih d y hy hst'.2 hNt (Nat.le_of_lt hdN)]
      cases t with
      | nil =>
        simp only [expandFrom]
        rw [fillPrevG_rep_good bad y cur hy (N - d) (by omega), fillPrevG_rep_good bad y y hy (N - d) (by omega)]
      | cons q u =>
        obtain ⟨z, dz⟩ := q
        have hddz : d < dz := hst'.1 dz (by simp)
        simp only [expandFrom]
        rw [fillPrevG_replicate_good bad y cur hy (dz - d) (by omega) _]
        rw [fillPrevG_replicate_good bad y y hy (dz - d) (by omega) _]

theorem fillPrevG_not_bad (bad : α) : ∀ (l : List α) (prev : α), prev ≠ bad → ∀ x ∈ fillPrevG bad prev l, x ≠ bad := by
  intro l
  induction l with
  | nil => intro prev _ x hx; simp [fillPrevG] at hx
  | cons a t ih =>
    intro prev hp x hx
    simp only [fillPrevG] at hx
    split at hx
    · rcases List.mem_cons.mp hx with rfl | hx
      · exact hp
      · exact ih prev hp x hx
    · rename_i ha
      rcases List.mem_cons.mp hx with rfl | hx
      · exact ha
      · exact ih a ha x hx

theorem fillPrevG_mem (bad : α) : ∀ (l : List α) (prev : α), ∀ x ∈ fillPrevG bad prev l, x = prev ∨ x ∈ l := by
  intro l
  induction l with
  | nil => intro prev x hx; simp [fillPrevG] at hx
  | cons a t ih =>
    intro prev x hx
    simp only [fillPrevG] at hx
    split at hx
    · rcases List.mem_cons.mp hx with rfl | hx
      · exact Or.inl rfl
      · rcases ih prev x hx with h | h
        · exact Or.inl h
        · exact Or.inr (List.mem_cons_of_mem _ h)
    · rcases List.mem_cons.mp hx with rfl | hx
      · exact Or.inr (List.mem_cons_self ..)
      · rcases ih a x hx with h | h
        · subst h; exact Or.inr (List.mem_cons_self ..)
        · exact Or.inr (List.mem_cons_of_mem _ h)

/-- filling commutes with a map that separates `bad` from everything else in the list -/
theorem fillPrevG_map {β : Type} [DecidableEq β] (g : α → β) (bad : α) : ∀ (l : List α) (prev : α),
    (∀ x ∈ l, g x = g bad → x = bad) →
    (fillPrevG bad prev l).map g = fillPrevG (g bad) (g prev) (l.map g) := by
  intro l
  induction l with
  | nil => intro prev _; rfl
  | cons a t ih =>
    intro prev h
    have ht : ∀ x ∈ t, g x = g bad → x = bad := fun x hx => h x (List.mem_cons_of_mem _ hx)
    simp only [fillPrevG, List.map_cons]
    by_cases ha : a = bad
    · subst ha
      simp only [if_true, List.map_cons, ih prev ht]
    · have hga : ¬ g a = g bad := fun hh => ha (h a (List.mem_cons_self ..) hh)
      simp only [ha, hga, if_false, List.map_cons, ih a ht]

end generic

/-! ### the mirror -/

theorem maskSelect_map {α β : Type} (f : α → β) (g : α → Bool) : ∀ (P : List α),
    maskSelect (P.map f) (P.map g) = (P.filter g).map f := by
  intro P
  induction P with
  | nil => rfl
  | cons q t ih =>
    cases hq : g q <;> simp only [List.map_cons, maskSelect, hq, List.filter_cons, Bool.false_eq_true, if_false,
      if_true, ih]

theorem fillPrevG_id {α : Type} [DecidableEq α] (bad : α) : ∀ (l : List α) (prev : α), bad ∉ l → fillPrevG bad prev l = l := by
  intro l
  induction l with
  | nil => intro prev _; rfl
  | cons a t ih =>
    intro prev h
    have ha : a ≠ bad := fun hh => h (hh ▸ List.mem_cons_self ..)
    simp only [fillPrevG, ha, if_false]
    rw [ih a (fun hh => h (List.mem_cons_of_mem _ hh))]

theorem expand_mem {α : Type} : ∀ (ev : List Nat) (vals : List α) (x : α), x ∈ expand ev vals → x ∈ vals := by
  intro ev
  induction ev with
  | nil => intro vals x h; simp [expand] at h
  | cons a t ih =>
    intro vals x h
    cases t with
    | nil => simp [expand] at h
    | cons b u =>
      cases vals with
      | nil => simp [expand] at h
      | cons v vs =>
        simp only [expand, List.mem_append, List.mem_replicate] at h
        rcases h with h | h
        · rw [h.2]; exact List.mem_cons_self ..
        · exact List.mem_cons_of_mem _ (ih vs x h)

/-- **remove(value)**: every dump that carried `value` takes the value of the last earlier dump
    that did not (nothing if there is none); all other dumps keep their value. -/
theorem remove_perDump (c : Cat V) (h : c.WF) (v : V) (c' : Cat V) (hrem : c.remove v = .ok c') :
    c'.perDump = fillPrevG (some v) none c.perDump := by
  obtain ⟨hwf', hN', _⟩ := remove_wf c h v c' hrem
  simp only [Cat.remove] at hrem
  cases hio : indexOf? c.uniq v with
  | none =>
    simp only [hio, pure, Except.pure, Except.ok.injEq] at hrem
    subst hrem
    have hnm := indexOf?_none c.uniq v hio
    rw [fillPrevG_id]
    intro hmem
    simp only [Cat.perDump, List.mem_append, List.mem_replicate] at hmem
    rcases hmem with hmem | hmem
    · simp at hmem
    · have := expand_mem _ _ _ hmem
      simp only [Cat.values, List.mem_map] at this
      obtain ⟨i, _, hi⟩ := this
      exact hnm (List.mem_of_getElem? hi)
  | some k =>
    obtain ⟨hk, hkv⟩ := indexOf?_some c.uniq v k hio
    have hlen := h.2.1
    have hne : c.ev ≠ [] := by intro h0; rw [h0] at hlen; simp at hlen
    simp only [hio, hlen, ne_eq, not_true_eq_false, if_false, pure, Except.pure, Except.ok.injEq] at hrem
    subst hrem
    have hstrict := strictInc_pairwise _ h.1
    have hevS : c.ev = c.ev.dropLast ++ [c.numDumps] := by
      simp only [Cat.numDumps]
      rw [List.getLastD_eq_getLast?, List.getLast?_eq_some_getLast hne]
      exact (List.dropLast_concat_getLast hne).symm
    obtain ⟨S, hS⟩ : ∃ S, S = c.ev.dropLast := ⟨_, rfl⟩
    rw [← hS] at hevS hwf' hN' ⊢
    have hSlen : S.length = c.idx.length := by rw [hS]; simp; omega
    have hSstrict : S.Pairwise (· < ·) := by
      rw [hevS] at hstrict; exact (List.pairwise_append.mp hstrict).1
    have hSN : ∀ x ∈ S, x < c.numDumps := by
      intro x hx; rw [hevS] at hstrict
      exact (List.pairwise_append.mp hstrict).2.2 x hx _ (by simp)
    obtain ⟨P, hP⟩ : ∃ P, P = List.zip c.idx S := ⟨_, rfl⟩
    have hPfst : P.map (·.1) = c.idx := by rw [hP, List.map_fst_zip (by omega)]
    have hPsnd : P.map (·.2) = S := by rw [hP, List.map_snd_zip (by omega)]
    obtain ⟨Q, hQ⟩ : ∃ Q : List (Option Nat × Nat), Q = P.map (fun q => (some q.1, q.2)) := ⟨_, rfl⟩
    have hQsnd : Q.map (·.2) = S := by rw [hQ, List.map_map]; exact hPsnd
    have hQzip : Q = List.zip (c.idx.map some) S := by
      rw [hQ, ← hPfst, ← hPsnd, List.map_map, List.zip_map']
      rfl
    have hXF : c.perDumpIdx = expandFrom c.numDumps 0 none Q := by
      rw [perDumpIdx_pairs c hlen, hQzip, hS]
    -- pairs of the result
    let g : Nat × Nat → Bool := fun q => decide (q.1 ≠ k)
    let remap : Nat → Nat := fun i => if k ≤ i then i - 1 else i
    have hkeep : c.idx.map (fun i => decide (i ≠ k)) = P.map g := by
      rw [← hPfst, List.map_map]; rfl
    have hidx' : (maskSelect c.idx (c.idx.map (fun i => decide (i ≠ k)))).map (fun i => if k ≤ i then i - 1 else i) =
        ((P.filter g).map (·.1)).map remap := by
      rw [hkeep]
      conv => lhs; rw [← hPfst]
      rw [maskSelect_map]
    have hev' : maskSelect S (c.idx.map (fun i => decide (i ≠ k))) = (P.filter g).map (·.2) := by
      rw [hkeep]
      conv => lhs; rw [← hPsnd]
      rw [maskSelect_map]
    have hQ' : List.zip ((((P.filter g).map (·.1)).map remap).map some) ((P.filter g).map (·.2)) =
        (Q.filter (fun q => decide (q.1 ≠ some k))).map (fun q => (q.1.map remap, q.2)) := by
      rw [hQ, List.filter_map, List.map_map, List.map_map, List.map_map, List.zip_map']
      congr 1
      apply List.filter_congr
      intro q _
      simp [g, Function.comp]
    have hrec : Cat.mk (c.uniq.eraseIdx k)
        ((maskSelect c.idx (c.idx.map (fun i => decide (i ≠ k)))).map (fun i => if k ≤ i then i - 1 else i))
        (maskSelect S (c.idx.map (fun i => decide (i ≠ k))) ++ [c.ev.getLastD 0]) =
        Cat.mk (c.uniq.eraseIdx k) (((P.filter g).map (·.1)).map remap) ((P.filter g).map (·.2) ++ [c.numDumps]) := by
      rw [hidx', hev']; rfl
    rw [hrec] at hwf' hN' ⊢
    have hpd' : (Cat.mk (c.uniq.eraseIdx k) (((P.filter g).map (·.1)).map remap)
        ((P.filter g).map (·.2) ++ [c.numDumps])).perDumpIdx =
        (fillPrevG (some k) none (expandFrom c.numDumps 0 none Q)).map (fun o => o.map remap) := by
      rw [perDumpIdx_pairs _ hwf'.2.1, hN']
      simp only [List.dropLast_concat]
      rw [hQ']
      rw [← filter_expand c.numDumps (some k) Q 0 none (by simp) (by rw [hQsnd]; exact hSstrict)
        (fun q hq => ⟨Nat.zero_le _, hSN q.2 (by rw [← hQsnd]; exact List.mem_map_of_mem hq)⟩) (Nat.zero_le _)]
      rw [expandFrom_map]
      rfl
    rw [perDump_eq_idx, hpd', perDump_eq_idx c, hXF]
    simp only [List.map_map]
    -- values: compare both sides on the filled list
    have hsep : ∀ x ∈ expandFrom c.numDumps 0 none Q,
        (x.bind fun i => c.uniq[i]?) = ((some k : Option Nat).bind fun i => c.uniq[i]?) → x = some k := by
      intro x hx hval
      simp only [Option.bind_some, hkv] at hval
      rcases mem_expandFrom _ Q 0 none x hx with rfl | hm
      · simp at hval
      · rw [hQzip, List.map_fst_zip (by simp; omega)] at hm
        simp only [List.mem_map] at hm
        obtain ⟨i, hi, rfl⟩ := hm
        simp only [Option.bind_some] at hval
        have := nodup_getElem?_inj c.uniq h.2.2.2 i k v hval hkv
        rw [this]
    have hmapfill := fillPrevG_map (fun (o : Option Nat) => o.bind fun i => c.uniq[i]?) (some k)
      (expandFrom c.numDumps 0 none Q) none hsep
    simp only [Option.bind_some, hkv, Option.bind_none] at hmapfill
    rw [← hmapfill]
    apply List.map_congr_left
    intro x hx
    have hxk : x ≠ some k := fillPrevG_not_bad (some k) _ none (by simp) x hx
    cases x with
    | none => rfl
    | some i =>
      have hik : i ≠ k := fun hh => hxk (by rw [hh])
      simp only [Function.comp, Option.map_some, Option.bind_some, remap]
      rw [List.getElem?_eraseIdx]
      by_cases hki : k ≤ i
      · have : ¬ (i - 1 < k) := by omega
        simp only [hki, if_true, this, if_false]
        congr 1; omega
      · have : i < k := by omega
        simp only [hki, if_false, this, if_true]

end Categorical
