/-
  Strictly increasing lists: conversions between the Bool test used by the model and
  `List.Pairwise`, and the strictness of slices / nonzero / picked sub-lists.
-/
import KatdalModel.Lemmas.AxisSelect
open Np Index LazyIx

namespace LazyIx

theorem strictInc_iff_pairwise : ∀ (l : List Int), strictInc l = true ↔ l.Pairwise (· < ·) := by
  intro l
  induction l with
  | nil => simp [strictInc]
  | cons a t ih =>
    cases t with
    | nil => simp [strictInc]
    | cons b t' =>
      simp only [strictInc, Bool.and_eq_true, decide_eq_true_eq]
      rw [ih]
      constructor
      · rintro ⟨hab, hp⟩
        refine List.pairwise_cons.mpr ⟨?_, hp⟩
        intro x hx
        simp only [List.mem_cons] at hx
        rcases hx with rfl | hx
        · exact hab
        · have := (List.pairwise_cons.mp hp).1 x hx; omega
      · intro hp
        obtain ⟨h1, h2⟩ := List.pairwise_cons.mp hp
        exact ⟨h1 b (by simp), h2⟩

theorem rangeAux_pairwise (st : Int) (hst : 0 < st) : ∀ (k : Nat) (x : Int),
    (rangeAux st k x).Pairwise (· < ·) ∧ ∀ y ∈ rangeAux st k x, x ≤ y := by
  intro k
  induction k with
  | zero => intro x; simp [rangeAux]
  | succ k ih =>
    intro x
    obtain ⟨hp, hge⟩ := ih (x + st)
    simp only [rangeAux]
    refine ⟨List.pairwise_cons.mpr ⟨fun y hy => by have := hge y hy; omega, hp⟩, ?_⟩
    intro y hy
    simp only [List.mem_cons] at hy
    rcases hy with rfl | hy
    · omega
    · have := hge y hy; omega

theorem rangeList_pos_pairwise (s e st : Int) (hst : 0 < st) : (rangeList s e st).Pairwise (· < ·) :=
  (rangeAux_pairwise st hst _ s).1

/-- positions selected by a positive-step slice: strictly increasing and inside the axis -/
theorem sliceList_pos_spec {m : Nat} {a b c : Option Int} {ps : List Int}
    (h : sliceList m a b c = some ps) (hc : c.getD 1 > 0) :
    ps.Pairwise (· < ·) ∧ ∀ x ∈ ps, 0 ≤ x ∧ x < m := by
  refine ⟨?_, sliceList_bounds h⟩
  unfold sliceList at h
  cases hi : sliceIndices m a b c with
  | none => simp [hi] at h
  | some t =>
    obtain ⟨s, e, st⟩ := t
    simp [hi] at h
    subst h
    have hst : st = c.getD 1 := by
      unfold sliceIndices at hi
      simp only at hi
      split at hi
      · simp at hi
      · simp only [Option.some.injEq, Prod.mk.injEq] at hi; exact hi.2.2.symm
    exact rangeList_pos_pairwise s e st (by omega)

theorem nonzeroFrom_pairwise : ∀ (m : List Bool) (k : Nat),
    (nonzeroFrom k m).Pairwise (· < ·) ∧ ∀ x ∈ nonzeroFrom k m, k ≤ x ∧ x < k + m.length := by
  intro m
  induction m with
  | nil => intro k; simp [nonzeroFrom]
  | cons b t ih =>
    intro k
    obtain ⟨hp, hb⟩ := ih (k + 1)
    cases b with
    | true =>
      simp only [nonzeroFrom]
      refine ⟨List.pairwise_cons.mpr ⟨fun y hy => by have := hb y hy; omega, hp⟩, ?_⟩
      intro x hx
      simp only [List.mem_cons] at hx
      rcases hx with rfl | hx
      · simp only [List.length_cons]; omega
      · have := hb x hx; simp only [List.length_cons]; omega
    | false =>
      simp only [nonzeroFrom]
      exact ⟨hp, fun x hx => by have := hb x hx; simp only [List.length_cons]; omega⟩

theorem nonzero_spec (m : List Bool) :
    (nonzero m).Pairwise (· < ·) ∧ ∀ x ∈ nonzero m, x < m.length := by
  obtain ⟨hp, hb⟩ := nonzeroFrom_pairwise m 0
  exact ⟨hp, fun x hx => by have := hb x hx; omega⟩

theorem getNat_lt {α} (L : List α) (p : Nat) (h : p < L.length) : getNat L p = .ok L[p] := by
  unfold getNat
  rw [List.getElem?_eq_getElem h]

/-- picking strictly increasing positions from a strictly increasing list -/
theorem pick_strict (L : List Int) (hL : L.Pairwise (· < ·)) : ∀ (ps : List Nat),
    ps.Pairwise (· < ·) → (∀ p ∈ ps, p < L.length) →
    ∃ vs, ps.mapM (getNat L) = .ok vs ∧ vs.Pairwise (· < ·) ∧
      (∀ v ∈ vs, ∃ q, q ∈ ps ∧ L[q]? = some v) ∧
      ps.mapM (getNat (L.map Int.toNat)) = .ok (vs.map Int.toNat) := by
  intro ps
  induction ps with
  | nil => intro _ _; exact ⟨[], rfl, List.Pairwise.nil, by simp, rfl⟩
  | cons p ps' ih =>
    intro hp hb
    obtain ⟨hp1, hp2⟩ := List.pairwise_cons.mp hp
    have hpl : p < L.length := hb p (List.mem_cons_self ..)
    obtain ⟨vs', h1, h2, h3, h4⟩ := ih hp2 (fun q hq => hb q (List.mem_cons_of_mem _ hq))
    refine ⟨L[p] :: vs', ?_, ?_, ?_, ?_⟩
    · rw [List.mapM_cons, getNat_lt L p hpl, h1]; rfl
    · refine List.pairwise_cons.mpr ⟨?_, h2⟩
      intro v hv
      obtain ⟨q, hq, hqv⟩ := h3 v hv
      have hpq : p < q := hp1 q hq
      have hql : q < L.length := hb q (List.mem_cons_of_mem _ hq)
      have := (List.pairwise_iff_getElem.mp hL) p q hpl hql hpq
      rw [List.getElem?_eq_getElem hql] at hqv
      simp only [Option.some.injEq] at hqv
      omega
    · intro v hv
      simp only [List.mem_cons] at hv
      rcases hv with rfl | hv
      · exact ⟨p, List.mem_cons_self .., List.getElem?_eq_getElem hpl⟩
      · obtain ⟨q, hq, hqv⟩ := h3 v hv
        exact ⟨q, List.mem_cons_of_mem _ hq, hqv⟩
    · have hpl' : p < (L.map Int.toNat).length := by simpa using hpl
      rw [List.mapM_cons, getNat_lt _ p hpl', h4]
      simp
      rfl

end LazyIx
