#!/venv/bin/python
"""Hand-written single-line mutants of the anchored code, run against the quick checks through a
scratch worktree on PYTHONPATH (never touching /repo).  Usage: tools/mutants.py [filter]
Prints one line per mutant: caught / MISSED by which checks."""
import os
import subprocess
import sys

WT = '/tmp/scratch_mutants'
M = [
    # (id, file, old, new, checks)
    ('sel-time-and', 'katdal/dataset.py', "                self._time_keep &= (self.sensor.timestamps[:] >= start_time)", "                self._time_keep &= (self.sensor.timestamps[:] > start_time)", ['C02']),
    ('sel-freq-halfwidth', 'katdal/dataset.py', "                start_freq = v[0] + 0.5 * self.spectral_windows[self.spw].channel_width", "                start_freq = v[0]", ['C02']),
    ('sel-tilde', 'katdal/dataset.py', "                        scan_keep |= ~(scan_sensor == scan[1:])", "                        scan_keep |= (scan_sensor == scan[1:])", ['C02']),
    ('sel-ants-or', 'katdal/dataset.py', "                    self._corrprod_keep &= [(inpA[:-1] in ant_names and inpB[:-1] in ant_names)", "                    self._corrprod_keep &= [(inpA[:-1] in ant_names or inpB[:-1] in ant_names)", ['C02']),
    ('sel-auto-reset-freq', 'katdal/dataset.py', "            reset += 'F' if set(kwargs.keys()).intersection(freq_selectors) else ''", "            reset += 'F' if set(kwargs.keys()).intersection(corrprod_selectors) else ''", ['C02']),
    ('sel-pop-keys', 'katdal/dataset.py', "            for key in freq_selectors:\n                self._selection.pop(key, None)", "            for key in freq_selectors:\n                pass", ['C02']),
    ('sel-pol-double', 'katdal/dataset.py', "                        polAB = polAB * 2 if polAB in ('h', 'v') else polAB", "                        polAB = polAB * 2 if polAB in ('h',) else polAB + polAB[-1:]", ['C02']),
    ('sel-cross', 'katdal/dataset.py', "                    self._corrprod_keep &= [(inpA[:-1] != inpB[:-1])", "                    self._corrprod_keep &= [(inpA != inpB)", ['C02']),
    ('sel-targets-set', 'katdal/dataset.py', "                for target_index in set(target_indices):", "                for target_index in set(target_indices[:1]):", ['C02']),
    ('scans-restore-reset', 'katdal/dataset.py', "        preselection['reset'] = 'T'\n        old_timekeep = self._time_keep.copy()\n        state_data", "        preselection['reset'] = ''\n        old_timekeep = self._time_keep.copy()\n        state_data", ['C03']),
    ('scans-pop', 'katdal/dataset.py', "            self._selection.pop('scans', None)", "            pass", ['C03']),
    ('compscans-oldkeep', 'katdal/dataset.py', "            self._set_keep(old_timekeep.copy())\n            self._selection.pop('compscans', None)", "            self._selection.pop('compscans', None)", ['C03']),
    ('r2s-stop', 'katdal/lazy_indexer.py', "    stop = index[-1] + step", "    stop = index[-1] + 1", ['C04']),
    ('r2s-none', 'katdal/lazy_indexer.py', "    return slice(start, stop if stop >= 0 else None, step)", "    return slice(start, stop, step)", ['C04']),
    ('dli-transform-order', 'katdal/lazy_indexer.py', "                for transform in self.transforms:\n                    dataset = transform(dataset)", "                for transform in reversed(self.transforms):\n                    dataset = transform(dataset)", ['C04']),
    ('dask-oindex-axis', 'katdal/lazy_indexer.py', "        if not isinstance(index, Integral):\n            axis += 1", "        axis += 1", ['C04']),
    ('li-threshold', 'katdal/lazy_indexer.py', "                if len(dim_keep) > 0.2 * dim_len and len(segments) > 1:", "                if len(dim_keep) > 0.2 * dim_len:", ['C05']),
    ('li-postselect', 'katdal/lazy_indexer.py', "                                       dim_keep - dim_keep[0], slice(0, len(dim_keep), 1))])", "                                       dim_keep - dim_keep[0] + 1, slice(0, len(dim_keep), 1))])", ['C05', 'C01']),
    ('li-lookup-all', 'katdal/lazy_indexer.py', "                    dim_keep = np.nonzero(dim_keep)[0] if not dim_keep.all() else None", "                    dim_keep = np.nonzero(dim_keep)[0] if not dim_keep.any() else None", ['C05', 'C01']),
    ('li-jumps', 'katdal/lazy_indexer.py', "                jumps = np.nonzero(np.diff(dim_keep) > 1)[0]", "                jumps = np.nonzero(np.diff(dim_keep) > 2)[0]", ['C05']),
    ('cat-scalar-neg', 'katdal/concatdata.py', "            keep_head = len(self) + keep_head if keep_head < 0 else keep_head", "            keep_head = len(self) + keep_head - 1 if keep_head < 0 else keep_head", ['C05', 'C19']),
    ('cat-mask-stop', 'katdal/concatdata.py', "                    chunk_stop = indexer_starts[ind + 1] if ind < len(indexer_starts) - 1 else len(self)", "                    chunk_stop = indexer_starts[ind + 1] if ind < len(indexer_starts) - 2 else len(self)", ['C05', 'C19']),
    ('cat-sort', 'katdal/concatdata.py', "        decorated_datasets.sort()", "        pass", ['C19']),
    ('cat-scan-offset', 'katdal/concatdata.py', "            scan_start += len(scan_index.unique_values)", "            scan_start += len(scan_index.unique_values) - 1", ['C19']),
    ('cat-period', 'katdal/concatdata.py', "        if len(dump_periods) > 1:", "        if len(dump_periods) > 2:", ['C19']),
    ('vfw-lost-skip', 'katdal/vis_flags_weights.py', "            flags[slices] |= DATA_LOST", "            flags[slices] = DATA_LOST", ['C06']),
    ('vfw-placeholder', 'katdal/vis_flags_weights.py', "            errors = DATA_LOST if array == 'flags' else 'placeholder'", "            errors = 0 if array == 'flags' else 'placeholder'", ['C06']),
    ('align-phantom', 'katdal/datasources.py', "            time_chunks = info['chunks'][0] + (max_dumps - n_dumps) * (1,)", "            time_chunks = info['chunks'][0] + (max_dumps - n_dumps,)", ['C06']),
    ('prune-le', 'katdal/chunkstore.py', "        while start_chunk < len(chunks[axis]) and chunks[axis][start_chunk] <= start:", "        while start_chunk < len(chunks[axis]) and chunks[axis][start_chunk] < start:", ['C06']),
    ('v3-dup-pad', 'katdal/h5datav3.py', "        if len(time_keep) == len(dataset) - 1:", "        if len(time_keep) == len(dataset) + 1:", ['C01']),
    ('v3-conj', 'katdal/h5datav3.py', "        if self.spectral_windows[self.spw].sideband == 1:\n            # Discard", "        if self.spectral_windows[self.spw].sideband != 0:\n            # Discard", ['C01']),
    ('v4-stage1-order', 'katdal/visdatav4.py', "        stage1 = (self._time_keep, self._freq_keep, self._corrprod_keep)", "        stage1 = (self._time_keep, self._freq_keep, self._corrprod_keep.copy()[::-1].copy()[::-1] | (self._corrprod_keep[::-1] & False))", ['C01']),
    ('v2-timestamps-half', 'katdal/h5datav2.py', "0.5 * self.dump_period", "0.25 * self.dump_period", ['C01']),
]


def sh(cmd, **kw):
    return subprocess.run(cmd, shell=True, stdout=subprocess.PIPE, stderr=subprocess.STDOUT, text=True, **kw)


def main():
    flt = sys.argv[1] if len(sys.argv) > 1 else ''
    sh(f'git -C /repo worktree remove --force {WT}')
    sh(f'git -C /repo worktree add --detach {WT} HEAD')
    os.chdir('/verif')
    caught = missed = skipped = 0
    try:
        for mid, f, old, new, checks in M:
            if flt and flt not in mid and flt not in ''.join(checks):
                continue
            path = os.path.join(WT, f)
            src = open(path).read()
            if src.count(old) < 1:
                print(f'{mid}: SKIP (pattern not found)')
                skipped += 1
                continue
            open(path, 'w').write(src.replace(old, new, 1))
            res = []
            for c in checks:
                r = sh(f'PYTHONPATH={WT} timeout 900 ./check {c} quick')
                hit = 'VIOLATION' in r.stdout
                broken = 'CHECK-BROKEN' in r.stdout
                res.append(f"{c}:{'caught' if hit else ('BROKEN' if broken else 'MISSED')}")
            open(path, 'w').write(src)
            ok = any('caught' in x for x in res)
            caught += ok
            missed += not ok
            print(f"{mid}: {' '.join(res)}", flush=True)
    finally:
        sh(f'git -C /repo worktree remove --force {WT}')
    print(f'mutants: caught {caught}, missed {missed}, skipped {skipped}')


if __name__ == '__main__':
    main()
