import KatdalModel.Model.ApplyCal
namespace C13
theorem placeholder : True := trivial
end C13
