#!/venv/bin/python
"""Archive the confirmed seeded changes of the seventh round under seeded/<id>/ (see archive_round2.py)."""
import sys, os
sys.path.insert(0, os.path.dirname(os.path.abspath(__file__)))
import archive_round2 as a

S = 'yes (after strengthening: %s)'
P = 'partly (not by %s; by %s)'
R = '/tmp/mut7/'
T = [
 (R + 'C01/1', 'C01-18', 'C01', S % 'the recorded v1 snapshot finding narrowed to later calls that narrow the product mask in place (explicit reset without B)', 'a v1 file, an indexer taken, then a select() that resets the product dimension', 'VIOLATION'),
 (R + 'C01/2', 'C01-19', 'C01', S % 'the shape invariant right after a refused select(spw=number of windows)', 'select(spw=N) with N equal to the number of spectral windows', 'VIOLATION'),
 (R + 'C01/3', 'C01-20', 'C01', S % 'v2 files with weather ramps, reopened with a time offset of one dump period', 'a v2 file opened with a non-zero time_offset and a sensor first read after opening', 'VIOLATION'),
 (R + 'C02/1', 'C02-18', 'C02', 'yes', 'corrprods given as string pairs on a subarray where another product shares one input position', 'VIOLATION'),
 (R + 'C02/2', 'C02-19', 'C02', P % ('C02, whose dimensions are time, frequency and product', 'C16, which owns the flag selection'), "select(flags='') or another empty flags value", 'C02 exit 0; C16 VIOLATION'),
 (R + 'C02/3', 'C02-20', 'C02', 'yes', 'a product criterion that removes an input, then select(inputs=...) naming it', 'VIOLATION'),
 (R + 'C03/1', 'C03-18', 'C03', P % ('C03, which iterates single data sets', 'C19, which owns the compscan numbering across parts'), 'two or more parts concatenated, then compscans()', 'C03 exit 0; C19 VIOLATION'),
 (R + 'C03/2', 'C03-19', 'C03', P % ('C03', 'C11 and C19, which own partition() and the re-partitioned target sensor'), 'a later part that starts on the target the previous one ended on and changes target later', 'C03 exit 0; C11 and C19 VIOLATION'),
 (R + 'C03/3', 'C03-20', 'C03', 'yes', 'a v4 observation with exactly one distinct label plus blank labels after it', 'VIOLATION'),
 (R + 'C04/1', 'C04-18', 'C04', 'yes', 'the same dask array twice in one joint fetch with a second-stage index that selects everything', 'VIOLATION'),
 (R + 'C04/2', 'C04-19', 'C04', P % ('C04, whose store-backed arrays have at least one axis', 'C07, whose read-set comparison covers zero-dimensional arrays'), 'a zero-dimensional store-backed array', 'C04 exit 0; C07 VIOLATION'),
 (R + 'C04/3', 'C04-20', 'C04', S % "the caller's transform list extended after construction in the mutation cases", "the caller's transforms list changed between construction and first use", 'VIOLATION'),
 (R + 'C05/1', 'C05-18', 'C05', 'yes', 'a first stage not starting at row 0, a second-stage slice, the dense read strategy, then a second request', 'VIOLATION'),
 (R + 'C05/2', 'C05-19', 'C05', S % "concatenated indexers with their own transform chain (also caught by C01 through the v1 reader)", 'a concatenation with its own transforms and an integer head index', 'VIOLATION'),
 (R + 'C05/3', 'C05-20', 'C05', S % 'requests numpy refuses because an integer lies outside the axis must be refused', 'a sequence whose final run is exactly [n-1, n] on an axis without first stage', 'VIOLATION'),
 (R + 'C06/1', 'C06-18', 'C06', S % 'an attached flags stream whose whole prefix directory is absent from the NPY store', 'the NPY back-end and a prefix directory that was never copied', 'VIOLATION'),
 (R + 'C06/2', 'C06-19', 'C06', P % ('C06, which loads one store per computation', 'C07, which reads equally named arrays of two stores in one graph'), 'two stores holding equally named arrays evaluated in one dask computation', 'C06 exit 0; C07 VIOLATION'),
 (R + 'C06/3', 'C06-20', 'C06', 'yes', 'three distinct dump counts among the arrays', 'VIOLATION'),
 (R + 'C07/1', 'C07-17', 'C07', 'yes', 'unequal leading chunks and a slice starting at or behind the end of the second chunk', 'VIOLATION'),
 (R + 'C07/2', 'C07-18', 'C07', S % 'mark_complete as the very first operation on a fresh bucket / directory', 'mark_complete on a bucket nobody has created yet', 'VIOLATION'),
 (R + 'C07/3', 'C07-19', 'C07', S % 'one dask array put to two array names sharing their last component in one computation', 'the same dask array written to two names with the same last component in one dask.compute', 'VIOLATION'),
 (R + 'C08/1', 'C08-18', 'C08', 'yes', 'one store object serving two buckets, a 404 in the good bucket first, then the missing bucket', 'VIOLATION'),
 (R + 'C08/2', 'C08-19', 'C08', 'yes', 'a chunk of the promised shape whose dtype differs only in byte order, time unit or string length', 'VIOLATION'),
 (R + 'C08/3', 'C08-20', 'C08', S % 'an injected close(2) failure of the direct-write descriptor must fail the put', 'direct_write=True and an OS failure exactly at os.close', 'VIOLATION'),
 (R + 'C09/1', 'C09-18', 'C09', S % "the empty string as token (also caught through C18's sibling run of C09)", "token=''", 'VIOLATION'),
 (R + 'C09/2', 'C09-19', 'C09', 'yes', 'budget+1 transient faults on a chunk and a bucket listing that reports an empty or missing bucket', 'VIOLATION'),
 (R + 'C09/3', 'C09-20', 'C09', S % 'the default configuration as a pinned budget (read 2, status 5, joint 10) with directed mixed words', 'integer retries and one request mixing body faults and 5xx faults, six or more in total', 'VIOLATION'),
 (R + 'C10/1', 'C10-18', 'C10', S % 'the same raw events converted a second time', 'a wrapped sensor, a non-idempotent transform and the same raw events converted twice', 'VIOLATION'),
 (R + 'C10/2', 'C10-19', 'C10', 'yes', 'a greedy value winning the last dump whose final event is non-greedy', 'VIOLATION'),
 (R + 'C10/3', 'C10-20', 'C10', P % ('C10, whose cache cases use fully matching names', 'C12, which owns the routing of sensor properties'), 'a wildcard property key and a sensor name that only starts like it', 'C10 exit 0; C12 VIOLATION'),
 (R + 'C11/1', 'C11-18', 'C11', S % 'values handed over as one float array containing NaN (also caught by C12)', 'the constructor given a float ndarray with at least one NaN', 'VIOLATION'),
 (R + 'C11/2', 'C11-19', 'C11', 'yes', 'two or more parts concatenated and the parts inspected or concatenated again', 'VIOLATION'),
 (R + 'C11/3', 'C11-20', 'C11', 'yes', 'a slice key with a stop of 0, negative bounds, bounds beyond the dumps or a negative step', 'VIOLATION'),
 (R + 'C12/1', 'C12-18', 'C12', S % 'sensors fetched on demand from a sensor-store look-alike whose pattern search returns foreign records', 'a cache with store= set and another sensor whose name contains the requested one', 'VIOLATION'),
 (R + 'C12/2', 'C12-19', 'C12', 'yes', 'an antenna offset from the array reference position and lst compared per antenna', 'VIOLATION'),
 (R + 'C12/3', 'C12-20', 'C12', 'yes', 'duplicate timestamps with mixed statuses, the last one unreadable', 'VIOLATION'),
 (R + 'C13/1', 'C13-18', 'C13', S % 'the same capture block opened twice with different products and computed in one graph', 'one capture block opened with two different applycal choices, both evaluated together', 'VIOLATION'),
 (R + 'C13/2', 'C13-19', 'C13', P % ('C13, whose preselected streams have even channel counts', 'C17, which owns SpectralWindow.subrange'), 'an odd channel count and a channel preselect with first+last even', 'C13 exit 0; C17 VIOLATION'),
 (R + 'C13/3', 'C13-20', 'C13', P % ('C13, which is fed corrections', 'C14, which owns calc_delay_correction and after strengthening feeds it infinite delays'), 'a K product with an infinite delay', 'C13 exit 0; C14 VIOLATION'),
 (R + 'C14/1', 'C14-18', 'C14', S % 'an earlier registration in the same process sharing the override object or the default', 'two registrations in one process relying on the same override dict or the default', 'VIOLATION'),
 (R + 'C14/2', 'C14-19', 'C14', 'yes', "applycal='default' on a data set missing a default product", 'VIOLATION'),
 (R + 'C14/3', 'C14-20', 'C14', 'yes', 'a bandpass with exactly one valid channel', 'VIOLATION'),
 (R + 'C15/1', 'C15-18', 'C15', S % 'v3 weights read with scalar indices from files opened with and without keepdims', 'a v3 file opened with keepdims=True and a scalar time index', 'VIOLATION'),
 (R + 'C15/2', 'C15-19', 'C15', 'yes', "need_weights_power_scale=True with van_vleck='autocorr'", 'VIOLATION'),
 (R + 'C15/3', 'C15-20', 'C15', 'yes', 'channel averaging and a bin that is entirely flagged or has zero weights', 'VIOLATION'),
 (R + 'C16/1', 'C16-18', 'C16', 'yes', 'a v4 data set with a missing chunk and the documented bit value 0x08', 'VIOLATION'),
 (R + 'C16/2', 'C16-19', 'C16', 'yes', 'raw_flags and flags of one data set fetched jointly', 'VIOLATION'),
 (R + 'C16/3', 'C16-20', 'C16', 'yes', 'a selection containing exactly one of predicted_rfi / cal_rfi', 'VIOLATION'),
 (R + 'C17/1', 'C17-18', 'C17', 'yes', 'a preselect dict mixing a valid and an unknown key', 'VIOLATION'),
 (R + 'C17/2', 'C17-19', 'C17', 'yes', 'a last stored chunk smaller than the one before it and a preselect cutting off more than it', 'VIOLATION'),
 (R + 'C17/3', 'C17-20', 'C17', S % 'the correlator proxy named anywhere in the resource list', 'a CMC2 capture whose cbf_dev_N entry is not first in sub_pool_resources', 'VIOLATION'),
 (R + 'C18/1', 'C18-18', 'C18', P % ('C18, whose unreadable sources are files, directories and a refusing redis', 'C09, which owns RDB files fetched over HTTP'), 'an http(s) URL whose RDB object does not exist (404)', 'C18 exit 0; C09 VIOLATION'),
 (R + 'C18/2', 'C18-19', 'C18', 'yes', 'a key defined both in the capture-block namespace and in a stream namespace', 'VIOLATION'),
 (R + 'C18/3', 'C18-20', 'C18', S % "flags streams whose source name merely contains the opened stream's name", 'sdp_l0 and sdp_l0_continuum each with a flags stream, opening sdp_l0', 'VIOLATION'),
 (R + 'C19/1', 'C19-18', 'C19', 'yes', 'an empty second-stage slice starting on a part boundary', 'VIOLATION'),
 (R + 'C19/2', 'C19-19', 'C19', S % 'a combined data set as a part of another one (which uncovered the defect repaired in /repo 171f0fc)', 'a ConcatenatedDataSet as a part that is not chronologically first', 'VIOLATION'),
 (R + 'C19/3', 'C19-20', 'C19', S % 'a refused attempt (differing dump period) before the concatenation of the same parts', 'a list refused for its dump periods, then one of its parts reused in a valid concatenation', 'VIOLATION'),
 (R + 'C20/1', 'C20-18', 'C20', S % 'a bare indexer (no selection, no transforms) read by shape / len while another thread makes the first access', 'an unselected untransformed indexer, one thread reading shape and one making the first access', 'VIOLATION'),
 (R + 'C20/2', 'C20-19', 'C20', 'yes', 'two target segments and a by-name request for a basis sensor during its instantiation', 'VIOLATION'),
 (R + 'C20/3', 'C20-20', 'C20', 'yes', 'an idle session in the pool and a borrower preempted between reading and deleting it', 'VIOLATION'),
]

if __name__ == '__main__':
    a.T = []
    a.main(T)
