"""C19 - concatenated data sets behave as one long data set."""
import json
import os
import random
import shutil
import tempfile

import dask
import numpy as np

from harness import common, ixgen

RULE = ('case = 2-4 synthetic data sets (all v4 through ConcatenatedDataSet, or all v3 files through '
        'katdal.open([paths])) with the same subarray / spectral window, shuffled input order, shared and distinct '
        'targets, different scan structures, an extra numeric sensor present in an arbitrary subset of the parts; '
        'checks: chronological order, timestamps / vis / flags / weights / sensors = concatenation of the parts, scan and '
        'compscan indices continue across parts, merged catalogue, selections (dumps masks spanning parts, channels, '
        'corrprods, targets by name, scans by state) select in every part what the same criteria select there, '
        'second-stage indices across part boundaries, scans() iteration, differing dump periods (by 2 s down to '
        '2**-40 s) refused; 30% of the cases have parts of different subarrays and spectral windows (patterns drawn '
        'independently): merged lists, index sensors and select(subarray=j, spw=k) for every pair.  '
        'non-trivial = a read spanned at least two parts; distinct = hash of the encoded case.')
TRUSTED = ['Lean 4.33 kernel', 'axioms: propext, Classical.choice, Quot.sound only',
           'hand-written models (LazyIndexer.concatHead, Concat) tied to /repo by this differential run',
           'synthetic writers harness/h5synth.py and harness/v4synth.py']
CHECKER = 'lake build KatdalModel.Props.C19 kd_c19 && lake env lean <#print axioms audit>'
FULL = ('s', None, None, None)
TARGETS = ['J1939-6342, radec bpcal, 19:39:25.03, -63:42:45.6',
           'J0408-6545, radec gaincal, 04:08:20.38, -65:45:09.1',
           'Src3, radec target, 05:00:00.0, -40:00:00.0']


def gen_case(rng):
    fmt = rng.choice(['v4', 'v4', 'v3'])
    nparts = rng.randint(2, 4)
    F = rng.randint(1, 4)
    n_ants = rng.randint(1, 2)
    parts = []
    for p in range(nparts):
        T = rng.randint(1, 6)
        tgt = rng.sample(range(len(TARGETS)), rng.randint(1, 2))
        n_ev = rng.randint(1, 3)
        act = [[-1.0, rng.choice(['slew', 'track'])]]
        for k in range(1, n_ev):
            act.append([rng.randint(0, 2 * T) / 2.0, rng.choice(['slew', 'track', 'scan'])])
        act = sorted({a[0]: a for a in act}.values())
        targets = [[-1.0, tgt[0]]] + ([[rng.randint(1, 2 * T) / 2.0, tgt[1]]] if len(tgt) > 1 else [])
        parts.append(dict(T=T, activity=act, targets=targets, extra=rng.random() < 0.6, seed=rng.randrange(2 ** 31),
                          extra_bool=rng.random() < 0.5, extra_int=rng.random() < 0.5))
    # parts of different subarrays (correlation-product labelling) and spectral windows (centre frequency);
    # the two patterns are drawn independently so that they differ from each other in most cases
    multi = rng.random() < 0.3
    if multi:
        fmt = 'v4'
        for pt in parts:
            pt['sub'] = rng.randint(0, 1)
            pt['spw'] = rng.randint(0, 2)
    order = list(range(nparts))
    rng.shuffle(order)
    ops = []
    for _ in range(rng.randint(1, 3)):
        ops.append(dict(kind=rng.choice(['dumpsmask', 'channels', 'corrprods', 'target', 'scans', 'none', 'timerange']),
                        seed=rng.randrange(2 ** 31)))
    return dict(fmt=fmt, F=F, n_ants=n_ants, parts=parts, order=order, ops=ops, bad_period=rng.random() < 0.12,
                period_delta=rng.choice([2.0, 1e-3, 1e-6, 1e-9, 2.0 ** -40]), multi=multi,
                seed=rng.randrange(2 ** 31))


class Part:
    pass


def build_parts(case, tmp):
    parts = []
    t0 = 1600000000.0
    gap = 100.0
    for p, spec in enumerate(case['parts']):
        rng = random.Random(spec['seed'])
        pt = Part()
        int_time = 2.0 if not (case['bad_period'] and p == 1) else 2.0 + case.get('period_delta', 2.0)
        multi = case.get('multi', False)
        start = t0 + p * gap
        activity = [(a, b) for a, b in spec['activity']]
        targets = [(a, TARGETS[b]) for a, b in spec['targets']]
        extra = {}
        if case['fmt'] == 'v4':
            from harness import v4synth
            if spec['extra']:
                extra['anc_air_temperature'] = [(-1.0, 20.0 + p), (spec['T'] + 1.0, 22.0 + p)]
            if spec.get('extra_bool'):
                extra['anc_gust_alarm'] = [(-1.0, True)]            # boolean sensor, absent elsewhere -> False
            if spec.get('extra_int'):
                extra['anc_rain_count'] = [(-1.0, 7 + p)]            # integer sensor, absent elsewhere -> -1
            syn = v4synth.make_v4(rng, T=spec['T'], F=case['F'], n_ants=case['n_ants'], shuffle_bls=False,
                                  sync_time=start - 128.0, first_timestamp=128.0, int_time=int_time,
                                  activity=activity, targets=targets, extra_sensors=extra,
                                  cbid=str(1600000000 + p),
                                  pols=('vh' if multi and spec.get('sub') else 'hv'),
                                  # window 1 differs in centre frequency, window 2 only in the correlator product
                                  center_freq=1284e6 + (16e6 if multi and spec.get('spw', 0) == 1 else 0.0),
                                  sub_product=('bc856M4k' if multi and spec.get('spw', 0) == 2 else 'c856M4k'))
            pt.vis = syn.stored['correlator_data']
            pt.flags = syn.stored['flags'] != 0
            pt.flags_raw = syn.stored['flags']
            pt.weights = (syn.stored['weights'] * syn.stored['weights_channel'][..., None]).astype(np.float32)
            pt.timestamps, pt.freqs = syn.timestamps, syn.freqs
            pt.corrprods = [tuple(c) for c in syn.corrprods]
            pt.dataset = syn.dataset
        else:
            from harness import h5synth
            path = os.path.join(tmp, f'part{p}.h5')
            if spec['extra']:
                extra['anc/air_temperature'] = [(-1.0, 20.0 + p), (spec['T'] + 1.0, 22.0 + p)]
            syn = h5synth.make_v3(path, rng, T=spec['T'], F=case['F'], n_ants=case['n_ants'], shuffle_bls=False,
                                  int_time=int_time, t0=start, activity=activity, targets=targets,
                                  extra_sensors=extra, open=False)
            pt.path = path
            pt.vis, pt.flags, pt.weights = syn.vis, syn.flags_raw != 0, syn.weights
            pt.flags_raw = None
            pt.timestamps, pt.freqs = np.asarray(syn.timestamps), np.asarray(syn.freqs)
            pt.corrprods = [tuple(c) for c in syn.corrprods]
            pt.dataset = None
        pt.start = start
        pt.spec = spec
        parts.append(pt)
    return parts


def open_concat(case, parts):
    import katdal
    from katdal.concatdata import ConcatenatedDataSet
    ordered = [parts[i] for i in case['order']]
    if case['fmt'] == 'v4':
        if case['seed'] % 3 == 0:
            # the user had narrowed some parts before concatenating them: the combined data set starts from the
            # whole parts all the same (scan numbering included)
            for k, p in enumerate(ordered):
                if k % 2 == 0:
                    try:
                        p.dataset.select(scans='track', channels=slice(0, 1))
                    except Exception:   # noqa: BLE001
                        pass
        dsets = [p.dataset for p in ordered]
        if case['seed'] % 5 == 1:
            # a refused attempt first (one of the parts offered together with a data set of another dump period):
            # "differing dump periods refused" - and the refusal leaves the offered parts as they were
            import random
            from harness import v4synth
            from katdal.concatdata import ConcatenationError
            slow = v4synth.make_v4(random.Random(case['seed']), T=3, F=len(ordered[-1].freqs), n_ants=2,
                                   int_time=2.0 * float(dsets[-1].dump_period)).dataset
            try:
                ConcatenatedDataSet([dsets[-1], slow])
                raise AssertionError('a data set of twice the dump period was accepted for concatenation')
            except ConcatenationError:
                case['_refused_first'] = True
        if case['seed'] % 5 == 2 and len(dsets) >= 3:
            # some of the parts were already combined: a combined data set is itself a data set and can be a part
            # (the earliest part on its own, the later ones combined first, so that the whole is still chronological)
            case['_nested'] = True
            first = min(ordered, key=lambda p: p.start)
            rest = [p.dataset for p in ordered if p is not first]
            return ConcatenatedDataSet([ConcatenatedDataSet(rest), first.dataset])
        return ConcatenatedDataSet(dsets)
    return katdal.open([p.path for p in ordered])


def run_case(ctx, case):
    tmp = tempfile.mkdtemp(prefix='c19_')
    try:
        with dask.config.set(scheduler='synchronous'):
            parts = build_parts(case, tmp)
            os.makedirs(os.path.join(tmp, 'ref'), exist_ok=True)
            refs = build_parts(case, os.path.join(tmp, 'ref'))
            if case['fmt'] == 'v3':
                import katdal
                for r in refs:
                    r.dataset = katdal.open(r.path)
            for p_, r_ in zip(parts, refs):
                p_.ref = r_.dataset
            from katdal.concatdata import ConcatenationError
            periods = sorted({float(r.dataset.dump_period) for r in refs})
            differing = len(periods) > 1
            try:
                d = open_concat(case, parts)
            except ConcatenationError as e:
                if differing:
                    ctx.tag('dump-period-refused', 'period-delta-%g' % case.get('period_delta', 2.0))
                    return None, False
                return f'compatible data sets were refused: {str(e)[:100]}', False
            except Exception as e:   # noqa: BLE001
                return f'opening the parts together raised {type(e).__name__}: {str(e)[:120]}', False
            if differing:
                return (f'data sets with differing dump periods {periods} were concatenated instead of refused'), False
            if case.get('_refused_first'):
                ctx.tag('refused-attempt-first')
            if case.get('_nested'):
                ctx.tag('nested-concatenation')
            try:
                if case.get('multi'):
                    return drive_multi(ctx, case, parts, d)
                return drive(ctx, case, parts, d)
            except Exception as e:   # noqa: BLE001  - any access to the combined data set that raises is a finding
                import traceback
                where = traceback.extract_tb(e.__traceback__)[-1]
                return (f'accessing the combined data set raised {type(e).__name__}: {str(e)[:120]} '
                        f'(at {os.path.basename(where.filename)}:{where.lineno})'), False
    finally:
        shutil.rmtree(tmp, ignore_errors=True)


def drive(ctx, case, parts, d):
    chrono = sorted(parts, key=lambda p: p.start)
    vis = np.concatenate([p.vis for p in chrono])
    flags = np.concatenate([p.flags for p in chrono])
    weights = np.concatenate([p.weights for p in chrono])
    ts = np.concatenate([p.timestamps for p in chrono])
    lens = [len(p.timestamps) for p in chrono]
    offs = np.cumsum([0] + lens)
    T, F, B = vis.shape
    spanned = False
    # --- whole data set
    if tuple(int(x) for x in d.shape) != (T, F, B):
        return f'shape {tuple(d.shape)} != concatenated shape {(T, F, B)}', spanned
    if not np.array_equal(np.asarray(d.timestamps[:]), ts):
        return 'timestamps are not the chronological concatenation of the parts', spanned
    for name, ind, exp in (('vis', d.vis, vis), ('flags', d.flags, flags), ('weights', d.weights, weights)):
        got = np.asarray(ind[:])
        if got.shape != exp.shape or not np.array_equal(got, exp):
            return f'{name}[:] is not the concatenation of the parts', spanned
    # --- strided head slices whose phase differs from the part boundaries (cheap: timestamps + one vis read)
    srng = random.Random(case['seed'])
    for _ in range(6):
        step = srng.randint(2, 5)
        start = srng.randint(0, max(0, T - 1))
        stop = srng.choice([None, srng.randint(start, T)])
        sl = slice(start, stop, step)
        if len(range(*sl.indices(T))) == 0:
            continue
        got = np.asarray(d.timestamps[sl])
        if got.shape != ts[sl].shape or not np.array_equal(got, ts[sl]):
            return (f'timestamps[{start}:{stop}:{step}] across part boundaries = {got.tolist()} but indexing the '
                    f'concatenated array gives {ts[sl].tolist()}'), spanned
        ctx.tag('strided-head')
    sl = slice(srng.randint(0, min(2, T - 1)), None, srng.randint(3, 4))
    got = np.asarray(d.vis[sl])
    if got.shape != vis[sl].shape or not np.array_equal(got, vis[sl]):
        return f'vis[{sl.start}::{sl.step}] across part boundaries differs from indexing the concatenated array', spanned
    # --- scan / compscan indices continue across parts
    for sensor in ('Observation/scan_index', 'Observation/compscan_index'):
        v = [int(x) for x in d.sensor[sensor]]
        if v[0] != 0 or any(b - a not in (0, 1) for a, b in zip(v[:-1], v[1:])):
            return f'{sensor} does not continue consecutively across parts: {v}', spanned
        for k in range(1, len(lens)):
            if lens[k] and lens[k - 1] and v[offs[k]] == v[offs[k] - 1]:
                return f'{sensor} repeats index {v[offs[k]]} across the boundary between parts {k - 1} and {k}', spanned
    # --- a sensor present in only some parts: dummy (NaN) elsewhere
    name = 'anc_air_temperature' if case['fmt'] == 'v4' else 'Enviro/air_temperature'
    if any(p.spec['extra'] for p in chrono):
        try:
            temp = np.asarray(d.sensor[name], dtype=float)
        except Exception as e:   # noqa: BLE001
            return f'sensor present in some parts raised {type(e).__name__} on the combined data set: {str(e)[:80]}', spanned
        if temp.shape != (T,):
            return f'sensor {name} has shape {temp.shape} on {T} dumps', spanned
        for k, p in enumerate(chrono):
            seg = temp[offs[k]:offs[k + 1]]
            if p.spec['extra']:
                if np.isnan(seg).any():
                    return f'sensor {name} is NaN in part {k} where it has samples', spanned
            elif not np.isnan(seg).all():
                return f'sensor {name} absent from part {k} is not filled with the dummy value (NaN): {seg.tolist()}', spanned
        ctx.tag('partial-sensor')
    # sensors of other types present in only some parts: the dummy value of their type (False, -1) elsewhere
    if case['fmt'] == 'v4':
        for key, sname, dummy, kind in (('extra_bool', 'anc_gust_alarm', False, bool), ('extra_int', 'anc_rain_count', -1, int)):
            if not any(p.spec.get(key) for p in chrono) or all(p.spec.get(key) for p in chrono):
                continue
            try:
                vals = list(d.sensor[sname])
            except Exception as e:   # noqa: BLE001
                return f'sensor {sname} present in some parts raised {type(e).__name__}: {str(e)[:80]}', spanned
            if len(vals) != T:
                return f'sensor {sname} has {len(vals)} values on {T} dumps', spanned
            for k, p in enumerate(chrono):
                seg = vals[offs[k]:offs[k + 1]]
                if not p.spec.get(key) and any(kind(x) != dummy for x in seg):
                    return (f'{kind.__name__} sensor {sname} absent from part {k} reads {[kind(x) for x in seg][:4]} '
                            f'there instead of the dummy value {dummy!r} of its type'), spanned
                if p.spec.get(key) and any(kind(x) == dummy for x in seg):
                    return f'{kind.__name__} sensor {sname} reads the dummy value in part {k} where it has samples', spanned
            ctx.tag('partial-sensor-' + kind.__name__)
    # --- selections and boundary-spanning reads
    for op in case['ops']:
        rng = random.Random(op['seed'])
        kw = {}
        if op['kind'] == 'dumpsmask':
            kw['dumps'] = np.array([rng.random() < 0.6 for _ in range(T)])
        elif op['kind'] == 'channels':
            kw['channels'] = ixgen.to_py(ixgen.gen_slice(rng, F, allow_neg_step=False))
        elif op['kind'] == 'corrprods':
            kw['corrprods'] = rng.choice(['auto', 'cross', np.array([rng.random() < 0.6 for _ in range(B)])])
        elif op['kind'] == 'target':
            kw['targets'] = rng.choice(['J1939-6342', 'J0408-6545', 'Src3'])
        elif op['kind'] == 'scans':
            kw['scans'] = rng.choice(['track', '~slew', 'scan'])
        elif op['kind'] == 'timerange':
            a = rng.randrange(T)
            b = rng.randrange(a, T)
            kw['timerange'] = (ts[a] - 1.0, ts[b] + 1.0)
        try:
            d.select(**kw)
        except Exception as e:   # noqa: BLE001
            return f'select({list(kw)}) on the combined data set raised {type(e).__name__}: {str(e)[:100]}', spanned
        dumps = [int(x) for x in d.dumps]
        chans = [int(x) for x in d.channels]
        cpidx = [chrono[0].corrprods.index(tuple(c)) for c in d.corr_products]
        # what the same criterion selects in every part
        if op['kind'] in ('target', 'scans'):
            # "selects within each part exactly what the same criteria select there"
            want = []
            for k, p in enumerate(chrono):
                p.ref.select()
                p.ref.select(**kw)
                want += [int(offs[k] + i) for i in p.ref.dumps]
            if dumps != want:
                return (f"select({kw}) on the combined data set selected dumps {dumps}; the same criterion selects "
                        f"{want} in the parts"), spanned
        if op['kind'] == 'timerange':
            want = [i for i in range(T) if kw['timerange'][0] <= ts[i] - 1.0 and ts[i] + 1.0 <= kw['timerange'][1]]
            if dumps != want:
                return f'timerange selected dumps {dumps} instead of {want}', spanned
        if op['kind'] == 'dumpsmask' and dumps != np.nonzero(kw['dumps'])[0].tolist():
            return 'dumps mask spanning the parts was not applied as given', spanned
        if all(p.flags_raw is not None for p in chrono) and rng.random() < 0.5 and dumps and chans and cpidx:
            # a flag selection on the combined data set selects in every part what it selects there
            names = rng.choice(['cam', 'static,ingest_rfi', 'data_lost', 'cal_rfi,cam,predicted_rfi', ''])
            flag_names = ('reserved0', 'static', 'cam', 'data_lost', 'ingest_rfi', 'predicted_rfi', 'cal_rfi', 'postproc')
            mask = sum(1 << flag_names.index(nm) for nm in names.split(',') if nm)
            raw = np.concatenate([p.flags_raw for p in chrono])[np.ix_(dumps, chans, cpidx)]
            try:
                d.select(flags=names)
                got = np.asarray(d.flags[:])
                d.select(flags='all')
            except Exception as e:   # noqa: BLE001
                return f'select(flags={names!r}) on the combined data set raised {type(e).__name__}: {str(e)[:80]}', spanned
            ctx.tag('flags-selection-on-combined')
            if not np.array_equal(got, (raw & np.uint8(mask)) != 0):
                return (f'select(flags={names!r}) on the combined data set: {int(got.sum())} samples flagged, the stored '
                        f'flag bytes of the parts have those bits at {int(((raw & np.uint8(mask)) != 0).sum())}'), spanned
            if [int(x) for x in d.dumps] != dumps or [int(x) for x in d.channels] != chans:
                return 'a flag selection on the combined data set changed the time / frequency selection', spanned
        blk = [a[np.ix_(dumps, chans, cpidx)] for a in (vis, flags, weights)]
        if tuple(int(x) for x in d.shape) != blk[0].shape:
            return f'shape {tuple(d.shape)} after select != {blk[0].shape}', spanned
        if not np.array_equal(np.asarray(d.timestamps[:]), ts[dumps]):
            return 'timestamps after select are not those of the selected dumps', spanned
        # second-stage head index across boundaries (grammar of the concatenated indexer; tail kept full or slices)
        n = len(dumps)
        head = rng.choice([ixgen.gen_slice(rng, n, allow_neg_step=False, wild=False), ixgen.gen_mask(rng, n),
                           ixgen.gen_inc_list(rng, n), ixgen.gen_int(rng, n) if n else FULL, FULL])
        if n >= 2 and rng.random() < 0.5:
            # an integer list that is increasing inside every part but comes back to an earlier part after a later one
            groups = {}
            for r, g in enumerate(dumps):
                groups.setdefault(int(np.searchsorted(offs, g, side='right')), []).append(r)
            picks = [[r for r in rows_ if rng.random() < 0.6] for rows_ in groups.values()]
            picks = [p for p in picks if p]
            if len(picks) >= 2:
                merged = []
                while any(picks):
                    p = rng.choice([p for p in picks if p])
                    merged.append(p.pop(0))
                if merged != sorted(merged):
                    head = ('l', merged)
                    ctx.tag('head-list-interleaved-across-parts')
        tail = [rng.choice([FULL, ixgen.gen_slice(rng, m, allow_neg_step=False, wild=False)]) for m in blk[0].shape[1:]]
        k2 = [head] + tail
        line = f"spec {ixgen.enc_shape(list(blk[0].shape))} - {ixgen.enc_tuple(k2)}"
        rep = common.run_model('C05', [line])[0][3:]
        sels = ixgen.parse_sels(rep)
        if isinstance(sels, tuple):
            continue
        k2py = tuple(ixgen.to_py(ix, as_array=rng.random() < 0.5) for ix in k2)
        for nm, ind, b in zip(('vis', 'flags', 'weights'), (d.vis, d.flags, d.weights), blk):
            exp = ixgen.apply_sels(b, sels)
            if exp.size == 0 or (head[0] == 's' and ixgen.np_len(n, head) == 0):
                continue    # empty reads of the concatenated indexer: recorded under C05
            try:
                got = np.asarray(ind[k2py])
            except Exception as e:   # noqa: BLE001
                return (f'{nm}[{ixgen.enc_tuple(k2)}] on the combined selection of shape {b.shape} raised '
                        f'{type(e).__name__}: {str(e)[:80]}'), spanned
            if got.shape != exp.shape or not np.array_equal(got, exp):
                return (f'{nm}[{ixgen.enc_tuple(k2)}] across part boundaries differs from indexing the '
                        f'concatenated arrays (shape {got.shape} vs {exp.shape})'), spanned
        # in every case whatever the seed: every selected dump by its negative scalar index (the first one lands in
        # the earliest part, never the final one when the selection spans parts)
        for neg in sorted({-n, -(n // 2 + 1), -1}) if n else []:
            try:
                gv, gt = np.asarray(d.vis[neg]), np.asarray(d.timestamps[neg])
            except Exception as e:   # noqa: BLE001
                return f'vis[{neg}] on the combined selection of {n} dumps raised {type(e).__name__}: {str(e)[:80]}', spanned
            if gv.shape != blk[0][neg].shape or not np.array_equal(gv, blk[0][neg]) or gt != ts[dumps][neg]:
                return (f'vis[{neg}] / timestamps[{neg}] on the combined selection of {n} dumps are not those of the '
                        f'dump counted from the end of the concatenated arrays'), spanned
        rows = sels[0][1] if sels[0][0] == 'm' else [sels[0][1]]
        src = [dumps[r] for r in rows]
        if len({int(np.searchsorted(offs, s, side='right')) for s in src}) >= 2:
            spanned = True
        ctx.tag('head-' + head[0], 'sel-' + op['kind'])
    # --- scans() iteration over the combined data set partitions the current selection
    before = [int(x) for x in d.dumps]
    seen, last = [], -1
    try:
        for idx, state, target in d.scans():
            cur = [int(x) for x in d.dumps]
            if idx <= last:
                return 'scans() on the combined data set is not in increasing scan order', spanned
            last = idx
            seen += cur
    except Exception as e:   # noqa: BLE001
        return f'scans() on the combined data set raised {type(e).__name__}: {str(e)[:80]}', spanned
    if sorted(seen) != before or len(seen) != len(set(seen)):
        return f'scans() on the combined data set visited dumps {sorted(seen)} of the selection {before}', spanned
    return None, spanned


def drive_multi(ctx, case, parts, d):
    """parts of different subarrays / spectral windows: merged lists in order of first appearance, per-dump index
    sensors, and select(subarray=j, spw=k) = the dumps (and data) of exactly the parts with that pair"""
    chrono = sorted(parts, key=lambda p: p.start)
    lens = [len(p.timestamps) for p in chrono]
    offs = np.cumsum([0] + lens)
    T = int(offs[-1])
    subs, spws = [], []
    for p in chrono:
        if p.spec['sub'] not in subs:
            subs.append(p.spec['sub'])
        if p.spec['spw'] not in spws:
            spws.append(p.spec['spw'])
    if len(d.subarrays) != len(subs) or len(d.spectral_windows) != len(spws):
        return (f'{len(d.subarrays)} subarrays / {len(d.spectral_windows)} spectral windows merged from parts with '
                f'{len(subs)} / {len(spws)} distinct ones'), False
    for k, p in enumerate(chrono):
        if d.subarrays[subs.index(p.spec['sub'])] != p.ref.subarrays[0]:
            return f'merged subarray {subs.index(p.spec["sub"])} is not the subarray of part {k}', False
        if d.spectral_windows[spws.index(p.spec['spw'])] != p.ref.spectral_windows[0]:
            return f'merged spectral window {spws.index(p.spec["spw"])} is not the spectral window of part {k}', False
    want_sub = sum([[subs.index(p.spec['sub'])] * n for p, n in zip(chrono, lens)], [])
    want_spw = sum([[spws.index(p.spec['spw'])] * n for p, n in zip(chrono, lens)], [])
    spanned = False
    # the default selection is subarray 0, spectral window 0
    pairs = [(None, None)] + [(j, k) for j in range(len(subs)) for k in range(len(spws))]
    for j, k in pairs:
        try:
            if j is not None:
                d.select(subarray=j, spw=k)
        except Exception as e:   # noqa: BLE001
            return f'select(subarray={j}, spw={k}) raised {type(e).__name__}: {str(e)[:100]}', spanned
        jj, kk = (0, 0) if j is None else (j, k)
        want = [i for i in range(T) if want_sub[i] == jj and want_spw[i] == kk]
        dumps = [int(x) for x in d.dumps]
        label = 'the default selection' if j is None else f'select(subarray={j}, spw={k})'
        if dumps != want:
            return (f'{label} selected dumps {dumps}; the parts with that subarray and spectral window '
                    f'(part subarray indices {[subs.index(p.spec["sub"]) for p in chrono]}, spw indices '
                    f'{[spws.index(p.spec["spw"]) for p in chrono]}, lengths {lens}) hold dumps {want}'), spanned
        if d.subarray != jj or d.spw != kk:
            return f'{label} reports subarray {d.subarray}, spw {d.spw}', spanned
        sel = [p for p in chrono if subs.index(p.spec['sub']) == jj and spws.index(p.spec['spw']) == kk]
        if not sel:
            ctx.tag('multi-empty-pair')
            continue
        if [tuple(c) for c in d.corr_products] != sel[0].corrprods:
            return f'{label}: corr_products are not those of the selected subarray', spanned
        # a flag / weight selection (or any call that names neither subarray nor spectral window) stays where it is
        for kw2 in (dict(flags='cam'), dict(weights='all'), dict(flags='all')):
            try:
                d.select(**kw2)
            except Exception as e:   # noqa: BLE001
                return f'{label} then select({kw2}) raised {type(e).__name__}: {str(e)[:80]}', spanned
            if d.subarray != jj or d.spw != kk or [int(x) for x in d.dumps] != want or \
                    [tuple(c) for c in d.corr_products] != sel[0].corrprods:
                return (f'{label} then select({kw2}): the data set is now on subarray {d.subarray}, spw {d.spw} with '
                        f'dumps {[int(x) for x in d.dumps][:8]} (a flag / weight selection changed the time, product or '
                        f'subarray selection)'), spanned
        ctx.tag('multi-flags-select-keeps-subarray')
        if not np.array_equal(np.asarray(d.freqs), sel[0].freqs):
            return f'{label}: channel frequencies are not those of the selected spectral window', spanned
        for name, sens, exp in (('Observation/subarray_index', want_sub, jj), ('Observation/spw_index', want_spw, kk)):
            got = [int(x) for x in d.sensor[name]]
            if got != [exp] * len(want):
                return f'{label}: sensor {name} reads {got} on dumps that all have index {exp}', spanned
        ts = np.concatenate([p.timestamps for p in sel])
        if not np.array_equal(np.asarray(d.timestamps[:]), ts):
            return f'{label}: timestamps are not those of the selected parts', spanned
        for name, ind, exp in (('vis', d.vis, np.concatenate([p.vis for p in sel])),
                               ('flags', d.flags, np.concatenate([p.flags for p in sel])),
                               ('weights', d.weights, np.concatenate([p.weights for p in sel]))):
            got = np.asarray(ind[:])
            if got.shape != exp.shape or not np.array_equal(got, exp):
                return f'{label}: {name}[:] is not the concatenation of the selected parts', spanned
        if len(sel) > 1:
            spanned = True
        ctx.tag('multi-pair-read')
    ctx.tag(f'multi-subs-{len(subs)}-spws-{len(spws)}',
            'multi-patterns-' + ('differ' if [subs.index(p.spec['sub']) for p in chrono] !=
                                 [spws.index(p.spec['spw']) for p in chrono] else 'same'))
    return None, spanned


def per_dump_values(events, T):
    """value in effect at each dump mid-time for (offset, value) events relative to dump 0 (offset in dumps);
    a dump d covers (d - 0.5, d + 0.5]: the value at its END decides (no greedy values here)"""
    out = []
    for d in range(T):
        cur = events[0][1]
        for off, v in events:
            if off <= d + 0.5:
                cur = v
        out.append(cur)
    return out


def evaluate(ctx, cases):
    bad = []
    for c in cases:
        v, spanned = run_case(ctx, c)
        ctx.tag('fmt-' + c['fmt'], f"parts-{len(c['parts'])}")
        ctx.count(json.dumps(c, sort_keys=True), bool(spanned),
                  sample={'fmt': c['fmt'], 'lens': [p['T'] for p in c['parts']], 'order': c['order'],
                          'ops': [o['kind'] for o in c['ops']]})
        if v:
            bad.append((c, v))
    return bad


def still_fails(ctx, case):
    try:
        return bool(evaluate(common.Ctx(ctx.prop, ctx.tier, ctx.seed), [case]))
    except Exception:   # noqa: BLE001
        return False


def shrink(ctx, case, what):
    cur = json.loads(json.dumps(case))
    ops = common.ddmin(cur['ops'], lambda o: still_fails(ctx, dict(cur, ops=o))) if len(cur['ops']) > 1 else cur['ops']
    if still_fails(ctx, dict(cur, ops=ops)):
        cur['ops'] = ops
    bad = evaluate(common.Ctx(ctx.prop, ctx.tier, ctx.seed), [cur])
    return (cur, bad[0][1]) if bad else (case, what)


MATCHERS = {}


def corpus():
    d = os.path.join(common.VERIF, 'corpus', 'C19')
    out = []
    if os.path.isdir(d):
        for nm in sorted(os.listdir(d)):
            out.append(json.load(open(os.path.join(d, nm)))['case'])
    return out


def run(ctx):
    ctx.matchers.update(MATCHERS)
    build_info = common.build_and_audit('C19', ctx.tier, extra_targets=['kd_c05'])
    cases = corpus() + [gen_case(ctx.rng) for _ in range(ctx.q(60, 2000))]
    bad = evaluate(ctx, cases)
    for c, v in bad:
        ctx.violation(c, v)
    return common.finish(ctx, build_info, RULE, CHECKER, TRUSTED, shrink=lambda c, w: shrink(ctx, c, w))


def replay(ctx, rep):
    ctx.matchers.update(MATCHERS)
    build_info = common.build_and_audit('C19', 'quick', extra_targets=['kd_c05'])
    for cc, v in evaluate(ctx, [rep['case']]):
        ctx.violation(cc, v)
    return common.finish(ctx, build_info, RULE, CHECKER, TRUSTED)
