/-
  Index algebra: numpy per-axis (outer) indexing, the backbone of C01/C04/C05/C17/C19.
  Import-free apart from the Np layer.
-/
import KatdalModel.Np.Basic
open Np

namespace Index

/-- One axis' index expression. -/
inductive Ix
  | int (i : Int)
  | slice (a b c : Option Int)
  | mask (m : List Bool)
  | list (l : List Int)
  deriving Repr, DecidableEq, Inhabited

/-- Resolved per-axis selection: a scalar (axis dropped) or a list of source positions. -/
inductive Sel
  | one (k : Nat)
  | many (ks : List Nat)
  deriving Repr, DecidableEq, Inhabited

def Sel.len : Sel → Option Nat
  | .one _ => none
  | .many ks => some ks.length

def normList (n : Nat) : List Int → Except Err (List Nat)
  | [] => .ok []
  | i :: t => do
    let k ← normInt n i
    let r ← normList n t
    pure (k :: r)

/-- numpy meaning of one index expression on an axis of length `n`. -/
def Ix.resolve (n : Nat) : Ix → Except Err Sel
  | .int i => do let k ← normInt n i; pure (.one k)
  | .slice a b c =>
    match sliceList n a b c with
    | none => .error .value
    | some l => .ok (.many (l.map Int.toNat))
  | .mask m => if m.length = n then .ok (.many (nonzero m)) else .error .index
  | .list l => do let ks ← normList n l; pure (.many ks)

/-- Pad an index tuple with full slices up to `ndim` (error if too many). -/
def padIx (ndim : Nat) (ix : List Ix) : Except Err (List Ix) :=
  if ix.length > ndim then .error .index
  else .ok (ix ++ List.replicate (ndim - ix.length) (.slice none none none))

/-- Resolve a whole index tuple against a shape (per-axis / outer semantics). -/
def resolveAll : List Nat → List Ix → Except Err (List Sel)
  | [], [] => .ok []
  | n :: ns, i :: is => do
    let s ← i.resolve n
    let r ← resolveAll ns is
    pure (s :: r)
  | _, _ => .error .index

/-- Shape of the result of outer indexing: `one` axes are dropped. -/
def selShape : List Sel → List Nat
  | [] => []
  | .one _ :: t => selShape t
  | .many ks :: t => ks.length :: selShape t

/-- Compose: apply a second-stage selection (positions into the first-stage list)
    to a first-stage list of source positions.  This is `dlookup[dkeep]`. -/
def composeList (first : List Nat) (second : Sel) : Except Err Sel :=
  match second with
  | .one k => do let v ← getNat first k; pure (.one v)
  | .many ks => do
    let vs ← ks.mapM (getNat first)
    pure (.many vs)

/-- Two-stage composition over all axes.  A first-stage `one` axis is dropped, so it
    consumes no second-stage entry. -/
def composeAll : List Sel → List Sel → Except Err (List Sel)
  | [], [] => .ok []
  | .one k :: t, second => do
    let r ← composeAll t second
    pure (.one k :: r)
  | .many ks :: t, s :: second => do
    let c ← composeList ks s
    let r ← composeAll t second
    pure (c :: r)
  | _, _ => .error .index

/-! Functional N-D arrays: an array is a function from coordinates to values together
    with a shape.  `oindex` is outer indexing by resolved selections. -/

structure NDArr (α : Type) where
  shape : List Nat
  get : List Nat → α

/-- Map result coordinates to source coordinates. -/
def pickCoords : List Sel → List Nat → List Nat
  | [], _ => []
  | .one k :: t, js => k :: pickCoords t js
  | .many ks :: t, j :: js => ks.getD j 0 :: pickCoords t js
  | .many _ :: t, [] => 0 :: pickCoords t []

def oindexSel {α} (a : NDArr α) (sels : List Sel) : NDArr α :=
  { shape := selShape sels, get := fun js => a.get (pickCoords sels js) }

def oindex {α} (a : NDArr α) (ix : List Ix) : Except Err (NDArr α) := do
  let ixp ← padIx a.shape.length ix
  let sels ← resolveAll a.shape ixp
  pure (oindexSel a sels)

end Index
