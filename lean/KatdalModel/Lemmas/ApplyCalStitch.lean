/-
  C14: the `while True` loop of `indirect_cal_product` (multi-part products) is a k-way merge:
  it terminates within `stitchFuel` iterations, its timestamps are the strictly increasing union of
  the parts' timestamps and every output value lists, part by part, that part's value at the
  timestamp or "absent".  Core Lean only (`omega`).
-/
import KatdalModel.Model.ApplyCal
open Np

namespace ApplyCal

variable {V : Type}

/-- a part's timestamps are strictly increasing -/
def PartSorted (p : Part V) : Prop := p.Pairwise (fun a b => a.1 < b.1)

/-- `t` is a timestamp of some part -/
def HasTime (rem : List (Part V)) (t : Int) : Prop := ∃ p ∈ rem, ∃ v, (t, v) ∈ p

theorem headTime_eq_none {p : Part V} : headTime p = none ↔ p = [] := by
  cases p <;> simp [headTime]

theorem minOpt_some_le {a b : Option Int} {t : Int} (h : minOpt a b = some t) :
    (∀ x, a = some x → t ≤ x) ∧ (∀ x, b = some x → t ≤ x) ∧ (a = some t ∨ b = some t) := by
  cases a with
  | none =>
    cases b with
    | none => simp [minOpt] at h
    | some y =>
      simp only [minOpt, Option.some.injEq] at h
      subst h
      refine ⟨?_, ?_, Or.inr rfl⟩
      · intro x hx; simp at hx
      · intro x hx; simp at hx; omega
  | some x =>
    cases b with
    | none =>
      simp only [minOpt, Option.some.injEq] at h
      subst h
      refine ⟨?_, ?_, Or.inl rfl⟩
      · intro z hz; simp at hz; omega
      · intro z hz; simp at hz
    | some y =>
      simp only [minOpt, Option.some.injEq] at h
      split at h <;> subst h
      · refine ⟨?_, ?_, Or.inr rfl⟩
        · intro z hz; simp at hz; omega
        · intro z hz; simp at hz; omega
      · refine ⟨?_, ?_, Or.inl rfl⟩
        · intro z hz; simp at hz; omega
        · intro z hz; simp at hz; omega

theorem minOpt_none {a b : Option Int} (h : minOpt a b = none) : a = none ∧ b = none := by
  cases a <;> cases b <;> simp [minOpt] at h ⊢

theorem nextTime_none : ∀ {rem : List (Part V)}, nextTime rem = none → ∀ p ∈ rem, p = []
  | [], _ => by simp
  | q :: rem, h => by
    simp only [nextTime, List.foldr_cons] at h
    obtain ⟨h1, h2⟩ := minOpt_none h
    intro p hp
    rcases List.mem_cons.mp hp with rfl | hp
    · exact headTime_eq_none.mp h1
    · exact nextTime_none (rem := rem) h2 p hp

theorem nextTime_spec : ∀ {rem : List (Part V)} {t : Int}, nextTime rem = some t →
    (∀ p ∈ rem, ∀ t', headTime p = some t' → t ≤ t') ∧ (∃ p ∈ rem, headTime p = some t)
  | [], t, h => by simp [nextTime] at h
  | q :: rem, t, h => by
    simp only [nextTime, List.foldr_cons] at h
    obtain ⟨h1, h2, h3⟩ := minOpt_some_le h
    constructor
    · intro p hp t' ht'
      rcases List.mem_cons.mp hp with rfl | hp
      · exact h1 t' ht'
      · cases hn : nextTime rem with
        | none => have := nextTime_none hn p hp; subst this; simp [headTime] at ht'
        | some u =>
          have hu : t ≤ u := h2 u hn
          have := (nextTime_spec (rem := rem) hn).1 p hp t' ht'
          omega
    · rcases h3 with h3 | h3
      · exact ⟨q, List.mem_cons_self .., h3⟩
      · obtain ⟨p, hp, hpt⟩ := (nextTime_spec (rem := rem) h3).2
        exact ⟨p, List.mem_cons_of_mem _ hp, hpt⟩

/-! ### one part -/

theorem lookupTime_none_of_gt {t : Int} : ∀ {p : Part V}, (∀ e ∈ p, t < e.1) → lookupTime t p = none
  | [], _ => rfl
  | e :: tl, h => by
    have he := h e (List.mem_cons_self ..)
    have : ¬ e.1 = t := by omega
    simp only [lookupTime, List.find?_cons, this, decide_false]
    exact lookupTime_none_of_gt (p := tl) (fun e' he' => h e' (List.mem_cons_of_mem _ he'))

theorem tail_gt {e : Int × V} {tl : Part V} (hs : PartSorted (e :: tl)) : ∀ e' ∈ tl, e.1 < e'.1 :=
  (List.pairwise_cons.mp hs).1

theorem pieceAt_eq_lookup {t : Int} {p : Part V} (hs : PartSorted p)
    (hle : ∀ t', headTime p = some t' → t ≤ t') : pieceAt t p = lookupTime t p := by
  cases p with
  | nil => rfl
  | cons e tl =>
    obtain ⟨t', v⟩ := e
    have hle' : t ≤ t' := hle t' (by simp [headTime])
    by_cases h : t' = t
    · subst h; simp [pieceAt, lookupTime]
    · have hgt : ∀ e' ∈ tl, t < e'.1 := fun e' he' => by
        have := tail_gt hs e' he'
        simp only at this
        omega
      have := lookupTime_none_of_gt (V := V) hgt
      simp only [pieceAt, h, if_false, lookupTime, List.find?_cons, decide_false] at this ⊢
      exact this.symm

theorem advance_sorted {t : Int} {p : Part V} (hs : PartSorted p) : PartSorted (advance t p) := by
  cases p with
  | nil => exact hs
  | cons e tl =>
    obtain ⟨t', v⟩ := e
    simp only [advance]
    split
    · exact (List.pairwise_cons.mp hs).2
    · exact hs

theorem advance_gt {t : Int} {p : Part V} (hs : PartSorted p) (hle : ∀ t', headTime p = some t' → t ≤ t') :
    ∀ e ∈ advance t p, t < e.1 := by
  cases p with
  | nil => simp [advance]
  | cons e tl =>
    obtain ⟨t', v⟩ := e
    have hle' : t ≤ t' := hle t' (by simp [headTime])
    have htl := tail_gt hs
    simp only [advance]
    split
    · rename_i h
      subst h
      exact htl
    · rename_i h
      intro e' he'
      rcases List.mem_cons.mp he' with rfl | he'
      · simp only; omega
      · have := htl e' he'
        simp only at this
        omega

theorem mem_advance {t : Int} {p : Part V} {e : Int × V} (h : e ∈ advance t p) : e ∈ p := by
  cases p with
  | nil => simp [advance] at h
  | cons e0 tl =>
    obtain ⟨t', v⟩ := e0
    simp only [advance] at h
    split at h
    · exact List.mem_cons_of_mem _ h
    · exact h

theorem mem_of_ne {t : Int} {p : Part V} {e : Int × V} (h : e ∈ p) (hne : e.1 ≠ t) : e ∈ advance t p := by
  cases p with
  | nil => simp at h
  | cons e0 tl =>
    obtain ⟨t', v⟩ := e0
    simp only [advance]
    split
    · rename_i ht
      rcases List.mem_cons.mp h with rfl | h
      · exact absurd ht hne
      · exact h
    · exact h

theorem lookup_advance {t t'' : Int} {p : Part V} (hne : t'' ≠ t) :
    lookupTime t'' (advance t p) = lookupTime t'' p := by
  cases p with
  | nil => rfl
  | cons e0 tl =>
    obtain ⟨t', v⟩ := e0
    simp only [advance]
    split
    · rename_i ht
      subst ht
      have : ¬ t' = t'' := fun h => hne h.symm
      simp [lookupTime, List.find?_cons, this]
    · rfl

theorem advance_length_le (t : Int) (p : Part V) : (advance t p).length ≤ p.length := by
  cases p with
  | nil => simp [advance]
  | cons e0 tl =>
    obtain ⟨t', v⟩ := e0
    simp only [advance]
    split <;> simp

theorem advance_length_lt {t : Int} {p : Part V} (h : headTime p = some t) : (advance t p).length < p.length := by
  cases p with
  | nil => simp [headTime] at h
  | cons e0 tl =>
    obtain ⟨t', v⟩ := e0
    simp only [headTime, List.head?_cons, Option.map_some, Option.some.injEq] at h
    subst h
    simp [advance]

theorem fuel_decreases {t : Int} : ∀ {rem : List (Part V)}, (∃ p ∈ rem, headTime p = some t) →
    stitchFuel (rem.map (advance t)) < stitchFuel rem
  | [], h => by simp at h
  | q :: rem, h => by
    obtain ⟨p, hp, hpt⟩ := h
    simp only [stitchFuel, List.map_cons, List.sum_cons, List.map_map]
    have hle : ∀ (l : List (Part V)), ((l.map (advance t)).map List.length).sum ≤ (l.map List.length).sum := by
      intro l
      induction l with
      | nil => simp
      | cons a l ih =>
        simp only [List.map_cons, List.sum_cons]
        have := advance_length_le t a
        omega
    rcases List.mem_cons.mp hp with rfl | hp
    · have := advance_length_lt hpt
      have := hle rem
      simp only [List.map_map] at this
      omega
    · have ih := fuel_decreases (rem := rem) ⟨p, hp, hpt⟩
      simp only [stitchFuel, List.map_map] at ih
      have := advance_length_le t q
      omega

/-! ### the loop -/

/-- **`c14_stitch` core**: with fuel `≥` the number of stored values the loop finishes, and its output
    has strictly increasing timestamps, exactly the timestamps of the parts, each with the list of the
    parts' values at that timestamp (`none` = part absent there). -/
theorem stitchLoop_spec : ∀ (fuel : Nat) (rem : List (Part V)),
    (∀ p ∈ rem, PartSorted p) → stitchFuel rem ≤ fuel →
    ∃ out, stitchLoop fuel rem = some out ∧
      (out.map (·.1)).Pairwise (· < ·) ∧
      (∀ t, t ∈ out.map (·.1) ↔ HasTime rem t) ∧
      (∀ e ∈ out, e.2 = rem.map (lookupTime e.1))
  | fuel, rem, hs, hf => by
    cases hn : nextTime rem with
    | none =>
      have hempty := nextTime_none hn
      refine ⟨[], ?_, by simp, ?_, by simp⟩
      · cases fuel <;> simp [stitchLoop, hn]
      · intro t
        simp only [List.map_nil, List.not_mem_nil, false_iff]
        rintro ⟨p, hp, v, hv⟩
        rw [hempty p hp] at hv
        simp at hv
    | some t =>
      obtain ⟨hmin, hwit⟩ := nextTime_spec hn
      have hdec := fuel_decreases hwit
      cases fuel with
      | zero => omega
      | succ fuel =>
        have hs' : ∀ p ∈ rem.map (advance t), PartSorted p := by
          intro p hp
          simp only [List.mem_map] at hp
          obtain ⟨q, hq, rfl⟩ := hp
          exact advance_sorted (hs q hq)
        obtain ⟨out, hout, hsorted, hmem, hval⟩ := stitchLoop_spec fuel (rem.map (advance t)) hs' (by omega)
        refine ⟨(t, rem.map (pieceAt t)) :: out, by simp [stitchLoop, hn, hout], ?_, ?_, ?_⟩
        · simp only [List.map_cons, List.pairwise_cons]
          refine ⟨?_, hsorted⟩
          intro t' ht'
          obtain ⟨p, hp, v, hv⟩ := (hmem t').mp ht'
          simp only [List.mem_map] at hp
          obtain ⟨q, hq, rfl⟩ := hp
          exact advance_gt (hs q hq) (hmin q hq) _ hv
        · intro t'
          simp only [List.map_cons, List.mem_cons, hmem]
          constructor
          · rintro (rfl | ⟨p, hp, v, hv⟩)
            · obtain ⟨p, hp, hpt⟩ := hwit
              cases p with
              | nil => simp [headTime] at hpt
              | cons e tl =>
                simp only [headTime, List.head?_cons, Option.map_some, Option.some.injEq] at hpt
                exact ⟨e :: tl, hp, e.2, by rw [← hpt]; exact List.mem_cons_self ..⟩
            · simp only [List.mem_map] at hp
              obtain ⟨q, hq, rfl⟩ := hp
              exact ⟨q, hq, v, mem_advance hv⟩
          · rintro ⟨p, hp, v, hv⟩
            by_cases h : t' = t
            · exact Or.inl h
            · exact Or.inr ⟨advance t p, List.mem_map_of_mem hp, v, mem_of_ne hv h⟩
        · intro e he
          rcases List.mem_cons.mp he with rfl | he
          · simp only
            apply List.map_congr_left
            intro p hp
            exact pieceAt_eq_lookup (hs p hp) (hmin p hp)
          · rw [hval e he, List.map_map]
            apply List.map_congr_left
            intro p hp
            have hgt : t < e.1 := by
              have : e.1 ∈ out.map (·.1) := List.mem_map_of_mem (f := (·.1)) he
              obtain ⟨p', hp', v, hv⟩ := (hmem e.1).mp this
              simp only [List.mem_map] at hp'
              obtain ⟨q, hq, rfl⟩ := hp'
              exact advance_gt (hs q hq) (hmin q hq) _ hv
            simp only [Function.comp]
            exact lookup_advance (by omega)

end ApplyCal
