"""C03 - scans()/compscans() partition the current selection and then restore it."""
import json
import os

import dask
import numpy as np

from harness import common, stubds, v4synth
from harness.props import c02

RULE = ('case = random observation structure + prior select() history (C02 generator, 0-5 calls) + one iteration of '
        'scans() or compscans() (30% nested scans-inside-compscans); recorded per step: index, state/label, target, '
        'dumps exposed; afterwards the three masks.  Structure cases = synthetic v4 data sets with random activity / '
        'label / target event sequences relative to dump boundaries, checking the per-dump scan / compscan / target '
        'index sensors.  non-trivial = at least two items visited; distinct = hash of the encoded history.')
TRUSTED = ['Lean 4.33 kernel', 'axioms: propext, Classical.choice, Quot.sound only',
           'hand-written model KatdalModel/Model/Select.lean (duringItem / afterIteration) tied to /repo by this run',
           'stub DataSet for the generator protocol; synthetic v4 data sets for the segmentation structure']
CHECKER = 'lake build KatdalModel.Props.C03 kd_c03 && lake env lean <#print axioms audit>'
T_KEYS = {'dumps', 'timerange', 'scans', 'compscans', 'targets', 'target_tags'}


def gen_case(rng):
    hist = c02.gen_history(rng)
    hist['calls'] = [c for c in hist['calls'][:rng.randint(0, 5)] if 'bogus_kw' not in c['extra']]
    obs = hist['obs']
    n_scans = len(obs['scan_states'])
    if n_scans >= 10 and rng.random() < 0.6:
        # a prior time selection that keeps a short run (or every second one) of the LATER scans only, so that the
        # iteration order is exercised on sparse index sets away from zero
        first = rng.randint(5, n_scans - 3)
        picked = list(range(first, n_scans, rng.choice([1, 1, 2])))[:rng.randint(3, 6)]
        mask = [any(obs['scan_events'][k] <= t < obs['scan_events'][k + 1] for k in picked) for t in range(obs['T'])]
        hist['calls'] = [dict(bare=False, crits=[['dumps', 'index', {'ix': ['m', mask], 'arr': True}]],
                              reset=None, extra={})]
    which, nested = rng.choice(['scans', 'compscans']), rng.random() < 0.3
    if len(obs['cs_labels']) >= 2 and rng.random() < 0.2:
        # compound scans with a nested scans() under a prior scans= / compscans= criterion (the criterion must still
        # be in force inside the later compound scans and after the iteration)
        which, nested = 'compscans', True
        key, table = rng.choice([('scans', stubds.STATES), ('scans', stubds.STATES), ('compscans', stubds.LABELS)])
        items = [rng.choice(table)] if rng.random() < 0.7 else ['~' + rng.choice(table)]
        hist['calls'] = [dict(bare=False, crits=[[key, 'items', {'items': items, 'as': 'list'}]], reset=None, extra={})]
    return dict(kind='iter', hist=hist, which=which, nested=nested)


def run_iter(case):
    hist = case['hist']
    obs = hist['obs']
    d, targets = stubds.build(obs)
    lines = [stubds.ctx_line(obs)]
    res = dict(err=None, steps=[], before=None, after=None, nested=[])
    try:
        for call in hist['calls']:
            lines.append(c02.proto_call(call, d, targets, obs))
            kwargs = {c[0]: stubds.crit_to_python(tuple(c), d, targets) for c in call['crits']}
            kwargs.update(call['extra'])
            if call['reset'] is not None:
                kwargs['reset'] = call['reset']
            d.select(**kwargs)
    except Exception as e:   # noqa: BLE001 - invalid prior criterion: not this property's business
        res['err'] = 'prior:' + type(e).__name__
        return lines, res
    res['before'] = stubds.masks_of(d)
    lines.append(f"iter {case['which']}")
    try:
        it = d.scans() if case['which'] == 'scans' else d.compscans()
        for idx, name, target in it:
            t, f, b = stubds.masks_of(d)
            step = dict(idx=int(idx), name=str(name), target=target.name, t=t, f=f, b=b,
                        shape=tuple(int(x) for x in d.shape))
            if case['nested'] and case['which'] == 'compscans':
                inner = []
                for sidx, sname, starget in d.scans():
                    inner.append((int(sidx), stubds.masks_of(d)[0]))
                step['inner'] = inner
                step['t_after_inner'] = stubds.masks_of(d)[0]
            res['steps'].append(step)
        res['after'] = stubds.masks_of(d)
    except Exception as e:   # noqa: BLE001
        res['err'] = 'iter:' + type(e).__name__ + ':' + str(e)[:80]
    return lines, res


def judge_iter(ctx, case, lines, res, replies):
    if res['err'] and res['err'].startswith('prior:'):
        ctx.tag('prior-invalid')
        return None
    rep = replies[-1]
    if any(r.startswith('E:') for r in replies[:-1]):
        ctx.tag('prior-invalid')
        return None
    if res['err']:
        return f"iteration raised {res['err'][5:]}"
    obs = case['hist']['obs']
    during, after = rep.split(' | after ')
    items = [] if during == '-' else [(int(x.split(':')[0]), x.split(':')[1]) for x in during.split(';')]
    t0, f0, b0 = res['before']
    # spec: partition of the prior time selection, in index order
    got = [(s['idx'], s['t']) for s in res['steps']]
    if got != items:
        return f'items visited {got} but the partition of the prior selection {t0} by index is {items}'
    union = ['0'] * len(t0)
    for s in res['steps']:
        if s['f'] != f0 or s['b'] != b0:
            return 'frequency / product selection changed while an item was current'
        if s['shape'] != (s['t'].count('1'), f0.count('1'), b0.count('1')):
            return f"shape {s['shape']} inconsistent with the exposed dumps"
        for p, ch in enumerate(s['t']):
            if ch == '1':
                if union[p] == '1':
                    return 'two items expose the same dump'
                union[p] = '1'
        # yielded state / label / target belong to those dumps
        first = s['t'].index('1')
        if case['which'] == 'scans':
            want = stubds.per_dump(obs['scan_events'], obs['scan_states'])[first]
        else:
            want = stubds.per_dump(obs['cs_events'], obs['cs_labels'])[first]
        if s['name'] != want:
            return f"item {s['idx']} yielded {s['name']!r} but its dumps have {want!r}"
        tgts = {stubds.per_dump(obs['tgt_events'], obs['tgt_indices'])[p] for p, ch in enumerate(s['t']) if ch == '1'}
        if len(tgts) == 1:
            want_t = stubds.TARGET_DESCR[tgts.pop()].split(',')[0].split('|')[0].strip()
            if s['target'] != want_t:
                return f"item {s['idx']} yielded target {s['target']!r} but its dumps are on {want_t!r}"
        if 'inner' in s:
            # nested scans inside the compscan partition the compscan's dumps and restore them
            iu = ['0'] * len(t0)
            for _, tm in s['inner']:
                for p, ch in enumerate(tm):
                    if ch == '1':
                        if iu[p] == '1':
                            return 'nested scans overlap'
                        iu[p] = '1'
            if ''.join(iu) != s['t']:
                return f"nested scans cover {''.join(iu)} instead of the compscan's dumps {s['t']}"
            if s['t_after_inner'] != s['t'] and not restacked(case):
                return 'nested scans() did not restore the compscan selection'
    if ''.join(union) != t0:
        return f"union of the items' dumps {''.join(union)} is not the prior time selection {t0}"
    if res['after'] != res['before']:
        return (f"after exhaustion the selection is T={res['after'][0]} F={res['after'][1]} B={res['after'][2]} "
                f'but before iteration it was T={t0} F={f0} B={b0}')
    ma = after.split(' ')
    mirror = tuple(x.split('=')[1] for x in ma)
    if mirror != res['after']:
        ctx.advise(f'mirror model predicts {mirror} after iteration, implementation {res["after"]}')
    return None


def restacked(case, what=''):
    """history re-specified a time keyword without clearing the time dimension (reset='' or an
    explicit reset that does not name T) on top of an earlier use of the same keyword"""
    seen = set()
    for call in case['hist']['calls']:
        keys = {c[0] for c in call['crits']} & T_KEYS
        clears_t = call['bare'] or (call['reset'] in (None, 'auto') and bool(keys)) or \
            (call['reset'] not in (None, 'auto') and 'T' in call['reset'])
        if not clears_t and keys & seen:
            return True
        if clears_t:
            seen = set()
        seen |= keys
    return False


def m_restack(case, what):
    return case.get('kind') == 'iter' and 'after exhaustion' in what and restacked(case)


# ------------------------------------------------------------------ structure on a real v4 data set

ACTS = ['slew', 'track', 'scan', 'stop', 'scan_ready', 'scan_complete', 'wind_stow']
LABELS3 = ['', 'track', 'raster']


def structure_line(case):
    def enc(events, table, off=0):
        ts = ','.join(str(int(round(2 * t))) for t, _ in events) or '-'
        vs = ','.join(str(table.index(v) + off) for _, v in events) or '-'
        return ts, vs
    a = enc(case['activity'], ACTS)
    l = enc(case['labels'], LABELS3)
    t = enc(case['targets'], v4synth.TARGETS, 1)
    return f"structure {case['T']} {a[0]} {a[1]} {l[0]} {l[1]} {t[0]} {t[1]}"


def gen_structure_case(rng):
    T = rng.randint(2, 10)
    def events(vals, maxn):
        n = rng.randint(1, maxn)
        ts = sorted({rng.choice([-1.0, -0.5]) if i == 0 else rng.choice([x / 2.0 for x in range(0, 2 * T + 2)])
                     for i in range(n)})
        out, prev = [], None
        for t in ts:
            v = rng.choice([x for x in vals if x != prev] or vals)
            out.append([t, v])
            prev = v
        return out
    return dict(kind='structure', T=T, activity=events(ACTS, 6),
                targets=events(v4synth.TARGETS, 4), labels=events(['track', 'raster', ''], 4))


def run_structure(case):
    import random
    rng = random.Random(1)
    with dask.config.set(scheduler='synchronous'):
        syn = v4synth.make_v4(rng, T=case['T'], F=2, n_ants=1, shuffle_bls=False,
                              activity=[tuple(x) for x in case['activity']],
                              targets=[tuple(x) for x in case['targets']],
                              labels=[tuple(x) for x in case['labels']])
        d = syn.dataset
        out = {}
        for name in ('scan_index', 'compscan_index', 'target_index'):
            out[name] = [int(x) for x in d.sensor['Observation/' + name]]
        out['scan_state'] = [str(x) for x in d.sensor['Observation/scan_state']]
        out['label'] = [str(x) for x in d.sensor['Observation/label']]
        out['target'] = [x.name for x in d.sensor['Observation/target']]
        steps = []
        for idx, state, target in d.scans():
            steps.append((int(idx), [int(x) for x in d.dumps]))
        out['scans'] = steps
        out['after'] = [int(x) for x in d.dumps]
    return out


def judge_structure(case, out, reply=None):
    T = case['T']
    if reply is not None and not reply.startswith('E:') and reply != 'bad-op':
        # segmentation computed by the Lean model (sensor_to_categorical + add_unmatched / align / remove / ...)
        f = [[int(x) for x in part.split(',')] if part != '-' else [] for part in reply.split('|')]
        states = ['slew', 'track', 'scan', 'stop']
        tnames = ['Nothing'] + [t.split(',')[0] for t in v4synth.TARGETS]
        want = dict(scan_index=f[0], compscan_index=f[1], target_index=f[2],
                    scan_state=[states[i] if i < 4 else '?' for i in f[3]],
                    label=[LABELS3[i] if i < 3 else '?' for i in f[4]],
                    target=[tnames[i] if i < len(tnames) else '?' for i in f[5]])
        for k in ('scan_index', 'compscan_index', 'scan_state', 'label', 'target', 'target_index'):
            if out[k] != want[k]:
                return (f'{k} per dump is {out[k]} but the documented segmentation of activity {case["activity"]}, '
                        f'labels {case["labels"]}, targets {[(t, v.split(",")[0]) for t, v in case["targets"]]} gives {want[k]}')
    for name in ('scan_index', 'compscan_index'):
        v = out[name]
        if len(v) != T:
            return f'{name} has {len(v)} values for {T} dumps'
        if v[0] != 0 or any(b - a not in (0, 1) for a, b in zip(v[:-1], v[1:])):
            return f'{name} is not numbered consecutively from zero in time order: {v}'
    if len(out['target_index']) != T:
        return 'target_index does not cover every dump'
    seen = []
    for idx, dumps in out['scans']:
        seen += dumps
        if any(out['scan_index'][p] != idx for p in dumps):
            return f'scan {idx} exposes dumps of another scan'
    if sorted(seen) != list(range(T)) or len(seen) != len(set(seen)):
        return f'scans() did not partition the dumps: {out["scans"]}'
    if out['after'] != list(range(T)):
        return 'selection not restored after scans()'
    return None


def evaluate(ctx, cases):
    bad = []
    iters = [c for c in cases if c['kind'] == 'iter']
    all_lines, spans, results = [], [], []
    for c in iters:
        lines, res = run_iter(c)
        spans.append((len(all_lines), len(lines)))
        all_lines += lines
        results.append((lines, res))
    replies = common.run_model('C03', all_lines)
    for c, (start, n), (lines, res) in zip(iters, spans, results):
        v = judge_iter(ctx, c, lines, res, replies[start:start + n])
        ctx.tag('iter-' + c['which'], 'nested' if c['nested'] and c['which'] == 'compscans' else 'flat',
                'restacked' if restacked(c) else 'plain-history')
        ctx.count(lines, len(res['steps']) >= 2,
                  sample={'history': lines[1:4], 'steps': [(s['idx'], s['t']) for s in res['steps']][:4]})
        if v:
            bad.append((c, v))
    for c in cases:
        if c['kind'] != 'real':
            continue
        v = run_real(ctx, c)
        ctx.count(json.dumps(c, sort_keys=True), True, sample={'real': c['fmt']})
        if v:
            bad.append((c, v))
    for c in cases:
        if c['kind'] != 'structure':
            continue
        try:
            out = run_structure(c)
            rep = common.run_model('C03', [structure_line(c)])[0]
            v = judge_structure(c, out, rep)
            if rep.startswith('E:'):
                ctx.tag('structure-model-error')
        except Exception as e:   # noqa: BLE001
            out, v = {}, f'opening / iterating the synthetic v4 data set raised {type(e).__name__}: {str(e)[:100]}'
        ctx.tag('structure')
        ctx.traces_validated += 1
        ctx.count(json.dumps(c, sort_keys=True), len(set(out.get('scan_index', []))) >= 2,
                  sample={'activity': c['activity'], 'scan_index': out.get('scan_index')})
        if v:
            bad.append((c, v))
    return bad


# ---------------------------------------------------------------- real readers: v1 files, concatenated v4 data sets

def gen_real_case(rng):
    """a data set opened through a real reader: a v1 file with more than ten compound scans, or 2-4 v4 data sets
    opened together whose junctions may repeat the state (a capture restarted mid-track)"""
    if rng.random() < 0.35:
        return dict(kind='real', fmt='v1', seed=rng.randrange(2 ** 31), n=rng.randint(11, 14))
    if rng.random() < 0.3:
        # a v3 / v2 file whose target sensor goes blank (or unparsable) in mid-observation and comes back
        T = rng.randint(6, 12)
        cuts = sorted(rng.sample(range(1, T), 3))
        return dict(kind='real', fmt=rng.choice(['v3', 'v3', 'v2']), seed=rng.randrange(2 ** 31), T=T, cuts=cuts,
                    blank=rng.choice(['', 'not a target at all']), order=rng.sample([0, 1, 2], 3))
    nparts = rng.randint(2, 4)
    parts = []
    last_state = None
    for p in range(nparts):
        T = rng.randint(2, 6)
        first = last_state if (last_state and rng.random() < 0.6) else rng.choice(['slew', 'track'])
        act = [[-1.0, first]]
        for _ in range(rng.randint(0, 2)):
            act.append([rng.randint(1, 2 * T - 1) / 2.0, rng.choice(['slew', 'track', 'scan'])])
        act = sorted({a[0]: a for a in act}.values())
        last_state = act[-1][1]
        parts.append(dict(T=T, activity=act, targets=[[-1.0, rng.randrange(3)]], extra=False,
                          seed=rng.randrange(2 ** 31)))
    order = list(range(nparts))
    rng.shuffle(order)
    return dict(kind='real', fmt='v4concat', F=2, n_ants=1, parts=parts, order=order, ops=[], bad_period=False,
                seed=rng.randrange(2 ** 31), which=rng.choice(['scans', 'compscans']))


def run_real(ctx, c):
    """the clauses of the property checked directly on the opened data set -> violation text or None"""
    import random
    import shutil
    import tempfile
    from harness import h5synth
    from harness.props import c19
    tmp = tempfile.mkdtemp(prefix='c03_')
    try:
        if c['fmt'] == 'v1':
            tg = ('Alpha, radec, 19:39:25.03, -63:42:45.6', 'Beta, radec, 04:08:20.38, -65:45:09.1')
            scans = []
            for k in range(c['n']):
                scans.append(('slew', tg[k % 2], 1, 'track'))
                scans.append(('scan', tg[k % 2], 1 + k % 2, 'track'))
            syn = h5synth.make_v1(os.path.join(tmp, 'v1.h5'), random.Random(c['seed']), scans=scans, F=2, n_ants=1)
            d = syn.dataset
            which = ['scans', 'compscans']
        elif c['fmt'] in ('v3', 'v2'):
            names = [h5synth.TARGETS[i] for i in c['order']]
            tgts = [(-1.0, names[0]), (c['cuts'][0] - 0.5, c['blank']), (c['cuts'][1] - 0.5, names[1]),
                    (c['cuts'][2] - 0.5, names[2])]
            act = [(-1.0, 'track')] + [(k - 0.5 + 0.01 * j, 'track' if j % 2 else 'slew') for j, k in enumerate(c['cuts'])]
            make = h5synth.make_v3 if c['fmt'] == 'v3' else h5synth.make_v2
            syn = make(os.path.join(tmp, 'f.h5'), random.Random(c['seed']), T=c['T'], F=2, n_ants=1, targets=tgts,
                       activity=act)
            d = syn.dataset
            which = ['scans', 'compscans']
        else:
            with dask.config.set(scheduler='synchronous'):
                parts = c19.build_parts(c, tmp)
                d = c19.open_concat(c, parts)
            which = [c['which']]
        ts_all = np.asarray(d.timestamps[:])
        if np.any(np.diff(ts_all) <= 0):
            return 'the dumps of the data set are not in time order'
        for name in ('Observation/scan_index', 'Observation/compscan_index'):
            v = [int(x) for x in d.sensor[name]]
            if v[0] != 0 or any(b - a not in (0, 1) for a, b in zip(v[:-1], v[1:])):
                return f'{name} is not numbered consecutively from zero in time order: {v}'
        for w in which:
            before = [int(x) for x in d.dumps]
            seen, last_t, last_idx = [], -np.inf, -1
            it = d.scans() if w == 'scans' else d.compscans()
            for idx, name, target in it:
                cur = [int(x) for x in d.dumps]
                if not cur:
                    return f'{w}(): item {idx} exposes no dumps'
                t = np.asarray(d.timestamps[:])
                if t[0] <= last_t:
                    return f'{w}(): item {idx} starts at {t[0]:.1f}, not after the end ({last_t:.1f}) of the item visited before it'
                if idx <= last_idx:
                    return f'{w}(): items are not visited in increasing index order ({last_idx} then {idx})'
                last_t, last_idx = t[-1], idx
                if set(cur) & set(seen):
                    return f'{w}(): item {idx} exposes dumps {sorted(set(cur) & set(seen))} that an earlier item exposed'
                seen += cur
                sensor = 'Observation/scan_state' if w == 'scans' else 'Observation/label'
                vals = {str(x) for x in d.sensor[sensor]}
                if vals != {str(name)}:
                    return f'{w}(): item {idx} yields {name!r} but its dumps have {sorted(vals)}'
                tg_names = {x.name for x in d.sensor['Observation/target']}
                if w == 'scans' and tg_names != {target.name}:
                    return f'{w}(): item {idx} yields target {target.name!r} but its dumps are on {sorted(tg_names)}'
            if sorted(seen) != before:
                return f'{w}(): the items expose dumps {sorted(seen)[:12]}…, the selection before iteration was {before[:12]}…'
            if [int(x) for x in d.dumps] != before:
                return f'{w}(): the time selection is not restored after the iteration'
        ctx.tag('real-' + c['fmt'])
        return None
    except Exception as e:   # noqa: BLE001
        import traceback
        where = traceback.extract_tb(e.__traceback__)[-1]
        return (f"iterating a {c['fmt']} data set raised {type(e).__name__}: {str(e)[:100]} "
                f'(at {os.path.basename(where.filename)}:{where.lineno})')
    finally:
        shutil.rmtree(tmp, ignore_errors=True)


def still_fails(ctx, case):
    try:
        return bool(evaluate(common.Ctx(ctx.prop, ctx.tier, ctx.seed), [case]))
    except Exception:   # noqa: BLE001
        return False


def shrink(ctx, case, what):
    if case['kind'] != 'iter':
        return case, what
    cur = json.loads(json.dumps(case))
    calls = common.ddmin(cur['hist']['calls'], lambda cs: still_fails(ctx, dict(cur, hist=dict(cur['hist'], calls=cs))))
    cur['hist']['calls'] = calls
    bad = evaluate(common.Ctx(ctx.prop, ctx.tier, ctx.seed), [cur])
    return (cur, bad[0][1]) if bad else (case, what)


MATCHERS = {'c03_restore_after_restacked_time_key': m_restack}


def corpus():
    d = os.path.join(common.VERIF, 'corpus', 'C03')
    out = []
    if os.path.isdir(d):
        for nm in sorted(os.listdir(d)):
            out.append(json.load(open(os.path.join(d, nm)))['case'])
    return out


def run(ctx):
    ctx.matchers.update(MATCHERS)
    build = common.build_and_audit('C03', ctx.tier)
    cases = corpus() + [gen_case(ctx.rng) for _ in range(ctx.q(300, 10000))]
    cases += [gen_structure_case(ctx.rng) for _ in range(ctx.q(80, 3000))]
    cases += [gen_real_case(ctx.rng) for _ in range(ctx.q(12, 200))]
    # always: a v3 and a v2 file whose target sensor is unparsable in mid-observation
    cases += [dict(kind='real', fmt=f, seed=ctx.rng.randrange(2 ** 31), T=8, cuts=[2, 5, 7], blank='not a target at all',
                   order=[0, 2, 1]) for f in ('v3', 'v2')]
    bad = evaluate(ctx, cases)
    for c, v in bad:
        ctx.violation(c, v)
    return common.finish(ctx, build, RULE, CHECKER, TRUSTED, shrink=lambda c, w: shrink(ctx, c, w))


def replay(ctx, rep):
    ctx.matchers.update(MATCHERS)
    build = common.build_and_audit('C03', 'quick')
    for cc, v in evaluate(ctx, [rep['case']]):
        ctx.violation(cc, v)
    return common.finish(ctx, build, RULE, CHECKER, TRUSTED)
